// Package res: the JSON summary every correspondence suite prints for the check driver.
package res

import (
	"encoding/json"
	"fmt"
	"os"
)

// Disagreement is one input on which implementation and model (or implementation and spec) differ.
type Disagreement struct {
	Suite   string `json:"suite"`
	Kind    string `json:"kind"`            // "impl-vs-model" | "impl-vs-spec" | "panic" | ...
	Input   string `json:"input"`           // protocol line / program / history, replayable
	Impl    string `json:"impl"`            // what the real code did
	Model   string `json:"model"`           // what the Lean model / spec says
	Clause  string `json:"clause"`          // spec clause or theorem name falsified, if known
	Known   string `json:"known,omitempty"` // id of the KNOWN_FINDINGS entry whose class matches, if any
	Shrunk  bool   `json:"shrunk,omitempty"`
	Details string `json:"details,omitempty"`
}

type Summary struct {
	Suite              string         `json:"suite"`
	Tier               string         `json:"tier"`
	Seed               uint64         `json:"seed"`
	Evaluations        int            `json:"evaluations"`
	DistinctNontrivial int            `json:"distinct_nontrivial"`
	Rule               string         `json:"rule"`
	Exhaustive         bool           `json:"exhaustive"`
	Samples            []string       `json:"samples"`
	Distribution       map[string]int `json:"distribution,omitempty"`
	Notes              []string       `json:"notes,omitempty"`
	Disagreements      []Disagreement `json:"disagreements"`
	OutsideFragment    int            `json:"outside_fragment,omitempty"`
	Extra              map[string]any `json:"extra,omitempty"`
}

func (s *Summary) Count(key string) {
	if s.Distribution == nil {
		s.Distribution = map[string]int{}
	}
	s.Distribution[key]++
}

func (s *Summary) AddN(key string, n int) {
	if s.Distribution == nil {
		s.Distribution = map[string]int{}
	}
	s.Distribution[key] += n
}

func (s *Summary) Sample(x string, max int) {
	if len(s.Samples) < max {
		s.Samples = append(s.Samples, x)
	}
}

func (s *Summary) Disagree(d Disagreement) {
	d.Suite = s.Suite
	if len(s.Disagreements) < 50 {
		s.Disagreements = append(s.Disagreements, d)
	}
}

// Emit prints the summary as one JSON document on stdout (or to path if given).
func (s *Summary) Emit(path string) {
	if s.Disagreements == nil {
		s.Disagreements = []Disagreement{}
	}
	if s.Samples == nil {
		s.Samples = []string{}
	}
	b, err := json.MarshalIndent(s, "", " ")
	if err != nil {
		fmt.Fprintln(os.Stderr, "emit:", err)
		os.Exit(2)
	}
	if path == "" || path == "-" {
		os.Stdout.Write(b)
		os.Stdout.Write([]byte("\n"))
		return
	}
	if err := os.WriteFile(path, b, 0o644); err != nil {
		fmt.Fprintln(os.Stderr, "emit:", err)
		os.Exit(2)
	}
}
