// Package rng: one splitmix64 stream; every random choice of a run derives from VERIF_SEED through it.
package rng

type R struct{ s uint64 }

func New(seed uint64) *R { return &R{s: seed*0x9E3779B97F4A7C15 + 0x1234567} }

func (r *R) U64() uint64 {
	r.s += 0x9E3779B97F4A7C15
	z := r.s
	z = (z ^ (z >> 30)) * 0xBF58476D1CE4E5B9
	z = (z ^ (z >> 27)) * 0x94D049BB133111EB
	return z ^ (z >> 31)
}

// Intn returns a value in [0, n).
func (r *R) Intn(n int) int {
	if n <= 0 {
		return 0
	}
	return int(r.U64() % uint64(n))
}

func (r *R) Bool() bool { return r.U64()&1 == 1 }

// Chance returns true with probability num/den.
func (r *R) Chance(num, den int) bool { return r.Intn(den) < num }

func Pick[T any](r *R, xs []T) T { return xs[r.Intn(len(xs))] }

// Fork derives an independent stream (so that sub-generators do not perturb each other).
func (r *R) Fork() *R { return &R{s: r.U64()} }
