// Package apf extracts the abstract program format (DESIGN.md §4) from a type-checked package with
// go/ast + go/types only — it calls no gogreement code. It records what is there: the syntactic shape
// the implementation looks at and the type information the specification speaks about.
package apf

import (
	"fmt"
	"go/ast"
	"go/token"
	"go/types"
	"regexp"
	"sort"
	"strings"

	"golang.org/x/tools/go/packages"
)

const hexdigits = "0123456789abcdef"

func hx(s string) string {
	if s == "" {
		return "-"
	}
	b := make([]byte, 0, 2*len(s))
	for i := 0; i < len(s); i++ {
		b = append(b, hexdigits[s[i]>>4], hexdigits[s[i]&15])
	}
	return string(b)
}

type enc struct {
	b    strings.Builder
	fset *token.FileSet
	info *types.Info
	// receiver variable of the function declaration being encoded (nil outside methods / unnamed receivers)
	recvObj  types.Object
	recvName string
}

func (e *enc) w(toks ...string) {
	for _, t := range toks {
		e.b.WriteByte(' ')
		e.b.WriteString(t)
	}
}

func (e *enc) i(v int) { e.w(fmt.Sprint(v)) }

func (e *enc) pkgOf(p *types.Package) string {
	if p == nil {
		return "~"
	}
	return hx(p.Path())
}

func (e *enc) ty(t types.Type) {
	switch tt := t.(type) {
	case *types.Alias:
		e.w("a", e.pkgOf(tt.Obj().Pkg()), hx(tt.Obj().Name()))
		e.ty(tt.Rhs())
	case *types.Named:
		e.w("n", e.pkgOf(tt.Obj().Pkg()), hx(tt.Obj().Name()))
	case *types.Pointer:
		e.w("p")
		e.ty(tt.Elem())
	default:
		e.w("x")
	}
}

func (e *enc) optTy(t types.Type) {
	if t == nil {
		e.w("~")
		return
	}
	e.ty(t)
}

func (e *enc) typeOf(x ast.Expr) types.Type {
	if x == nil {
		return nil
	}
	return e.info.TypeOf(x)
}

func (e *enc) obj(o types.Object) {
	switch oo := o.(type) {
	case nil:
		e.w("~")
	case *types.TypeName:
		e.w("t", e.pkgOf(oo.Pkg()), hx(oo.Name()))
	case *types.Func:
		sig, _ := oo.Type().(*types.Signature)
		if sig != nil && sig.Recv() != nil {
			e.w("m", e.pkgOf(oo.Pkg()), hx(oo.Name()))
			e.ty(sig.Recv().Type())
		} else {
			e.w("f", e.pkgOf(oo.Pkg()), hx(oo.Name()))
		}
	default:
		e.w("v", e.pkgOf(o.Pkg()))
	}
}

func (e *enc) lhs(x ast.Expr) {
	switch xx := x.(type) {
	case *ast.ParenExpr:
		e.w("par")
		e.lhs(xx.X)
	case *ast.SelectorExpr:
		e.w("sel")
		e.optTy(e.typeOf(xx.X))
		e.w(hx(xx.Sel.Name))
		e.i(int(xx.Pos()))
	case *ast.IndexExpr:
		e.w("idx")
		e.lhs(xx.X)
		e.i(int(xx.Pos()))
	case *ast.StarExpr:
		e.w("star")
		e.lhs(xx.X)
		e.i(int(xx.Pos()))
	case *ast.Ident:
		// identifiers are resolved: one that carries the receiver's name and denotes another variable (a parameter or
		// local that shadows the receiver) is given a name of its own
		if e.recvObj != nil && xx.Name == e.recvName {
			if o := e.info.Uses[xx]; o != nil && o != e.recvObj {
				e.w("ident", hx(xx.Name+"~shadowing"))
				return
			}
		}
		e.w("ident", hx(xx.Name))
	default:
		e.w("oth")
	}
}

func (e *enc) line(p token.Pos) int { return e.fset.PositionFor(p, false).Line }

func (e *enc) doc(cg *ast.CommentGroup) {
	if cg == nil {
		e.w("~")
		return
	}
	e.w("D")
	e.i(len(cg.List))
	for _, c := range cg.List {
		e.w(hx(c.Text))
	}
}

// recvSyn mirrors the *documented* behaviour of annotations.ExtractReceiverType on the syntax:
// T -> "T", *T -> "T", anything else -> "".
func recvSyn(x ast.Expr) string {
	switch t := x.(type) {
	case *ast.StarExpr:
		if id, ok := t.X.(*ast.Ident); ok {
			return id.Name
		}
	case *ast.Ident:
		return t.Name
	}
	return ""
}

// recvTypeName: the defined type a method is declared on, however the receiver is written (T, *T, (*T), *(T), an
// alias of T, a generic T[...]); the written form only where the expression has no type (F22)
func (e *enc) recvTypeName(x ast.Expr) string {
	if t := e.typeOf(x); t != nil {
		if p, ok := types.Unalias(t).(*types.Pointer); ok {
			t = p.Elem()
		}
		if n, ok := types.Unalias(t).(*types.Named); ok {
			return n.Obj().Name()
		}
	}
	return recvSyn(x)
}

func (e *enc) nodeKind(n ast.Node) {
	switch nn := n.(type) {
	case *ast.FuncDecl:
		e.w("fd", hx(nn.Name.Name))
	case *ast.AssignStmt:
		tok := "o"
		if nn.Tok == token.ASSIGN {
			tok = "a"
		} else if nn.Tok == token.DEFINE {
			tok = "d"
		}
		e.w("as", tok)
		e.i(len(nn.Lhs))
		for _, l := range nn.Lhs {
			e.lhs(l)
		}
	case *ast.IncDecStmt:
		e.w("id")
		e.lhs(nn.X)
	case *ast.CompositeLit:
		e.w("cl")
		e.optTy(e.info.TypeOf(nn))
	case *ast.CallExpr:
		e.w("ca")
		switch f := nn.Fun.(type) {
		case *ast.Ident:
			e.w("i", hx(f.Name))
			e.obj(e.info.Uses[f])
		case *ast.SelectorExpr:
			pkg := "~"
			if id, ok := f.X.(*ast.Ident); ok {
				if pn, ok := e.info.Uses[id].(*types.PkgName); ok {
					pkg = hx(pn.Imported().Path())
				}
			}
			e.w("s", pkg, hx(f.Sel.Name))
			e.optTy(e.typeOf(f.X))
		default:
			e.w("x")
		}
		e.i(len(nn.Args))
		if len(nn.Args) > 0 {
			e.optTy(e.typeOf(nn.Args[0]))
		} else {
			e.w("~")
		}
	case *ast.GenDecl:
		if nn.Tok != token.VAR {
			e.w("o")
			return
		}
		e.w("gv")
		e.i(len(nn.Specs))
		for _, s := range nn.Specs {
			vs := s.(*ast.ValueSpec)
			hv := "0"
			if len(vs.Values) > 0 {
				hv = "1"
			}
			e.w("VS", hv)
			e.i(len(vs.Names))
			for _, nm := range vs.Names {
				e.w(hx(nm.Name))
				e.i(int(nm.Pos()))
				e.optTy(e.info.TypeOf(nm))
			}
		}
	case *ast.ValueSpec:
		e.w("vs")
		e.optTy(e.typeOf(nn.Type))
	case *ast.Field:
		e.w("fl")
		e.optTy(e.typeOf(nn.Type))
	case *ast.SelectorExpr:
		e.w("se")
		o := e.info.Uses[nn.Sel]
		if o == nil {
			o = e.info.ObjectOf(nn.Sel)
		}
		e.obj(o)
	case *ast.Comment, *ast.CommentGroup:
		e.w("cm")
	default:
		e.w("o")
	}
}

func (e *enc) nodes(root ast.Node) {
	type rec struct {
		n    ast.Node
		size int
	}
	var list []*rec
	var stack []*rec
	ast.Inspect(root, func(n ast.Node) bool {
		if n == nil {
			top := stack[len(stack)-1]
			stack = stack[:len(stack)-1]
			if len(stack) > 0 {
				stack[len(stack)-1].size += top.size + 1
			}
			return false
		}
		r := &rec{n: n}
		list = append(list, r)
		stack = append(stack, r)
		return true
	})
	e.i(len(list))
	for _, r := range list {
		e.w("N")
		e.i(int(r.n.Pos()))
		e.i(int(r.n.End()))
		e.i(e.line(r.n.Pos()))
		e.i(e.line(r.n.End()))
		e.i(r.size)
		e.nodeKind(r.n)
	}
}

func (e *enc) decl(d ast.Decl) {
	switch dd := d.(type) {
	case *ast.FuncDecl:
		e.w("FUNC")
		e.i(int(dd.Pos()))
		e.i(int(dd.End()))
		e.i(e.line(dd.End()))
		e.w(hx(dd.Name.Name))
		e.doc(dd.Doc)
		e.recvObj, e.recvName = nil, ""
		if dd.Recv != nil && len(dd.Recv.List) > 0 && len(dd.Recv.List[0].Names) > 0 {
			e.recvName = dd.Recv.List[0].Names[0].Name
			e.recvObj = e.info.Defs[dd.Recv.List[0].Names[0]]
		}
		if dd.Recv != nil && len(dd.Recv.List) > 0 {
			f := dd.Recv.List[0]
			e.w("R", hx(e.recvTypeName(f.Type)))
			if len(f.Names) > 0 {
				e.w(hx(f.Names[0].Name))
			} else {
				e.w("~")
			}
			e.optTy(e.typeOf(f.Type))
		} else {
			e.w("~")
		}
		e.nodes(dd)
	case *ast.GenDecl:
		e.recvObj, e.recvName = nil, ""
		e.w("GEN")
		e.i(int(dd.Pos()))
		e.i(int(dd.End()))
		e.i(e.line(dd.End()))
		e.w(hx(dd.Tok.String()))
		e.doc(dd.Doc)
		if dd.Tok == token.TYPE {
			var specs []*ast.TypeSpec
			for _, s := range dd.Specs {
				if ts, ok := s.(*ast.TypeSpec); ok {
					specs = append(specs, ts)
				}
			}
			e.i(len(specs))
			for _, ts := range specs {
				e.w("TS", hx(ts.Name.Name))
				e.i(int(ts.Pos()))
				e.doc(ts.Doc)
				st, isStruct := ts.Type.(*ast.StructType)
				if isStruct {
					e.w("1")
					e.i(len(st.Fields.List))
					for _, f := range st.Fields.List {
						e.w("FLD")
						e.doc(f.Doc)
						e.i(len(f.Names))
						for _, nm := range f.Names {
							e.w(hx(nm.Name))
							e.i(int(nm.Pos()))
						}
					}
				} else {
					e.w("0")
					e.i(0)
				}
			}
		} else {
			e.i(0)
		}
		e.nodes(dd)
	default:
		// *ast.BadDecl cannot occur in a package that compiles
		e.w("GEN")
		e.i(int(d.Pos()))
		e.i(int(d.End()))
		e.i(e.line(d.End()))
		e.w(hx("bad"), "~")
		e.i(0)
		e.nodes(d)
	}
}

func (e *enc) file(f *ast.File, pkg *packages.Package) {
	e.w("FILE", hx(e.fset.Position(f.Pos()).Filename))
	e.i(int(f.Package))
	e.i(int(f.End()))
	e.i(len(f.Imports))
	for _, im := range f.Imports {
		e.w("IMP")
		if im.Name != nil {
			e.w(hx(im.Name.Name))
		} else {
			e.w("~")
		}
		path := strings.Trim(im.Path.Value, "\"`")
		e.w(hx(path))
		if ip := pkg.Imports[path]; ip != nil && ip.Types != nil {
			e.w(hx(ip.Types.Name()))
		} else {
			e.w("~")
		}
	}
	tf := e.fset.File(f.Pos())
	n := 0
	for _, cg := range f.Comments {
		n += len(cg.List)
	}
	e.i(n)
	for _, cg := range f.Comments {
		for _, c := range cg.List {
			line := e.line(c.Pos())
			e.w("C")
			e.i(int(c.Pos()))
			e.i(int(c.End()))
			e.i(line)
			e.i(int(tf.LineStart(line)))
			e.w(hx(c.Text))
		}
	}
	e.i(len(f.Decls))
	for _, d := range f.Decls {
		e.decl(d)
	}
}

// Package encodes one package. importIDs are the session ids of pkg.Types.Imports(), in that order.
// When stub is true the package is sent without files (a dependency known to carry no annotation keyword).
func Package(pkg *packages.Package, id string, importIDs []string, stub bool) string {
	e := &enc{fset: pkg.Fset, info: pkg.TypesInfo}
	e.b.WriteString("PKG")
	e.w(hx(id), hx(pkg.PkgPath), hx(pkg.Name))
	e.i(len(importIDs))
	for _, im := range importIDs {
		e.w(hx(im))
	}
	if stub {
		e.i(0)
		return e.b.String()
	}
	e.i(len(pkg.Syntax))
	for _, f := range pkg.Syntax {
		e.file(f, pkg)
	}
	e.implSection(pkg)
	return e.b.String()
}

// ---- @implements payload

var implWord = regexp.MustCompile(`\w+`)

func (e *enc) sigClass(classes *[]types.Type, sig types.Type) int {
	for i, c := range *classes {
		if types.Identical(c, sig) {
			return i
		}
	}
	*classes = append(*classes, sig)
	return len(*classes) - 1
}

// withoutRecv strips the receiver so that only parameters, results and variadic-ness are compared.
func withoutRecv(sig *types.Signature) types.Type {
	return types.NewSignatureType(nil, nil, nil, sig.Params(), sig.Results(), sig.Variadic())
}

// implSection encodes the interfaces that @implements lines of the package may name (current package and
// direct imports), the annotated types with their method sets, and go/types' own verdicts (the oracle).
func (e *enc) implSection(pkg *packages.Package) {
	words := map[string]bool{}
	typeNames := map[string]bool{}
	var order []string
	for _, f := range pkg.Syntax {
		for _, d := range f.Decls {
			gd, ok := d.(*ast.GenDecl)
			if !ok || gd.Tok != token.TYPE {
				continue
			}
			for _, s := range gd.Specs {
				ts, ok := s.(*ast.TypeSpec)
				if !ok {
					continue
				}
				doc := gd.Doc
				if ts.Doc != nil {
					doc = ts.Doc
				}
				if doc == nil {
					continue
				}
				has := false
				for _, c := range doc.List {
					if strings.Contains(c.Text, "@implements") {
						has = true
						for _, w := range implWord.FindAllString(c.Text, -1) {
							words[w] = true
						}
					}
				}
				if has && !typeNames[ts.Name.Name] {
					typeNames[ts.Name.Name] = true
					order = append(order, ts.Name.Name)
				}
			}
		}
	}
	if len(order) == 0 || pkg.Types == nil {
		return
	}
	var classes []types.Type
	type ifc struct {
		pkg   *types.Package
		name  string
		iface *types.Interface
		named types.Type
	}
	var ifaces []ifc
	scan := append([]*types.Package{pkg.Types}, pkg.Types.Imports()...)
	var ws []string
	for w := range words {
		ws = append(ws, w)
	}
	sort.Strings(ws)
	for _, p := range scan {
		for _, w := range ws {
			tn, ok := p.Scope().Lookup(w).(*types.TypeName)
			if !ok {
				continue
			}
			it, ok := tn.Type().Underlying().(*types.Interface)
			if !ok {
				continue
			}
			ifaces = append(ifaces, ifc{p, w, it.Complete(), tn.Type()})
		}
	}
	e.w("IMPL")
	e.i(len(ifaces))
	for _, it := range ifaces {
		e.w("IF", hx(it.pkg.Path()), hx(it.name))
		e.i(it.iface.NumMethods())
		for i := 0; i < it.iface.NumMethods(); i++ {
			m := it.iface.Method(i)
			e.w(hx(m.Id()), hx(m.Name()))
			e.i(e.sigClass(&classes, withoutRecv(m.Type().(*types.Signature))))
		}
	}
	e.i(len(order))
	for _, name := range order {
		obj := pkg.Types.Scope().Lookup(name)
		tn, _ := obj.(*types.TypeName)
		// an alias declaration denotes the type it is declared equal to
		var named types.Type
		if tn != nil {
			named = types.Unalias(tn.Type())
		}
		if named == nil {
			e.w("TY", hx(name), "0", "0")
			e.i(0)
			e.i(0)
			continue
		}
		// "a pointer to it has no methods": interface types, and pointer types (nameable only through an alias)
		_, isPtr := named.Underlying().(*types.Pointer)
		isIface := types.IsInterface(named) || isPtr
		e.w("TY", hx(name), "1")
		if isIface {
			e.w("1")
		} else {
			e.w("0")
		}
		vset := types.NewMethodSet(named)
		mset := types.NewMethodSet(types.NewPointer(named))
		if isIface {
			mset = vset
		}
		e.i(mset.Len())
		for i := 0; i < mset.Len(); i++ {
			fn := mset.At(i).Obj().(*types.Func)
			e.w(hx(fn.Id()), hx(fn.Name()))
			e.i(e.sigClass(&classes, withoutRecv(fn.Type().(*types.Signature))))
			if vset.Lookup(fn.Pkg(), fn.Name()) == nil {
				e.w("1")
			} else {
				e.w("0")
			}
		}
		e.i(2 * len(ifaces))
		for _, it := range ifaces {
			for _, ptr := range []bool{false, true} {
				var v types.Type = named
				if ptr {
					v = types.NewPointer(named)
				}
				ms := types.NewMethodSet(v)
				var missing []string
				for i := 0; i < it.iface.NumMethods(); i++ {
					m := it.iface.Method(i)
					sel := ms.Lookup(m.Pkg(), m.Name())
					if sel == nil || !types.Identical(withoutRecv(sel.Obj().Type().(*types.Signature)), withoutRecv(m.Type().(*types.Signature))) {
						missing = append(missing, m.Name())
					}
				}
				impl := types.Implements(v, it.iface)
				e.w("GO", hx(it.pkg.Path()), hx(it.name))
				if ptr {
					e.w("1")
				} else {
					e.w("0")
				}
				if impl {
					e.w("1")
				} else {
					e.w("0")
				}
				e.i(len(missing))
				for _, m := range missing {
					e.w(hx(m))
				}
			}
		}
	}
}
