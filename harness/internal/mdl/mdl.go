// Package mdl talks to the Lean model driver `ggmodel` over its line protocol (batch mode).
package mdl

import (
	"bufio"
	"bytes"
	"fmt"
	"os"
	"os/exec"
	"strings"
)

// Path of the ggmodel executable (set from --model or GGV_MODEL).
var Path = "/verif/lean/.lake/build/bin/ggmodel"

// Ask sends the request lines (without ids; ids are added here) and returns one reply per request.
func Ask(reqs []string) ([]string, error) {
	var in bytes.Buffer
	for i, r := range reqs {
		fmt.Fprintf(&in, "%d %s\n", i, r)
	}
	cmd := exec.Command(Path)
	cmd.Stdin = &in
	cmd.Stderr = os.Stderr
	out, err := cmd.Output()
	if err != nil {
		return nil, fmt.Errorf("ggmodel: %v", err)
	}
	res := make([]string, 0, len(reqs))
	sc := bufio.NewScanner(bytes.NewReader(out))
	sc.Buffer(make([]byte, 1<<20), 1<<28)
	i := 0
	for sc.Scan() {
		line := sc.Text()
		sp := strings.IndexByte(line, ' ')
		if sp < 0 {
			return nil, fmt.Errorf("ggmodel: bad reply %q", line)
		}
		if line[:sp] != fmt.Sprint(i) {
			return nil, fmt.Errorf("ggmodel: reply id %q, want %d", line[:sp], i)
		}
		res = append(res, line[sp+1:])
		i++
	}
	if len(res) != len(reqs) {
		return nil, fmt.Errorf("ggmodel: %d replies for %d requests", len(res), len(reqs))
	}
	return res, nil
}

const hexdigits = "0123456789abcdef"

// Hex encodes a byte string for the protocol ("-" for empty).
func Hex(s string) string {
	if s == "" {
		return "-"
	}
	b := make([]byte, 0, 2*len(s))
	for i := 0; i < len(s); i++ {
		b = append(b, hexdigits[s[i]>>4], hexdigits[s[i]&15])
	}
	return string(b)
}

// Unhex decodes a protocol hex string.
func Unhex(s string) (string, error) {
	if s == "-" {
		return "", nil
	}
	if len(s)%2 != 0 {
		return "", fmt.Errorf("odd hex")
	}
	b := make([]byte, len(s)/2)
	for i := 0; i < len(b); i++ {
		hi := strings.IndexByte(hexdigits, s[2*i])
		lo := strings.IndexByte(hexdigits, s[2*i+1])
		if hi < 0 || lo < 0 {
			return "", fmt.Errorf("bad hex")
		}
		b[i] = byte(hi<<4 | lo)
	}
	return string(b), nil
}
