// Package gen: seeded generator of always-compiling multi-package Go modules exercising the five
// annotations, the candidate statement forms of C01-C04, @ignore placements (C07), excluded files (C14)
// and, through layout / spelling options, the metamorphic variants of C12 / C13.
//
// The generator's intent is never used as an oracle: truth comes from the extractor + the Lean model/spec.
package gen

import (
	"fmt"
	"regexp"
	"sort"
	"strings"

	"ggvh/internal/rng"
)

// Options select a rendering of one program description (same seed => same description).
type Options struct {
	// layout (C12)
	PermuteDecls bool // shuffle the top-level declarations of each file
	Reassign     bool // move declarations between the regular files of a package
	BlankLines   bool // insert blank lines and plain comments between declarations and statements
	RenameLocals bool // consistently rename local variables (not receivers)
	LayoutSeed   uint64
	// spelling (C13): how a use site writes an annotated type
	Spelling int // 0 direct, 1 local alias, 2 alias in a third package, 3 renamed import, 4 parenthesised, 5 function-local aliases (one name, a different type per function)
	// features
	Ignores   bool // sprinkle @ignore comments
	TestFiles bool // add _test.go files (in-package and external) and excluded-token files
	NearMiss  bool // salt with near-miss comments
	// ForceTwin: two declaring packages that are byte-for-byte twins (same offsets in separate processes)
	ForceTwin bool
	// NoAnnotations: no declaration carries a real annotation (C09); near-misses only
	NoAnnotations bool
	// Root is the directory (and import-path element) of this program inside the module "exp"
	Root string
}

type Module struct {
	Files map[string]string // path relative to the module root -> content
	Tags  map[string]int    // candidate statement tag -> description index (for reports)
}

type gtype struct {
	pkg        *gpkg
	name       string
	kind       int // 0 struct, 1 named int
	immutable  bool
	ctors      []string
	testonly   bool
	pkgonly    []string // allow-list entries (nil = no annotation; empty non-nil = bare)
	hasPkgOnly bool
	mutable    bool // field Cache is @mutable
	docStyle   int  // 0 doc on the type decl, 1 inside a type (...) group with spec doc, 2 group doc on a single-spec group
	tmeth      bool // has a @testonly method
	pmeth      bool // has a @packageonly method
	pmethAllow []string
	ctorSplit  bool // one @constructor line per name
}

type gfunc struct {
	name       string
	testonly   bool
	hasPkgOnly bool
	pkgonly    []string
	ret        *gtype // nil: returns int; otherwise an accessor returning *ret
}

type gpkg struct {
	path, name string
	imports    []*gpkg
	types      []*gtype
	funcs      []*gfunc // annotated package-level functions (declared here)
	alias      map[*gpkg]string
	hidden     bool     // declares an unexported @immutable type that escapes through exported variables / functions
	relay      []*gtype // a relay package: hands out values of these types of the packages it imports
	relays     []*gpkg  // relay packages this package imports (their types are not in its `visible` list)
	thin       bool     // two small files: one names the declaring package, the other only the relay
}

type block struct {
	text    string
	file    int  // index of the regular file it is assigned to
	pinned  bool // must stay in its file (test / excluded files)
	fileTag string
}

type generator struct {
	r    *rng.R
	fr   *rng.R // file assignment only (so that extra blocks do not perturb the main stream)
	lr   *rng.R
	xr   *rng.R // later features draw from their own stream
	o    Options
	tag  int
	tags map[string]int
	lv   int
}

func (g *generator) nextTag() string {
	g.tag++
	t := fmt.Sprintf("/*#%d*/", g.tag)
	g.tags[t] = g.tag
	return t
}

var codeLists = []string{"IMM01", "IMM", "ALL", "CTOR01", "CTOR", "CTOR03", "TONL01", "TONL", "PKGO", "PKGO01", "imm02", "Ctor02, IMM03", "IMM04 because reasons", "XYZ", "TONL02, TONL03", "PKGO02,PKGO03", "IMPL", "all",
	"IMM01 legacy code, all callers audited", "CTOR01 see the ticket, IMM tracked elsewhere", "TONL02 (temporary, ALL of this goes away)", "PKGO02 reviewed,approved, imm01 too", "IMM03, CTOR01 reason, TONL",
	"IMM0", "IM", "CTO", "I", "TONL0, PKG", "A, AL"}

var hotCodes = []string{"PKGO01", "TONL01", "PKGO", "TONL", "ALL", "IMM01", "CTOR01", "IMM", "CTOR", "pkgo01", "Tonl01, PKGO01"}

func (g *generator) ignoreComment() string {
	// what gofmt leaves of differently indented comment lines: one blank, none, a tab, several blanks
	lead := []string{"// ", "// ", "// ", "//", "//\t", "//   "}[g.xr.Intn(6)]
	if g.r.Chance(1, 2) {
		return lead + "@ignore " + rng.Pick(g.r, hotCodes)
	}
	return lead + "@ignore " + rng.Pick(g.r, codeLists)
}

// commented-out annotations and other-case keywords followed by the lowercase keyword: used as doc lines
var nearMissDocs = []string{"//  * @immutable", "// * @testonly", "//   * @constructor NewStar", "//*@packageonly svc", "// @test covered by TestReset", "// @imm", "// @im", "// @t helper", "// @mut", "// @package internal", "// @const NewK", "// @implement io.Reader",
	"//\u00a0@immutable", "// \u3000@testonly", "// \u00a0 @constructor NewNb", "// @immutable\u00a0", "// @packageonly\u2003svc",
	"/*\nExample of use:\n\t// @immutable\n\t// @constructor NewSnapshot\n\t// @testonly\n*/", "// @immutables are a convention here", "// @immutableByConvention", "// @constructors NewX", "// @testonlyish helper", "// @packageonlysvc", "// @mutablefields", "// // @immutable", "// / @constructor NewNothing", "//\t// @packageonly nobody", "// // @testonly",
	"// @Immutable is what the original says; the marker @immutable is not applied here", "// @TESTONLY (see @testonly)", "// @Constructor NewX - not @constructor NewX",
	"// @PackageOnly svc, unlike @packageonly svc"}

var nearMisses = []string{"// NOTE: the old line read: // @testonly (removed)", "// was: // @immutable", "// x // @packageonly svc", "// see @immutable for details", "// @Immutable", "// @immutablex", "/* @immutable */", "// TODO @constructor New", "//@testonlyish", "// @ packageonly", "// not @mutable", "// @IGNORE IMM01", "// @ignoreIMM01", "// x // @testonly", "// v.X = 10 // @ignore IMM01", "// see below // @ignore ALL", "// was: _ = T{} // @ignore CTOR", "// @ignores IMM01"}

func (g *generator) local(base string) string {
	if g.o.RenameLocals {
		return base + "R"
	}
	return base
}

// typeRef spells type t as seen from package p (C13 options apply to annotated types of other packages and p's own)
func (g *generator) typeRef(p *gpkg, t *gtype, site int) string {
	direct := t.name
	if t.pkg != p {
		direct = p.alias[t.pkg] + "." + t.name
	}
	switch g.o.Spelling {
	case 1, 2:
		return "A" + aliasKey(t) // alias declared in p (1) or re-exported through alias package (2, rendered in p too)
	case 4:
		if site >= 0 && site%2 == 0 {
			return "(" + direct + ")"
		}
	}
	return direct
}

func aliasKey(t *gtype) string {
	k := strings.NewReplacer("/", "_", ".", "_").Replace(strings.TrimPrefix(t.pkg.path, "exp/"))
	return k + t.name
}

func allowText(list []string) string {
	if len(list) == 0 {
		return ""
	}
	return " " + strings.Join(list, ", ")
}

// Generate builds one program from seed under the given options.
func Generate(seed uint64, o Options) *Module {
	g := &generator{r: rng.New(seed), fr: rng.New(seed ^ 0xABCDEF), lr: rng.New(seed ^ (o.LayoutSeed+1)*0x9E3779B97F4A7C15), o: o, tags: map[string]int{}}
	r := g.r
	g.xr = rng.New(seed ^ 0x0DDBA11)
	m := &Module{Files: map[string]string{}, Tags: g.tags}
	m.Files["go.mod"] = "module exp\n\ngo 1.25\n"
	base := "exp"
	if o.Root != "" {
		base = "exp/" + o.Root
	}

	// ---- package DAG: declaring packages d0..dk, user packages u0..um
	nDecl := 1 + r.Intn(2)
	if o.ForceTwin {
		nDecl = 2
	}
	nUser := 1 + r.Intn(3)
	var pkgs []*gpkg
	var decls []*gpkg
	userNames := []string{"alpha", "beta", "okname", "svc"}
	sameDeclName := r.Chance(1, 3)
	sameUserName := r.Chance(1, 4)
	for i := 0; i < nDecl; i++ {
		p := &gpkg{path: fmt.Sprintf("%s/d%d", base, i), name: fmt.Sprintf("d%d", i), alias: map[*gpkg]string{}}
		if sameDeclName {
			p.path += "/model"
			p.name = "model"
		}
		if i > 0 && r.Chance(1, 2) && !o.ForceTwin {
			p.imports = append(p.imports, decls[0])
		}
		decls = append(decls, p)
		pkgs = append(pkgs, p)
	}
	// a relay package: imports d0 and hands out values of its types, so that a user can hold (and write to) a
	// value of an annotated type without importing the declaring package
	xr := rng.New(seed ^ 0x51ED51ED)
	var relayPkg *gpkg
	if xr.Chance(1, 2) && !o.NoAnnotations {
		relayPkg = &gpkg{path: base + "/relay", name: "relay", alias: map[*gpkg]string{}, imports: []*gpkg{decls[0]}}
		pkgs = append(pkgs, relayPkg)
	}
	var users []*gpkg
	for i := 0; i < nUser; i++ {
		nm := userNames[i%len(userNames)]
		if sameUserName {
			nm = "svc"
		}
		p := &gpkg{path: fmt.Sprintf("%s/u%d/%s", base, i, nm), name: nm, alias: map[*gpkg]string{}}
		if r.Chance(1, 4) {
			p.name = nm + "x" // package name differs from the last path element
		}
		for _, d := range decls {
			if len(p.imports) == 0 || r.Chance(2, 3) {
				p.imports = append(p.imports, d)
			}
		}
		if relayPkg != nil && xr.Chance(2, 3) {
			if xr.Chance(1, 3) {
				// only the relay: the declaring package is an indirect dependency
				var keep []*gpkg
				for _, im := range p.imports {
					if im != decls[0] {
						keep = append(keep, im)
					}
				}
				p.imports = keep
			}
			p.imports = append(p.imports, relayPkg)
			p.relays = append(p.relays, relayPkg)
		}
		users = append(users, p)
		pkgs = append(pkgs, p)
	}
	if relayPkg != nil && xr.Chance(2, 3) {
		thin := &gpkg{path: base + "/thin", name: "thin", alias: map[*gpkg]string{}, imports: []*gpkg{decls[0], relayPkg}, thin: true}
		users = append(users, thin)
		pkgs = append(pkgs, thin)
	}
	for _, p := range pkgs {
		seenName := map[string]bool{p.name: true}
		for k, im := range p.imports {
			p.alias[im] = im.name
			if seenName[im.name] {
				p.alias[im] = fmt.Sprintf("%s%d", im.name, k)
			}
			seenName[im.name] = true
			if g.o.Spelling == 3 {
				p.alias[im] = fmt.Sprintf("ren%s%d", im.name, k)
			}
		}
	}

	// ---- annotated items in declaring packages
	twin := len(decls) > 1 && len(decls[1].imports) == 0 && (r.Chance(1, 3) || o.ForceTwin) // d1 is a byte-for-byte twin of d0
	for di, d := range decls {
		if twin && di == 1 {
			for _, t := range decls[0].types {
				c := *t
				c.pkg = d
				d.types = append(d.types, &c)
			}
			byName := map[string]*gtype{}
			for _, t := range d.types {
				byName[t.name] = t
			}
			for _, f := range decls[0].funcs {
				c := *f
				if c.ret != nil {
					c.ret = byName[c.ret.name]
				}
				d.funcs = append(d.funcs, &c)
			}
			d.hidden = decls[0].hidden
			continue
		}
		nT := 1 + r.Intn(3)
		for i := 0; i < nT; i++ {
			t := &gtype{pkg: d, name: fmt.Sprintf("T%d", i), docStyle: r.Intn(3)}
			if r.Chance(1, 6) {
				t.kind = 1
			}
			t.immutable = r.Chance(3, 5) && !o.NoAnnotations
			if r.Chance(1, 2) && !o.NoAnnotations {
				t.ctors = []string{"New" + t.name}
				if r.Chance(1, 3) {
					t.ctors = append(t.ctors, "Make"+t.name)
				}
			}
			t.testonly = r.Chance(1, 4) && !o.NoAnnotations
			if r.Chance(1, 3) && !o.NoAnnotations {
				t.hasPkgOnly = true
				t.pkgonly = g.allowList(users)
			}
			t.mutable = t.immutable && t.kind == 0 && r.Chance(1, 2)
			t.tmeth = r.Chance(1, 3) && !o.NoAnnotations
			if r.Chance(1, 3) && !o.NoAnnotations {
				t.pmeth = true
				t.pmethAllow = g.allowList(users)
			}
			t.ctorSplit = xr.Chance(1, 2)
			d.types = append(d.types, t)
		}
		nF := 1 + r.Intn(2)
		for i := 0; i < nF; i++ {
			f := &gfunc{name: fmt.Sprintf("Helper%d", i)}
			f.testonly = r.Chance(1, 2) && !o.NoAnnotations
			if r.Chance(1, 2) && !o.NoAnnotations {
				f.hasPkgOnly = true
				f.pkgonly = g.allowList(users)
			}
			d.funcs = append(d.funcs, f)
		}
		// accessors: functions handing out values of the package's types (receivers of chained calls / writes)
		for _, t := range d.types {
			if t.kind == 0 && xr.Chance(1, 2) {
				f := &gfunc{name: "Obtain" + t.name, ret: t}
				f.testonly = xr.Chance(1, 4) && !o.NoAnnotations
				if xr.Chance(1, 3) && !o.NoAnnotations {
					f.hasPkgOnly = true
					f.pkgonly = g.allowListR(xr, users)
				}
				d.funcs = append(d.funcs, f)
			}
		}
		d.hidden = xr.Chance(1, 3) && !o.NoAnnotations
	}
	if relayPkg != nil {
		for _, t := range decls[0].types {
			if t.kind == 0 {
				relayPkg.relay = append(relayPkg.relay, t)
			}
		}
	}

	// ---- render every package
	for _, p := range pkgs {
		if twin && p == decls[1] {
			continue
		}
		g.renderPkg(m, p, decls)
	}
	// a package that reaches the declaring package only through a dot import (and a blank import of another one): the
	// annotations of a dot-imported package apply like those of any direct import
	if len(decls) > 0 && len(decls[0].types) > 0 {
		t := decls[0].types[0]
		var b []string
		if t.kind == 0 {
			b = []string{"p.X = 1 " + g.nextTag(), "p.X++ " + g.nextTag(), "p.Items[0] = 2 " + g.nextTag(), "_ = " + t.name + "{} " + g.nextTag(), "_ = new(" + t.name + ") " + g.nextTag(), "var z " + t.name + " " + g.nextTag(), "_ = z", "_ = []" + t.name + "{{X: 1}} " + g.nextTag()}
			if t.tmeth {
				b = append(b, "p.ResetForTest() "+g.nextTag())
			}
			if t.pmeth {
				b = append(b, "p.Internal() "+g.nextTag())
			}
		} else {
			b = []string{"*p = 1 " + g.nextTag(), "_ = new(" + t.name + ") " + g.nextTag(), "var z " + t.name + " " + g.nextTag(), "_ = z"}
		}
		for _, f := range decls[0].funcs {
			b = append(b, "_ = "+f.name+"() "+g.nextTag())
		}
		imp := "import . \"" + decls[0].path + "\"\n"
		if len(decls) > 1 {
			imp += "import _ \"" + decls[1].path + "\"\n"
		}
		m.Files[strings.TrimPrefix(base+"/dotuser", "exp/")+"/du.go"] = "package dotuser\n\n" + imp + "\nfunc DotUse(p *" + t.name + ") {\n" + indent(b) + "}\n"
	}
	if twin {
		// same bytes, same offsets: only the package clause and the directory differ (names of equal length)
		d0dir := strings.TrimPrefix(decls[0].path, "exp/") + "/"
		d1dir := strings.TrimPrefix(decls[1].path, "exp/") + "/"
		for name, content := range m.Files {
			if strings.HasPrefix(name, d0dir) {
				c := content
				if decls[0].name != decls[1].name {
					c = strings.Replace(c, "package "+decls[0].name+"\n", "package "+decls[1].name+"\n", 1)
					c = strings.Replace(c, "package "+decls[0].name+"_test\n", "package "+decls[1].name+"_test\n", 1)
				}
				if strings.HasSuffix(name, "/ext_test.go") {
					// the external test package imports the package it tests (paths of equal length)
					c = strings.ReplaceAll(c, "\""+decls[0].path+"\"", "\""+decls[1].path+"\"")
				}
				m.Files[d1dir+strings.TrimPrefix(name, d0dir)] = c
			}
		}
	}
	return m
}

func (g *generator) allowList(users []*gpkg) []string { return g.allowListR(g.r, users) }

func (g *generator) allowListR(r *rng.R, users []*gpkg) []string {
	var l []string
	for _, u := range users {
		switch r.Intn(4) {
		case 0:
			l = append(l, u.name) // by package name
		case 1:
			l = append(l, u.path) // by full path
		}
	}
	if r.Chance(1, 5) && len(l) > 0 {
		l = append(l, l[0]) // duplicate
	}
	if l == nil {
		l = []string{}
	}
	return l
}

func (g *generator) typeDecl(t *gtype) []string {
	var doc []string
	if t.immutable {
		doc = append(doc, "// @immutable"+[]string{"", "", " - the fields are filled in by the @constructor functions only", " (see @testonly helpers, @packageonly and @implements elsewhere)"}[g.xr.Intn(4)])
	} else {
		g.xr.Intn(4)
	}
	if len(t.ctors) > 0 {
		sep := []string{", ", ",", " , ", ",\t"}[g.r.Intn(4)]
		line := "// @constructor " + strings.Join(t.ctors, sep)
		if g.r.Chance(1, 4) {
			line += ","
		}
		if g.r.Chance(1, 4) {
			line += " - the only ways in"
		}
		if len(t.ctors) > 1 && t.ctorSplit {
			// one annotation line per constructor (the lists add up)
			doc = append(doc, "// @constructor "+t.ctors[0], "// @constructor "+strings.Join(t.ctors[1:], sep))
		} else {
			doc = append(doc, line)
		}
	}
	if t.testonly {
		doc = append(doc, "// @testonly")
	}
	if t.hasPkgOnly {
		if len(t.pkgonly) > 1 && g.r.Chance(1, 3) { // several annotation lines
			doc = append(doc, "// @packageonly "+t.pkgonly[0], "// @packageonly"+allowText(t.pkgonly[1:]))
		} else {
			doc = append(doc, "// @packageonly"+allowText(t.pkgonly))
		}
	}
	if g.o.NearMiss && g.r.Chance(1, 2) {
		doc = append([]string{rng.Pick(g.r, nearMisses[:3])}, doc...)
	}
	if len(doc) > 1 && g.r.Chance(1, 2) {
		doc = append([]string{"// " + t.name + " is a generated type."}, doc...)
	}
	var body string
	if t.kind == 1 {
		body = t.name + " int"
	} else {
		cache := "\tCache int\n"
		if t.mutable {
			cache = "\t// @mutable\n\tCache int\n"
		}
		multi := "\tHits, Misses int\n"
		if t.mutable && t.ctorSplit {
			multi = "\t// counters\n\t// @mutable\n\tHits, Misses int\n"
		}
		body = t.name + " struct {\n\tX     int\n\tItems []int\n\tM     map[string]int\n" + cache + multi + "\tAny   any\n\tCells  [3]int\n\tDigest *[4]byte\n\t// an embedded field has no name of its own to be marked\n\t// @mutable\n\tEmb\n}"
	}
	d := strings.Join(doc, "\n")
	if d != "" {
		d += "\n"
	}
	switch t.docStyle {
	case 1: // inside a type (...) group, doc on the spec
		var b strings.Builder
		b.WriteString("type (\n")
		for _, l := range doc {
			b.WriteString("\t" + l + "\n")
		}
		b.WriteString("\t" + strings.ReplaceAll(body, "\n", "\n\t") + "\n)")
		return []string{b.String()}
	case 2: // doc on the group declaration, single spec
		return []string{d + "type (\n\t" + strings.ReplaceAll(body, "\n", "\n\t") + "\n)"}
	}
	return []string{d + "type " + body}
}

type scopeVar struct {
	name string
	t    *gtype
	ptr  bool
}

// candidate statements for type t visible from package p, with variables v (pointer) and w (value)
func (g *generator) candidates(p *gpkg, t *gtype, v, w string) []string {
	tr := func(site int) string { return g.typeRef(p, t, site) }
	var c []string
	embRef := "Emb"
	if t.pkg != p {
		embRef = p.alias[t.pkg] + ".Emb"
	}
	if t.kind == 0 {
		c = append(c,
			v+".X = 1", w+".X = 2", v+".X += 3", v+".X++", w+".X--", v+".Items[0] = 4", v+`.M["k"] = 5`,
			"("+v+".X) = 6", v+".Cache = 7", "_ = "+v+".X", v+".Cache++", "("+v+".Items)[0] = 8", v+".X -= 1", v+".X, _ = 1, 2",
			"_ = "+tr(-1)+"{}", "_ = &"+tr(-1)+"{X: 1}", "_ = new("+tr(2)+")",
			"_ = []"+tr(-1)+"{{X: 1}}", "_ = []*"+tr(-1)+"{{X: 2}}", "_ = map[string]"+tr(-1)+`{"a": {}}`,
			"_ = func(q "+tr(6)+") {}", "_ = func() *"+tr(7)+" { return nil }",
			"_ = struct{ F "+tr(8)+" }{}",
			v+".Misses++", v+".Hits = 1", w+".Misses += 2",
			v+".X, "+v+".Items[0] = 1, 2", v+".Items[1], "+v+".X = 3, 4", v+".X, "+w+".Cache, "+v+".Items[2] = 5, 6, 7",
			v+".Cells[0] = 1", v+".Digest[1] = 2", v+".Cells[2]++", v+".Emb = "+embRef+"{}", v+".Emb.E = 3", v+".E++",
			v+".X &^= 1", v+".X <<= 2", w+".X |= 3", v+".X %= 4", v+".X ^= 5", w+".X >>= 1", v+".X *= 2", v+".X /= 3", v+".X &= 7",
			// a reported literal that contains further instantiations
			"_ = "+tr(-1)+"{Any: "+tr(-1)+"{}}", "_ = &"+tr(-1)+"{Any: new("+tr(12)+")}", "_ = "+tr(-1)+"{Any: func() any { var z "+tr(-1)+"; return z }()}",
			"_ = []"+tr(-1)+"{{Any: &"+tr(-1)+"{X: 1}}}", "_ = "+tr(-1)+"{Any: []*"+tr(-1)+"{{}}}",
		)
	} else {
		c = append(c, "_ = "+tr(0)+"(3)", "_ = new("+tr(1)+")", "_ = func(q "+tr(2)+") {}")
	}
	return c
}

func (g *generator) wrap(stmts []string) []string {
	r := g.r
	var out []string
	for _, s := range stmts {
		lines := []string{s}
		for depth := r.Intn(3); depth > 0; depth-- {
			ind := func(ls []string) []string {
				o := make([]string, len(ls))
				for i, l := range ls {
					o[i] = "\t" + l
				}
				return o
			}
			switch r.Intn(9) {
			case 0:
				lines = append(append([]string{"if true {"}, ind(lines)...), "}")
			case 1:
				lines = append(append([]string{"for i := 0; i < 1; i++ {"}, ind(lines)...), "}")
			case 2:
				lines = append(append([]string{"switch {", "case true:"}, ind(lines)...), "}")
			case 3:
				lines = append(append([]string{"select {", "default:"}, ind(lines)...), "}")
			case 4:
				lines = append(append([]string{"func() {"}, ind(lines)...), "}()")
			case 5:
				lines = append(append([]string{"defer func() {"}, ind(lines)...), "}()")
			case 6:
				lines = append(append([]string{"go func() {"}, ind(lines)...), "}()")
			case 7:
				lines = append(append([]string{"{"}, ind(lines)...), "}")
			default:
				g.lv++
				fn := g.local(fmt.Sprintf("fn%d", g.lv))
				lines = append(append([]string{fn + " := func() {"}, ind(lines)...), "}", fn+"()")
			}
			if g.o.Ignores && r.Chance(1, 10) {
				// a trailing @ignore on a line that holds only closing tokens
				lines[len(lines)-1] += " " + g.ignoreComment()
			}
		}
		out = append(out, lines...)
	}
	return out
}

// body builds a function body over the given variables.
func (g *generator) body(p *gpkg, vars []scopeVar, extra []string, n int) []string {
	r := g.r
	var stmts []string
	for i := 0; i < n; i++ {
		var s string
		if len(extra) > 0 && r.Chance(1, 3) {
			s = rng.Pick(r, extra)
		} else if len(vars) > 0 {
			sv := rng.Pick(r, vars)
			v, w := sv.name, sv.name
			s = rng.Pick(r, g.candidates(p, sv.t, v, w))
		} else {
			continue
		}
		tag := g.nextTag()
		// "¤CODE¤stmt": under Ignores the statement carries an @ignore of exactly that code (standalone or trailing)
		forced := ""
		if strings.HasPrefix(s, "¤") {
			k := strings.Index(s[len("¤"):], "¤")
			forced, s = s[len("¤"):len("¤")+k], s[2*len("¤")+k:]
		}
		raw := s
		s = strings.ReplaceAll(s, "§", g.local(fmt.Sprint(g.tag)))
		if forced != "" && g.o.Ignores && !strings.Contains(s, "\n") {
			if r.Bool() {
				stmts = append(stmts, "// @ignore "+forced, s+" "+tag)
			} else {
				stmts = append(stmts, s+" "+tag+" // @ignore "+forced)
			}
			continue
		}
		if strings.Contains(s, "\n") {
			ls := strings.Split(s, "\n")
			for k := 0; k < len(ls)-1; k++ {
				ls[k] += " " + g.nextTag()
			}
			s = strings.Join(ls, "\n")
		}
		if g.o.Ignores && r.Chance(1, 6) {
			switch r.Intn(3) {
			case 0: // standalone before the statement
				stmts = append(stmts, g.ignoreComment())
				if r.Chance(1, 3) {
					stmts = append(stmts, g.ignoreComment()) // two directives in one comment group: both count
				}
				if g.o.BlankLines && g.lr.Chance(1, 2) {
					stmts = append(stmts, "") // a blank line between the comment and the statement it covers
				}
				stmts = append(stmts, s+" "+tag)
			case 1: // trailing
				stmts = append(stmts, s+" "+tag+" "+g.ignoreComment())
			default: // standalone before a wrapped statement (scope = the whole following statement)
				w := g.wrap([]string{s + " " + tag})
				stmts = append(stmts, g.ignoreComment())
				stmts = append(stmts, w...)
				continue
			}
			continue
		}
		if g.o.Ignores && r.Chance(1, 8) {
			// standalone @ignore inside the body of a function literal (with and without a following statement there)
			inner := []string{g.ignoreComment(), s + " " + tag}
			if r.Bool() && !strings.Contains(raw, "\n") {
				tag2 := g.nextTag()
				inner = append(inner, strings.ReplaceAll(raw, "§", g.local(fmt.Sprint(g.tag)))+" "+tag2)
			}
			opener := rng.Pick(r, []string{"func() {", "defer func() {", "go func() {"})
			stmts = append(stmts, opener)
			for _, l := range inner {
				stmts = append(stmts, "\t"+l)
			}
			stmts = append(stmts, "}()")
			if !strings.Contains(raw, "\n") {
				tag3 := g.nextTag()
				stmts = append(stmts, strings.ReplaceAll(raw, "§", g.local(fmt.Sprint(g.tag)))+" "+tag3)
			}
			continue
		}
		if g.o.NearMiss && r.Chance(1, 8) {
			stmts = append(stmts, rng.Pick(r, nearMisses))
		}
		stmts = append(stmts, g.wrap([]string{s + " " + tag})...)
		if g.o.BlankLines && g.lr.Chance(1, 3) {
			stmts = append(stmts, "", "// plain comment")
		}
	}
	if g.o.Ignores && r.Chance(1, 5) {
		// nothing follows the comment inside the body: it covers nothing (in particular not the next declaration)
		stmts = append(stmts, "\x00LAST")
	}
	if g.o.Ignores {
		// statements that come with an @ignore of exactly one code (a reported call nested in a suppressed one, and the
		// other way round): half of them in every body that can see them
		for _, s := range extra {
			if !strings.HasPrefix(s, "¤") || strings.Contains(s, "\n") || !r.Bool() {
				continue
			}
			k := strings.Index(s[len("¤"):], "¤")
			code, st := s[len("¤"):len("¤")+k], s[2*len("¤")+k:]
			tag := g.nextTag()
			st = strings.ReplaceAll(st, "§", g.local(fmt.Sprint(g.tag)))
			if r.Bool() {
				stmts = append(stmts, "// @ignore "+code, st+" "+tag)
			} else {
				stmts = append(stmts, st+" "+tag+" // @ignore "+code)
			}
		}
	}
	// the marker of the trailing comment moves to the very end
	for k, st := range stmts {
		if st == "\x00LAST" {
			stmts = append(append(stmts[:k:k], stmts[k+1:]...), g.ignoreComment())
			break
		}
	}
	return stmts
}

var blockComment = regexp.MustCompile(`/\*[^*]*\*/`)

func indent(ls []string) string {
	var b strings.Builder
	for _, l := range ls {
		if l == "" {
			b.WriteString("\n")
			continue
		}
		b.WriteString("\t" + l + "\n")
	}
	return b.String()
}

// renderThin: a package of two one-function files. One names the declaring package; the other holds values of its
// types only through the relay and writes to them (the package imports the declaring package directly, so its
// annotations apply in both files, wherever the functions are put).
func (g *generator) renderThin(m *Module, p *gpkg) {
	d0, rl := p.imports[0], p.imports[1]
	dir := strings.TrimPrefix(p.path, "exp/")
	imp := func(im *gpkg) string {
		if p.alias[im] != im.name {
			return fmt.Sprintf("import %s %q\n", p.alias[im], im.path)
		}
		return fmt.Sprintf("import %q\n", im.path)
	}
	if len(rl.relay) == 0 {
		m.Files[dir+"/thin0.go"] = "package thin\n"
		return
	}
	t := rl.relay[0]
	for _, c := range rl.relay {
		if c.tmeth || c.pmeth { // prefer a type with annotated methods: calls on the relayed value are judged too
			t = c
			break
		}
	}
	a0, ar := p.alias[d0], p.alias[rl]
	q := g.local("q")
	b0 := "func Fresh() *" + a0 + "." + t.name + " { return nil } " + g.nextTag()
	stmts := []string{
		q + " := " + ar + ".Current" + t.name + "() " + g.nextTag(),
		q + ".X = 5 " + g.nextTag(),
		ar + ".Default" + t.name + ".Items[0] = 1 " + g.nextTag(),
		q + ".Cache++ " + g.nextTag(),
		"_ = " + q + ".X",
	}
	stmts = append(stmts,
		"_ = "+ar+".Rec"+t.name+"{X: 1} "+g.nextTag(),
		"_ = new("+ar+".Rec"+t.name+") "+g.nextTag(),
		"var "+g.local("rz")+" "+ar+".Rec"+t.name+" "+g.nextTag(),
		"_ = "+g.local("rz"),
		"_ = "+ar+".Batch"+t.name+"{{X: 2}} "+g.nextTag(),
	)
	if t.tmeth {
		stmts = append(stmts, q+".ResetForTest() "+g.nextTag(), ar+".Current"+t.name+"().ResetForTest() "+g.nextTag())
	}
	if t.pmeth {
		stmts = append(stmts, q+".Internal() "+g.nextTag(), "_ = "+ar+".Default"+t.name+".Internal "+g.nextTag())
	}
	b1 := "func ViaRelay() {\n" + indent(stmts) + "}"
	// a third file whose only uses of the type are element literals with the type elided
	m.Files[dir+"/thin_elided.go"] = "package thin\n\n" + imp(d0) + "\nvar Table = []" + a0 + "." + t.name + "{ " + g.nextTag() + "\n\t{X: 1}, " + g.nextTag() + "\n\t{X: 2}, " + g.nextTag() + "\n}\n\nvar ByName = map[string]*" + a0 + "." + t.name + "{\"a\": {X: 3}} " + g.nextTag() + "\n"
	// a file in which the local name that the other files bind to the declaring package is bound to the relay
	m.Files[dir+"/thin_same.go"] = "package thin\n\n" + fmt.Sprintf("import %s %q\n", a0, rl.path) + "\nfunc SameName() {\n" + indent([]string{
		a0 + ".Current" + t.name + "().X = 1 " + g.nextTag(), "_ = " + a0 + ".Rec" + t.name + "{} " + g.nextTag(), "_ = " + a0 + ".Default" + t.name + " " + g.nextTag()}) + "}\n"
	f0, f1 := 0, 1
	if g.o.Reassign {
		f0, f1 = g.lr.Intn(2), g.lr.Intn(2)
	}
	blocks := [2][]string{}
	if g.o.PermuteDecls && g.lr.Bool() {
		blocks[f1] = append(blocks[f1], b1)
		blocks[f0] = append(blocks[f0], b0)
	} else {
		blocks[f0] = append(blocks[f0], b0)
		blocks[f1] = append(blocks[f1], b1)
	}
	for fi, bs := range blocks {
		body := strings.Join(bs, "\n\n") + "\n"
		head := "package thin\n\n"
		if strings.Contains(body, a0+".") {
			head += imp(d0)
		}
		if strings.Contains(body, ar+".") {
			head += imp(rl)
		}
		if g.o.BlankLines {
			body = strings.ReplaceAll(body, "\n\t", "\n\n\t// spacer\n\t")
		}
		m.Files[fmt.Sprintf("%s/thin%d.go", dir, fi)] = head + "\n" + body
	}
}

func (g *generator) renderPkg(m *Module, p *gpkg, decls []*gpkg) {
	if p.thin {
		g.renderThin(m, p)
		return
	}
	r := g.r
	nFiles := 1 + r.Intn(3)
	var blocks []block
	add := func(text string) {
		blocks = append(blocks, block{text: text, file: g.fr.Intn(nFiles)})
	}
	// types visible from p: own + imported
	var visible []*gtype
	visible = append(visible, p.types...)
	for _, im := range p.imports {
		visible = append(visible, im.types...)
	}
	// aliases for spelling options 1/2
	if g.o.Spelling == 1 || g.o.Spelling == 2 {
		for _, t := range visible {
			direct := t.name
			if t.pkg != p {
				direct = p.alias[t.pkg] + "." + t.name
			}
			if g.o.Spelling == 2 {
				add("type AA" + aliasKey(t) + " = " + direct)
				add("type A" + aliasKey(t) + " = AA" + aliasKey(t))
			} else {
				add("type A" + aliasKey(t) + " = " + direct)
			}
		}
	}
	add("func pairOf() (int, int) { return 1, 2 }")
	add("var PairA, PairB = pairOf() " + g.nextTag())
	add("type Free struct {\n\tX     int\n\tItems []int\n\tAny   any\n}")
	add("// Emb is embedded by the generated struct types.\ntype Emb struct{ E int }")
	// methods whose receiver is an interface literal (not a named type)
	add("var Sink interface{ Emit(int) int }")
	add("type Holder struct {\n\tCloser interface{ Close() error }\n}")
	add("func useSink(h *Holder) {\n" + indent([]string{"_ = Sink.Emit(1) " + g.nextTag(), "_ = h.Closer.Close() " + g.nextTag()}) + "}")
	// every visible type is referenced at least once in every rendering (so that alias declarations of the
	// spelling variants do not introduce a first reference the base rendering lacks)
	for i, t := range visible {
		add("var _ *" + g.typeRef(p, t, 2*i+1) + " " + g.nextTag())
	}
	// declarations of own types, constructors, methods
	var grouped []string
	if len(p.types) > 0 {
		// an unannotated type; in a group it follows / precedes documented annotated specs without a doc of its own
		grouped = append(grouped, "\tPlain struct{ X int }")
	}
	for _, t := range p.types {
		if t.docStyle == 1 {
			td := g.typeDecl(t)[0]
			td = strings.TrimSuffix(strings.TrimPrefix(td, "type (\n"), "\n)")
			if r.Bool() {
				grouped = append(grouped, td)
			} else {
				grouped = append([]string{td}, grouped...)
			}
			continue
		}
		for _, td := range g.typeDecl(t) {
			add(td)
		}
	}
	// the group's own doc comment: none, prose, or an annotation (it speaks for the specs that have no doc of their own)
	groupDoc := []string{"", "// Grouped declarations of this package.\n", "// Shared by the undocumented specs.\n// @immutable\n"}[g.xr.Intn(3)]
	if g.o.NoAnnotations && strings.Contains(groupDoc, "@") {
		groupDoc = "// Grouped declarations.\n"
	}
	if len(grouped) > 0 {
		add(groupDoc + "type (\n" + strings.Join(grouped, "\n") + "\n)")
	}
	if len(p.types) > 0 {
		add("func UsePlain(pl *Plain) {\n" + indent([]string{"pl.X = 1 " + g.nextTag(), "pl.X++ " + g.nextTag(), "_ = Plain{} " + g.nextTag(), "_ = new(Plain) " + g.nextTag(), "var zp Plain " + g.nextTag(), "_ = zp"}) + "}")
		if len(p.funcs) > 0 {
			// an unannotated method that merely shares its name with a (possibly @testonly) function of the package
			f0 := p.funcs[0]
			var vars []scopeVar
			for _, t := range p.types {
				vars = append(vars, scopeVar{"r", t, true})
				break
			}
			add("func (pl *Plain) " + f0.name + "(r *" + p.types[0].name + ") {\n" + indent(g.body(p, vars, []string{"_ = " + f0.name + "()"}, 3)) + "}")
		}
	}
	for _, t := range p.types {
		for _, cn := range t.ctors {
			var b []string
			if t.kind == 0 {
				b = []string{"var helper = func() int { return 1 }", "_ = helper", "p := &" + t.name + "{X: 1} " + g.nextTag(), "p.X = 2 " + g.nextTag(), "p.Items = append(p.Items, 1) " + g.nextTag(), "var z " + t.name + " " + g.nextTag(), "_ = z",
					// function literals inside the constructor are part of it
					"func() { p.X = 3 " + g.nextTag() + " }()", "defer func() { var y " + t.name + " " + g.nextTag() + "; y.X++ " + g.nextTag() + " }()",
					"init := func() *" + t.name + " { return new(" + t.name + ") " + g.nextTag() + " }", "_ = init", "go func() { _ = []" + t.name + "{{X: 1}} " + g.nextTag() + " }()",
					"return p"}
			} else {
				b = []string{"p := new(" + t.name + ") " + g.nextTag(), "func() { var y " + t.name + " " + g.nextTag() + "; _ = y }()", "return p"}
			}
			// a constructor of t is not a constructor of its neighbours: writes to / instances of another type of the
			// package inside it are judged for that type (before or after the function's own writes)
			for _, t2 := range p.types {
				if t2 != t && t2.kind == 0 && t.kind == 0 && g.xr.Chance(1, 2) {
					o := []string{"o := &" + t2.name + "{} " + g.nextTag(), "o.X = 4 " + g.nextTag(), "o.Items[0] = 1 " + g.nextTag(), "o.Cache = 2 " + g.nextTag()}
					if g.xr.Bool() {
						b = append(o, b...)
					} else {
						b = append(append(append([]string{}, b[:len(b)-1]...), o...), b[len(b)-1])
					}
					break
				}
			}
			add("func " + cn + "() *" + t.name + " {\n" + indent(b) + "}")
		}
		// a method writing through the receiver (inside the declaring package, outside constructors)
		recv := "r"
		if r.Chance(1, 3) {
			recv = "self"
		}
		if t.kind == 0 {
			b := []string{recv + ".X = 9 " + g.nextTag(), "*" + recv + " = " + t.name + "{} " + g.nextTag(), "_ = " + recv + ".X"}
			add("func (" + recv + " *" + t.name + ") Mutate() {\n" + indent(g.wrap(b)) + "}")
			add("func (" + recv + " " + t.name + ") Get() int {\n" + indent([]string{recv + ".X = 3 " + g.nextTag(), "return " + recv + ".X"}) + "}")
		} else {
			b := []string{"*" + recv + "++ " + g.nextTag(), "(*" + recv + ")-- " + g.nextTag(), "*" + recv + " = 5 " + g.nextTag()}
			add("func (" + recv + " *" + t.name + ") Inc() {\n" + indent(b) + "}")
		}
		// a second method on the same receiver type whose receiver has another name (what is known about a
		// receiver belongs to the method, not to the type)
		recv2 := "m"
		if recv == "m" {
			recv2 = "r"
		}
		if t.kind == 0 {
			add("func (" + recv2 + " *" + t.name + ") Bump() {\n" + indent([]string{"*" + recv2 + " = " + t.name + "{} " + g.nextTag(), recv2 + ".X = 8 " + g.nextTag(), recv2 + ".X++ " + g.nextTag()}) + "}")
			add("func (_ *" + t.name + ") Anon(" + recv + " *Free) {\n" + indent([]string{"*" + recv + " = Free{} " + g.nextTag(), recv + ".X = 1 " + g.nextTag()}) + "}")
		} else {
			add("func (" + recv2 + " *" + t.name + ") Dec() {\n" + indent([]string{"*" + recv2 + "-- " + g.nextTag(), "*" + recv2 + " = 6 " + g.nextTag(), "*" + recv2 + " += 1 " + g.nextTag()}) + "}")
		}
		// variables that shadow the receiver's name (a literal's parameter, a local of an inner block) are not the receiver
		if t.kind == 0 {
			add("func (" + recv + " *" + t.name + ") Shadow(q *Free) {\n" + indent([]string{
				"f := func(" + recv + " *Free) {", "\t*" + recv + " = Free{} " + g.nextTag(), "\t" + recv + ".X = 1 " + g.nextTag(), "}", "f(q)",
				"{", "\t" + recv + " := &Free{}", "\t*" + recv + " = Free{} " + g.nextTag(), "}",
				"*" + recv + " = " + t.name + "{} " + g.nextTag(), recv + ".X = 3 " + g.nextTag()}) + "}")
		} else {
			add("func (" + recv + " *" + t.name + ") Shadow(q *int) {\n" + indent([]string{
				"func(" + recv + " *int) {", "\t*" + recv + "++ " + g.nextTag(), "\t*" + recv + " = 2 " + g.nextTag(), "}(q)",
				"*" + recv + "++ " + g.nextTag()}) + "}")
		}
		if t.kind == 0 {
			add("type recvAlias" + t.name + " = " + t.name)
			add("func (" + recv + " *recvAlias" + t.name + ") ViaAliasRecv() {\n" + indent([]string{"*" + recv + " = " + t.name + "{} " + g.nextTag(), recv + ".X = 2 " + g.nextTag()}) + "}")
			add("func (" + recv + " *(" + t.name + ")) ViaParenRecv() {\n" + indent([]string{"*" + recv + " = " + t.name + "{} " + g.nextTag(), recv + ".X++ " + g.nextTag()}) + "}")
			add("// ViaParenStar has its whole receiver type in parentheses.\nfunc (" + recv + " (*" + t.name + ")) ViaParenStar() {\n" + indent([]string{"*" + recv + " = " + t.name + "{} " + g.nextTag(), recv + ".X-- " + g.nextTag()}) + "}")
			// annotated methods declared through an alias of the receiver type
			if g.o.NoAnnotations {
				add("// for tests\nfunc (" + recv + " *recvAlias" + t.name + ") AliasRecvForTest() {}")
				add("// internal\nfunc (" + recv + " recvAlias" + t.name + ") AliasRecvInternal() {}")
			} else {
				add("// @testonly\nfunc (" + recv + " *recvAlias" + t.name + ") AliasRecvForTest() {}")
				add("// @packageonly\nfunc (" + recv + " recvAlias" + t.name + ") AliasRecvInternal() {}")
			}
		} else {
			add("func (" + recv + " *(" + t.name + ")) ViaParenRecv() {\n" + indent([]string{"*" + recv + "++ " + g.nextTag(), "*" + recv + " = 7 " + g.nextTag()}) + "}")
		}
		if t.tmeth {
			add("// @testonly\nfunc (" + recv + " *" + t.name + ") ResetForTest() {}")
		}
		if t.pmeth {
			add("// @packageonly" + allowText(t.pmethAllow) + "\nfunc (" + recv + " *" + t.name + ") Internal() {}")
		}
	}
	for _, f := range p.funcs {
		doc := ""
		if f.testonly {
			doc += "// @testonly\n"
		}
		if f.hasPkgOnly {
			doc += "// @packageonly" + allowText(f.pkgonly) + "\n"
		}
		if f.ret != nil {
			add(doc + "func " + f.name + "() *" + f.ret.name + " { return nil }")
		} else {
			add(doc + "func " + f.name + "() int { return 1 }")
		}
	}
	if p.hidden {
		// constructor-only types that are not structs: every composite literal of them is an instantiation too
		add("// Tags is a constructor-only map type.\n// @constructor NewTags\ntype Tags map[string]int\n\nfunc NewTags() Tags { return Tags{\"a\": 1} " + g.nextTag() + " }")
		add("// Pair is a constructor-only array type, IDs a constructor-only slice type.\n// @constructor NewPair\ntype Pair [2]int\n\n// @constructor NewIDs\ntype IDs []int\n\nfunc NewPair() *Pair { return &Pair{1, 2} " + g.nextTag() + " }\n\nfunc NewIDs() IDs { return IDs{1} " + g.nextTag() + " }")
		add("func touchTags() {\n" + indent([]string{"_ = Tags{} " + g.nextTag(), "_ = []Pair{{1, 2}} " + g.nextTag(), "_ = &IDs{3} " + g.nextTag(), "var zt Tags " + g.nextTag(), "_ = zt", "_ = new(Pair) " + g.nextTag()}) + "}")
		add("// hidden is unexported, its values are not.\n// @immutable\n// @constructor newHidden\ntype hidden struct {\n\tX     int\n\tItems []int\n}")
		add("func newHidden() *hidden { return &hidden{X: 1} " + g.nextTag() + " }")
		add("var Default = newHidden()")
		add("func Current() *hidden { return Default }")
		add("func touchHidden() {\n" + indent([]string{"Default.X = 2 " + g.nextTag(), "_ = hidden{} " + g.nextTag()}) + "}")
		add("// HiddenRec makes the unexported type nameable from outside.\ntype HiddenRec = hidden")
		add("type HiddenList = []hidden")
		add("// @packageonly\nfunc (h *hidden) Run() {}")
		add("// @testonly\nfunc (h *hidden) Probe() {}")
	}
	for _, t := range p.relay {
		ref := p.alias[t.pkg] + "." + t.name
		add("func Current" + t.name + "() *" + ref + " { return nil } " + g.nextTag())
		add("var Default" + t.name + " = Current" + t.name + "() " + g.nextTag())
		// re-exported under another name: users can instantiate the type without importing its package
		add("type Rec" + t.name + " = " + ref + " " + g.nextTag())
		add("type Batch" + t.name + " = []" + ref + " " + g.nextTag())
	}
	// a parameter / local named like an imported package's qualifier shadows the package inside the function
	for k, im := range p.imports {
		if im.thin || len(im.types) == 0 || im.types[0].kind != 0 || p.alias[im] == "" {
			continue
		}
		a, t := p.alias[im], im.types[0]
		b := []string{a + ".X = 1 " + g.nextTag(), a + ".Mutate() " + g.nextTag(), "_ = " + a + ".Get() " + g.nextTag()}
		if t.tmeth {
			b = append(b, a+".ResetForTest() "+g.nextTag())
		}
		if t.pmeth {
			b = append(b, a+".Internal() "+g.nextTag())
		}
		add(fmt.Sprintf("func ShadowQualifier%d(%s *%s.%s) {\n", k, a, a, t.name) + indent(b) + "}")
		if len(im.funcs) > 0 {
			// an unannotated local method that shares its name with a function of the shadowed package
			f := im.funcs[0]
			add(fmt.Sprintf("type shadowS%d struct{}\n\nfunc (shadowS%d) %s() int { return 0 }", k, k, f.name))
			add(fmt.Sprintf("func UseShadowS%d() {\n", k) + indent([]string{"_ = " + a + "." + f.name + " " + g.nextTag(), a + " := shadowS" + fmt.Sprint(k) + "{}", "_ = " + a + "." + f.name + "() " + g.nextTag()}) + "}")
		}
		break
	}
	// extra statements: calls of annotated functions / methods visible from p
	extraFor := func() []string {
		var ex []string
		for _, f := range p.funcs {
			ex = append(ex, "_ = "+f.name+"()")
			if f.testonly && r.Chance(1, 2) {
				ex = append(ex, "{ "+f.name+" := func() int { return 2 }; _ = "+f.name+"() }") // shares the name only
			}
		}
		for _, im := range p.imports {
			for _, f := range im.funcs {
				ex = append(ex, "_ = "+p.alias[im]+"."+f.name+"()")
				ex = append(ex, "_ = "+p.alias[im]+"."+f.name)
			}
			if !im.thin {
				ex = append(ex, "_ = "+p.alias[im]+".Sink.Emit(2)", "_ = (&"+p.alias[im]+".Holder{}).Closer.Close()", "_ = "+p.alias[im]+".Sink.Emit")
			}
		}
		// values obtained from calls: chained writes and method calls (a reported expression inside another one)
		chain := func(call string, t *gtype) {
			ex = append(ex, call+".X = 1", call+".X++", call+".Items[0] = 2", call+".Cache = 3", "_ = "+call+".X",
				"q§ := "+call+"; q§.X = 4", call+".\n\tX = 5")
			if t.tmeth {
				ex = append(ex, call+".ResetForTest()", call+".\n\tResetForTest()", "¤TONL03¤"+call+".ResetForTest()", "¤TONL02¤"+call+".ResetForTest()")
			}
			if t.pmeth {
				ex = append(ex, call+".Internal()", "_ = "+call+".Internal", call+".\n\tInternal()", "¤PKGO03¤"+call+".Internal()", "¤PKGO02¤"+call+".Internal()")
			}
			ex = append(ex, call+".Mutate()", call+".AliasRecvForTest()", call+".AliasRecvInternal()", call+".ViaParenStar()")
		}
		for _, f := range p.funcs {
			if f.ret != nil {
				chain(f.name+"()", f.ret)
			}
		}
		for _, im := range p.imports {
			for _, f := range im.funcs {
				if f.ret != nil {
					chain(p.alias[im]+"."+f.name+"()", f.ret)
				}
			}
			for _, t := range im.relay {
				chain(p.alias[im]+".Current"+t.name+"()", t)
				chain(p.alias[im]+".Default"+t.name, t)
			}
			if im.hidden {
				a := p.alias[im]
				ex = append(ex, a+".Default.X = 2", a+".Current().X++", a+".Current().Items[0] = 3", a+".Default.Items = nil", "_ = "+a+".Default.X", "h§ := "+a+".Current(); h§.X -= 1",
					"_ = "+a+".Tags{\"k\": 2}", "_ = []"+a+".Pair{{3, 4}}", "_ = &"+a+".IDs{5}", "_ = map[string]"+a+".Pair{\"p\": {}}", "var zt§ "+a+".Tags; _ = zt§", "_ = new("+a+".IDs)",
					"_ = "+a+".HiddenRec{}", "_ = new("+a+".HiddenRec)", "var hr§ "+a+".HiddenRec; _ = hr§", "_ = "+a+".HiddenList{{X: 1}}", "_ = &"+a+".HiddenRec{X: 2}",
					a+".Current().Run()", a+".Default.Run()", "_ = "+a+".Default.Run", a+".Current().Probe()", a+".Default.Probe()")
			}
		}
		if p.hidden {
			ex = append(ex, "Default.X = 2", "Current().X++", "_ = new(hidden)")
		}
		return ex
	}
	// int-valued calls of annotated functions, for nesting inside literals and index expressions
	intCalls := func() []string {
		var l []string
		for _, f := range p.funcs {
			if f.ret == nil {
				l = append(l, f.name+"()")
			}
		}
		for _, im := range p.imports {
			for _, f := range im.funcs {
				if f.ret == nil {
					l = append(l, p.alias[im]+"."+f.name+"()")
				}
			}
		}
		return l
	}
	// annotated types of this package whose fields are declared elsewhere: a defined type over another package's
	// struct, and a struct that embeds one (promoted fields)
	for _, im := range p.imports {
		if len(im.types) == 0 || im.thin || len(im.relay) > 0 || g.o.NoAnnotations || len(p.relay) > 0 {
			continue // (the relay package stays free of annotated types of its own)
		}
		a := p.alias[im]
		add("// Frozen has the fields of " + a + ".Plain.\n// @immutable\ntype Frozen " + a + ".Plain")
		add("// Outer embeds a struct of another package.\n// @immutable\n// @constructor NewOuter\ntype Outer struct {\n\t" + a + ".Plain\n\tOwn int\n}")
		add("func NewOuter() *Outer {\n" + indent([]string{"o := &Outer{} " + g.nextTag(), "o.X = 1 " + g.nextTag(), "return o"}) + "}")
		fz, ou := g.local("fz"), g.local("ou")
		add("func UseFrozen(" + fz + " *Frozen, " + ou + " *Outer) {\n" + indent([]string{fz + ".X = 1 " + g.nextTag(), fz + ".X++ " + g.nextTag(), ou + ".X = 2 " + g.nextTag(), ou + ".Plain.X = 3 " + g.nextTag(),
			ou + ".Own += 4 " + g.nextTag(), "_ = Outer{} " + g.nextTag(), "_ = Frozen{} " + g.nextTag()}) + "}")
		break
	}
	// aliases of pointers to visible types: `var h Handle` declares a pointer, whatever it is called
	for i, t := range visible {
		if t.kind == 0 && i < 2 {
			direct := t.name
			if t.pkg != p {
				direct = p.alias[t.pkg] + "." + t.name
			}
			hn := "Handle" + aliasKey(t)
			add("type " + hn + " = *" + direct)
			hz := g.local("hz")
			add("func Use" + hn + "() {\n" + indent([]string{"var " + hz + " " + hn + " " + g.nextTag(), "_ = " + hz, "var " + hz + "2 *" + g.typeRef(p, t, -1) + " " + g.nextTag(), "_ = " + hz + "2",
				hz + " = new(" + g.typeRef(p, t, 12) + ") " + g.nextTag(), hz + ".X = 1 " + g.nextTag()}) + "}")
		}
	}
	// probes (C06): the same statements over a type in its declaring package and in every direct importer, labelled
	// /*@probe:<declaring path>.<type>:<k>*/ — outside constructors, outside @testonly functions, without @ignore
	probe := func(t *gtype) {
		lab := func(k int) string { return fmt.Sprintf("/*@probe:%s.%s:%d*/", t.pkg.path, t.name, k) }
		tr := g.typeRef(p, t, -1)
		var b []string
		if t.kind == 0 {
			b = []string{"v.X = 1 " + lab(0), "v.X++ " + lab(1), "v.Items[0] = 2 " + lab(2), "v.Cache = 3 " + lab(3), "v.Misses += 4 " + lab(4),
				"_ = " + tr + "{} " + lab(5), "_ = new(" + tr + ") " + lab(6), "var z " + tr + " " + lab(7), "_ = z", "_ = []*" + tr + "{{X: 1}} " + lab(8)}
			if t.tmeth {
				b = append(b, "v.ResetForTest() "+lab(9))
			}
		} else {
			b = []string{"_ = new(" + tr + ") " + lab(6), "var z " + tr + " " + lab(7), "_ = z"}
		}
		q := ""
		if t.pkg != p {
			q = p.alias[t.pkg] + "."
		}
		k := 20
		for _, f := range t.pkg.funcs {
			if f.ret == nil {
				b = append(b, "_ = "+q+f.name+"() "+lab(k))
			} else if f.ret == t {
				b = append(b, q+f.name+"().X = 5 "+lab(k))
			}
			k++
		}
		add("func Probe" + aliasKey(t) + "(v *" + g.typeRef(p, t, 0) + ") {\n" + indent(b) + "}")
	}
	for _, t := range visible {
		probe(t)
	}
	for _, im := range append([]*gpkg{p}, p.imports...) {
		if im.hidden {
			q := ""
			if im != p {
				q = p.alias[im] + "."
			}
			lab := func(k int) string { return fmt.Sprintf("/*@probe:%s.hidden:%d*/", im.path, k) }
			add("func ProbeHidden" + strings.NewReplacer("/", "_", ".", "_").Replace(strings.TrimPrefix(im.path, "exp/")) + "() {\n" + indent([]string{q + "Default.X = 1 " + lab(0), q + "Current().X++ " + lab(1), q + "Default.Items[0] = 2 " + lab(2), q + "Current().Items = nil " + lab(3)}) + "}")
		}
	}
	// user functions
	nFn := 2 + r.Intn(3)
	for i := 0; i < nFn; i++ {
		var vars []scopeVar
		var params []string
		var prologue []string
		for k := 0; k < 1+r.Intn(2) && len(visible) > 0; k++ {
			t := rng.Pick(r, visible)
			nm := g.local(fmt.Sprintf("v%d", k))
			if t.kind == 0 {
				params = append(params, nm+" *"+g.typeRef(p, t, k))
			} else {
				params = append(params, nm+" *"+g.typeRef(p, t, k))
			}
			vars = append(vars, scopeVar{nm, t, true})
		}
		// method calls on the variables
		ex := extraFor()
		for _, sv := range vars {
			if sv.t.tmeth {
				ex = append(ex, sv.name+".ResetForTest()")
			}
			if sv.t.pmeth {
				ex = append(ex, sv.name+".Internal()", "_ = "+sv.name+".Internal")
			}
			if sv.t.kind == 0 {
				ex = append(ex, "var z§ "+g.typeRef(p, sv.t, 9)+"; _ = z§", "var p§ *"+g.typeRef(p, sv.t, 10)+"; _ = p§", "var _ "+g.typeRef(p, sv.t, 11))
				tr := g.typeRef(p, sv.t, -1)
				// statements spanning several lines, each line with its own reported expression
				ex = append(ex, "_ = []*"+tr+"{\n\t{X: 1},\n\t{X: 2}}", "_ = map[string]"+tr+"{\"a\": {X: 1},\n\t\"b\": {}}",
					"func(a, b "+tr+") {}("+tr+"{X: 1},\n\t"+tr+"{X: 2})", sv.name+".X, "+sv.name+".Cache =\n\t1, 2")
				for _, c := range intCalls() {
					ex = append(ex, "_ = &"+tr+"{X: "+c+"}", "_ = []"+tr+"{{X: "+c+"}}", sv.name+".Items["+c+"] = "+c, sv.name+".X = "+c,
						"(&"+tr+"{X: "+c+"}).Mutate()", "_ = "+tr+"{X: 1,\n\tCache: "+c+"}")
				}
				if sv.t.pmeth {
					ex = append(ex, "(&"+tr+"{}).Internal()", "new("+g.typeRef(p, sv.t, 12)+").Internal()", "(*"+tr+").Internal("+sv.name+")", "_ = (*"+tr+").Internal")
				}
				if sv.t.tmeth {
					ex = append(ex, "(&"+tr+"{}).ResetForTest()", "(*"+tr+").ResetForTest("+sv.name+")", "_ = (*"+tr+").ResetForTest")
				}
				ex = append(ex, "(*"+tr+").Mutate("+sv.name+")", "_ = "+tr+".Get(*"+sv.name+")")
			}
		}
		if len(vars) > 0 && vars[0].t.kind == 0 {
			// statements over locally declared variables of the type; under spelling 5 the type is written through a
			// function-local alias that has the same name in every function, whatever it stands for there
			t0 := vars[0].t
			rec := g.typeRef(p, t0, -1)
			if g.o.Spelling == 5 {
				direct := t0.name
				if t0.pkg != p {
					direct = p.alias[t0.pkg] + "." + t0.name
				}
				prologue = append(prologue, "type Rec = "+direct)
				rec = "Rec"
			}
			ex = append(ex, "var ma§, mb§ = pairOf(); _, _ = ma§, mb§", "var mc§, md§ int = pairOf(); _, _ = mc§, md§")
			// grouped declarations: initialised and zero-valued specs in either order
			ex = append(ex, "var (\n\tgi§ = 1\n\tgz§ "+rec+"\n\tgp§ *"+rec+"\n); _, _, _ = gi§, gz§, gp§",
				"var (\n\tgz§ "+rec+"\n\tgi§ = "+rec+"{}\n\tgy§, gx§ "+rec+"\n); _, _, _, _ = gi§, gz§, gy§, gx§")
			ex = append(ex, "var l§ "+rec+"; l§.X = 1", "lp§ := new("+rec+"); lp§.X++", "_ = "+rec+"{X: 2}", "var la§ []"+rec+"; la§[0].Items[0] = 3", "lq§ := &"+rec+"{}; lq§.Cache = 1")
			// two locals of one name and different types in sibling scopes (the unannotated type first or second)
			sh := g.local("sh")
			ex = append(ex, "{ "+sh+" := &Free{}; "+sh+".X = 1 }", "{ "+sh+" := new("+rec+"); "+sh+".X = 2 }", "for _, "+sh+" := range []*Free{nil} { "+sh+".X = 3 }",
				"for _, "+sh+" := range []*"+rec+"{nil} { "+sh+".X = 4 }", "{ "+sh+" := &Free{}; "+sh+".Items[0] = 5 }", "{ var "+sh+" "+rec+"; "+sh+".X++ }")
			// methods and fields promoted through embedding (the receiver in the method's signature is still the annotated type)
			ex = append(ex, "var w§ struct{ "+rec+" }; w§.X = 1", "var pw§ struct{ *"+rec+" }; pw§.Items[0] = 2", "var w§ struct{ "+rec+" }; w§.Mutate()")
			if t0.pmeth {
				ex = append(ex, "var w§ struct{ *"+rec+" }; w§.Internal()", "var w§ struct{ "+rec+" }; _ = w§.Internal", "type W§ struct{ "+rec+" }; _ = (*W§).Internal")
			}
			if t0.tmeth {
				ex = append(ex, "var w§ struct{ *"+rec+" }; w§.ResetForTest()", "var w§ struct{ "+rec+" }; w§.ResetForTest()")
			}
		}
		name := fmt.Sprintf("Use%d", i)
		switch {
		case i == 0 && len(p.types) > 0 && len(p.types[0].ctors) > 0 && r.Chance(1, 2):
			// a function that merely shares a constructor's name prefix
			name = p.types[0].ctors[0] + "Helper"
		case i == 1 && p.types == nil && len(visible) > 0 && len(visible[0].ctors) > 0 && r.Chance(1, 2):
			// a function in an importing package named like a foreign constructor
			name = visible[0].ctors[0]
		}
		b := append(prologue, g.body(p, vars, ex, 3+r.Intn(5))...)
		fdoc := ""
		if g.o.Ignores && r.Chance(1, 8) {
			fdoc = g.ignoreComment() + "\n"
		}
		sigTrail := ""
		if g.o.Ignores && r.Chance(1, 8) {
			// an @ignore trailing the signature line: its scope is that line only
			sigTrail = " " + g.nextTag() + " // @ignore " + rng.Pick(r, []string{"TONL", "ALL", "PKGO", "IMM", "TONL01", "PKGO01", "CTOR"})
		}
		add(fdoc + "func " + name + "(" + strings.Join(params, ", ") + ") {" + sigTrail + "\n" + indent(b) + "}")
	}
	// functions working on a locally declared variable of one type each; under spelling 5 every one of them writes
	// its type through a function-local alias of the same name `Rec` (an unannotated type among them, first or last)
	{
		type recT struct {
			spell string
			t     *gtype
		}
		var rs []recT
		for _, t := range visible {
			if t.kind == 0 && len(rs) < 2 {
				direct := t.name
				if t.pkg != p {
					direct = p.alias[t.pkg] + "." + t.name
				}
				if g.o.Spelling != 5 {
					direct = g.typeRef(p, t, -1)
				}
				rs = append(rs, recT{direct, t})
			}
		}
		free := recT{"Free", nil}
		if g.xr.Bool() {
			rs = append([]recT{free}, rs...)
		} else {
			rs = append(rs, free)
		}
		for k, rt := range rs {
			ty := rt.spell
			var b []string
			if g.o.Spelling == 5 {
				b = append(b, "type Rec = "+rt.spell)
				ty = "Rec"
			}
			rv := g.local("rv")
			b = append(b, "var "+rv+" "+ty+" "+g.nextTag(), rv+".X = 1 "+g.nextTag(), rv+".Items[0] = 2 "+g.nextTag(), rv+".X++ "+g.nextTag(),
				g.local("rp")+" := &"+ty+"{} "+g.nextTag(), g.local("rp")+".X += 3 "+g.nextTag())
			add(fmt.Sprintf("func RecUser%d() {\n", k) + indent(b) + "}")
		}
	}
	// sibling scopes declaring a local of one name with different types; under RenameLocals every declaration gets a
	// name of its own (a consistent renaming of each variable)
	for _, t := range visible {
		if t.kind != 0 {
			continue
		}
		tr := g.typeRef(p, t, -1)
		nm := func(k int) string {
			if g.o.RenameLocals {
				return fmt.Sprintf("sib%dR", k)
			}
			return "sib"
		}
		blocks := [][]string{
			{"{", "\t" + nm(0) + " := &Free{}", "\t" + nm(0) + ".X = 1 " + g.nextTag(), "\t" + nm(0) + ".Items[0] = 2 " + g.nextTag(), "}"},
			{"{", "\t" + nm(1) + " := new(" + tr + ") " + g.nextTag(), "\t" + nm(1) + ".X = 3 " + g.nextTag(), "\t" + nm(1) + ".Items[0] = 4 " + g.nextTag(), "}"},
			{"for _, " + nm(2) + " := range []*Free{nil} {", "\t" + nm(2) + ".X++ " + g.nextTag(), "}"},
			{"for _, " + nm(3) + " := range []*" + tr + "{nil} {", "\t" + nm(3) + ".X++ " + g.nextTag(), "}"},
		}
		if g.xr.Bool() {
			blocks[0], blocks[1] = blocks[1], blocks[0]
		}
		if g.xr.Bool() {
			blocks[2], blocks[3] = blocks[3], blocks[2]
		}
		var b []string
		for _, bl := range blocks {
			b = append(b, bl...)
		}
		add("func Siblings() {\n" + indent(b) + "}")
		break
	}
	// a @testonly helper function whose body uses @testonly items (must stay silent)
	if len(visible) > 0 && r.Chance(1, 2) && !g.o.NoAnnotations {
		t := rng.Pick(r, visible)
		vars := []scopeVar{{"v", t, true}}
		add("// @testonly\nfunc OnlyInTests(v *" + g.typeRef(p, t, 0) + ") {\n" + indent(g.body(p, vars, extraFor(), 3)) + "}")
	}
	// package-level initialisers (before / after constructors by layout)
	for k := 0; k < 1+r.Intn(2) && len(visible) > 0; k++ {
		t := rng.Pick(r, visible)
		if t.kind != 0 {
			continue
		}
		vn := fmt.Sprintf("G%d", k)
		b := []string{"q := &" + g.typeRef(p, t, -1) + "{} " + g.nextTag(), "q.X = 2 " + g.nextTag(), "var w " + g.typeRef(p, t, 1) + " " + g.nextTag(), "_ = w", "return q.X"}
		trail := ""
		if g.o.Ignores && r.Chance(1, 4) {
			trail = " " + g.ignoreComment()
		}
		add("var " + vn + " = func() int {\n" + indent(b) + "}()" + trail)
		if r.Chance(1, 2) {
			add("var Z" + vn + " " + g.typeRef(p, t, 2) + " " + g.nextTag() + trail)
		}
		add("var (\n\tinit" + vn + " = 1 " + g.nextTag() + "\n\tZg" + vn + " " + g.typeRef(p, t, 3) + " " + g.nextTag() + "\n\tlit" + vn + " = " + g.typeRef(p, t, -1) + "{} " + g.nextTag() + "\n\tZh" + vn + ", Zi" + vn + " " + g.typeRef(p, t, 4) + " " + g.nextTag() + "\n)")
	}

	if g.o.NearMiss {
		// near-miss annotations at non-effective sites: trailing comment of a type without doc, mid-sentence
		// doc lines with their own slashes, annotation on a local type, on a var, floating
		add("type Gauge struct{ X int } // @immutable in spirit only")
		add("// NOTE: the old line read: // @testonly (removed)\n// was: // @packageonly nobody\nfunc Legacy() int { return 1 }")
		add("// @immutable\n// @constructor NewNothing\nvar NotAType = 1")
		add("// @testonly\n\nfunc DetachedDoc() int { return 2 }")
		for k, nd := range nearMissDocs {
			add(fmt.Sprintf("%s\ntype NearDoc%d struct{ X int }\n\n%s\nfunc NearFn%d() int { return %d }", nd, k, nd, k, k))
		}
		{
			var b []string
			for k := range nearMissDocs {
				b = append(b, fmt.Sprintf("var near%dv NearDoc%d %s", k, k, g.nextTag()), fmt.Sprintf("near%dv.X = NearFn%d() %s", k, k, g.nextTag()), fmt.Sprintf("_ = NearDoc%d{} %s", k, g.nextTag()))
			}
			add("func UseNearDocs() {\n" + indent(b) + "}")
		}
		// keyword lines inside a documented function: in the body, in the signature, after the body
		add("// BodyNote is documented; the lines inside it are ordinary comments.\nfunc BodyNote() int {\n\t// @testonly\n\tx := 1\n\t// @packageonly nobody\n\treturn x\n}\n// @testonly")
		add("// Note is a documented method.\nfunc (pl *Free) Note() {\n\t// @testonly\n\t// @packageonly nobody\n}")
		add("// SigNote is documented.\nfunc SigNote( // @testonly\n\ta int, // @packageonly nobody\n) int { // @testonly\n\treturn a\n}")
		add("// Gauge is a method that shares its name with a type; its doc carries type-level keywords.\n// @immutable\n// @constructor NewNothing\nfunc (pl *Free) Gauge() Gauge { return Gauge{} }")
		add("// FieldDocs, a function named like a type.\n// @immutable\n// @constructor NewFieldDocs\nfunc (pl Free) FieldDocs() {}")
		add("func UseBodyNote(f *Free) {\n" + indent([]string{"_ = BodyNote() " + g.nextTag(), "f.Note() " + g.nextTag(), "_ = SigNote(1) " + g.nextTag()}) + "}")
		add("/*\nBlockDoc is documented in a block comment.\n@immutable\n@constructor NewBlockDoc\n*/\ntype BlockDoc struct{ X int }")
		add("/*\n@testonly\n@packageonly nobody\n*/\nfunc BlockFn() int { return 3 }")
		add("/* @immutable */\n/* @testonly */\ntype BlockDoc2 struct{ X int }")
		add("// FieldDocs is documented, its fields carry lines that would be annotations on a type.\ntype FieldDocs struct {\n\t// @immutable\n\t// @constructor NewFieldDocs\n\tX int\n\t// @testonly\n\t// @packageonly nobody\n\tY int\n}")
		add("func UseFieldDocs(fd *FieldDocs) {\n" + indent([]string{"fd.X = 1 " + g.nextTag(), "fd.Y++ " + g.nextTag(), "_ = FieldDocs{} " + g.nextTag(), "_ = new(FieldDocs) " + g.nextTag()}) + "}")
		add("func UseBlockDoc(bd *BlockDoc, b2 *BlockDoc2) {\n" + indent([]string{"bd.X = 1 " + g.nextTag(), "_ = BlockDoc{} " + g.nextTag(), "_ = BlockFn() " + g.nextTag(), "b2.X++ " + g.nextTag(), "_ = BlockDoc2{} " + g.nextTag()}) + "}")
		add("func UseGauge(gg *Gauge) {\n" + indent([]string{"gg.X = 1 " + g.nextTag(), "_ = Gauge{} " + g.nextTag(), "_ = Legacy() " + g.nextTag(), "_ = DetachedDoc() " + g.nextTag(),
			"// @immutable", "type localT struct{ Y int }", "var lt localT " + g.nextTag(), "lt.Y = 2 " + g.nextTag(), "_ = lt"}) + "}")
	}
	if g.o.Ignores && r.Chance(1, 5) && len(visible) > 0 {
		// generated code: a //line directive followed by trailing @ignore comments
		t := rng.Pick(r, visible)
		vars := []scopeVar{{"v", t, true}}
		add("//line gen.y:1000\nfunc FromGenerator(v *" + g.typeRef(p, t, 0) + ") {\n" + indent(g.body(p, vars, nil, 4)) + "}")
		// … and one naming an existing file of the package, without a column (positions then have column 0)
		add("//line f0.go:3\nfunc FromTemplate(v *" + g.typeRef(p, t, 0) + ") {\n" + indent(g.body(p, vars, nil, 3)) + "}")
	}
	if g.o.TestFiles {
		add("func UseExcl() int { return ExclHelper() " + g.nextTag() + " }")
		add("func UseExclType() { var e ExclMock " + g.nextTag() + "; e.Touch() " + g.nextTag() + " }")
	}

	// ---- layout: assign blocks to files, permute
	files := make([][]string, nFiles)
	order := make([]int, len(blocks))
	for i := range order {
		order[i] = i
	}
	if g.o.PermuteDecls {
		for i := len(order) - 1; i > 0; i-- {
			j := g.lr.Intn(i + 1)
			order[i], order[j] = order[j], order[i]
		}
	}
	for _, bi := range order {
		b := blocks[bi]
		f := b.file
		if g.o.Reassign {
			f = g.lr.Intn(nFiles)
		}
		files[f] = append(files[f], b.text)
	}
	var imports []string
	for _, im := range p.imports {
		if p.alias[im] != im.name {
			imports = append(imports, fmt.Sprintf("\t%s %q", p.alias[im], im.path))
		} else {
			imports = append(imports, fmt.Sprintf("\t%q", im.path))
		}
	}
	sort.Strings(imports)
	dir := strings.TrimPrefix(p.path, "exp/")
	_ = decls
	unsafeFirst := g.xr.Chance(1, 3) // drawn once per package, whatever the files turn out to import
	rawImports := g.xr.Chance(1, 4)  // import paths written as raw string literals (legal; gofmt rewrites them)
	for fi, decls := range files {
		var sb strings.Builder
		if g.o.Ignores && r.Chance(1, 12) {
			sb.WriteString("// @ignore " + rng.Pick(r, []string{"IMM03", "CTOR02", "TONL", "PKGO02", "TONL01", "PKGO01", "IMM01", "CTOR01", "TONL03"}) + "\n")
			if g.o.BlankLines && g.lr.Chance(2, 3) {
				// a header comment: a blank line (and the real package comment) between it and the package clause
				sb.WriteString("\n")
				if g.lr.Bool() {
					sb.WriteString("// Package " + p.name + " is generated.\n")
				}
			}
		}
		sb.WriteString("package " + p.name + "\n\n")
		body := strings.Join(decls, "\n\n") + "\n"
		if len(imports) > 0 {
			// only import what the file uses
			var used []string
			code := blockComment.ReplaceAllString(body, "")
			for _, im := range p.imports {
				if strings.Contains(code, p.alias[im]+".") {
					for _, line := range imports {
						if strings.Contains(line, "\""+im.path+"\"") {
							used = append(used, line)
						}
					}
				}
			}
			if len(used) > 0 {
				if fi == 0 && unsafeFirst {
					// an import that carries no facts, listed ahead of the annotated packages
					used = append([]string{"\t_ \"unsafe\""}, used...)
				}
				if g.o.Ignores && r.Chance(1, 6) {
					// inside the import block: it covers that line, not the declaration that follows the imports
					used = append([]string{}, used...)
					used[len(used)-1] += " // @ignore IMM01, IMM03, CTOR01, TONL02"
				}
				if rawImports {
					for k := range used {
						used[k] = strings.ReplaceAll(used[k], "\"", "`")
					}
				}
				sb.WriteString("import (\n" + strings.Join(used, "\n") + "\n)\n\n")
			}
		}
		if g.o.BlankLines {
			body = strings.ReplaceAll(body, "\n\n", "\n\n\n// spacer comment\n\n")
		}
		sb.WriteString(body)
		m.Files[fmt.Sprintf("%s/f%d.go", dir, fi)] = sb.String()
	}

	if len(visible) > 0 && !g.o.NoAnnotations {
		// not a test file: the name only contains _test_
		t := visible[0]
		impl := ""
		if t.pkg != p && g.o.Spelling != 1 && g.o.Spelling != 2 {
			impl = fmt.Sprintf("import %q\n\n", t.pkg.path)
			if p.alias[t.pkg] != t.pkg.name {
				impl = fmt.Sprintf("import %s %q\n\n", p.alias[t.pkg], t.pkg.path)
			}
		}
		ref := g.typeRef(p, t, -1)
		b := []string{"var d " + ref + " " + g.nextTag(), "_ = d", "_ = new(" + ref + ") " + g.nextTag()}
		if t.kind == 0 {
			b = append(b, "e := &"+ref+"{} "+g.nextTag(), "e.X = 1 "+g.nextTag())
			if t.tmeth {
				b = append(b, "e.ResetForTest() "+g.nextTag())
			}
		}
		m.Files[dir+"/lib_test_data.go"] = "package " + p.name + "\n\n" + impl + "func TestDataHelper() {\n" + indent(b) + "}\n"
	}
	if g.o.Ignores && len(visible) > 0 {
		// the last declaration of the package's last file carries two stacked @ignore comments
		t := visible[0]
		if t.kind == 0 {
			impl := ""
			if t.pkg != p && g.o.Spelling != 1 && g.o.Spelling != 2 {
				impl = fmt.Sprintf("import %q\n\n", t.pkg.path)
				if p.alias[t.pkg] != t.pkg.name {
					impl = fmt.Sprintf("import %s %q\n\n", p.alias[t.pkg], t.pkg.path)
				}
			}
			ref := g.typeRef(p, t, -1)
			pair := [][2]string{{"IMM01", "CTOR01"}, {"CTOR", "IMM"}, {"TONL01", "IMM01"}, {"IMM03", "IMM01"}}[g.xr.Intn(4)]
			b := []string{"v.X = 1 " + g.nextTag(), "_ = " + ref + "{} " + g.nextTag(), "v.X++ " + g.nextTag(), "v.Items[0] = 2 " + g.nextTag()}
			m.Files[dir+"/zzz_stack.go"] = "package " + p.name + "\n\n" + impl + "func BeforeStack(v *" + ref + ") {\n" + indent([]string{"v.X = 9 " + g.nextTag()}) + "}\n\n// @ignore " + pair[0] + "\n// @ignore " + pair[1] + "\nfunc StackedLast(v *" + ref + ") {\n" + indent(b) + "}\n"
		}
	}

	// ---- a file whose FIRST use of a foreign type sits in an @ignore scope, followed by an unsuppressed use
	// (once-per-file codes must move to the next unsuppressed use)
	if g.o.Ignores && len(p.imports) > 0 && len(p.imports[0].types) > 0 {
		im := p.imports[0]
		t := im.types[r.Intn(len(im.types))]
		ref := g.typeRef(p, t, -1)
		imp := fmt.Sprintf("import %q\n", im.path)
		if p.alias[im] != im.name {
			imp = fmt.Sprintf("import %s %q\n", p.alias[im], im.path)
		}
		if g.o.Spelling == 1 || g.o.Spelling == 2 {
			imp = "" // the alias lives in the regular files
		}
		code := rng.Pick(r, []string{"PKGO01", "TONL01", "PKGO01, TONL01", "PKGO", "TONL", "ALL", "IMM01"})
		var b []string
		switch r.Intn(3) {
		case 0:
			b = []string{"var a *" + ref + " " + g.nextTag() + " // @ignore " + code, "_ = a", "var b *" + ref + " " + g.nextTag(), "_ = b"}
		case 1:
			b = []string{"// @ignore " + code, "var a *" + ref + " " + g.nextTag(), "_ = a", "var b *" + ref + " " + g.nextTag(), "_ = b"}
		default:
			b = []string{"var a *" + ref + " " + g.nextTag(), "_ = a", "var b *" + ref + " " + g.nextTag() + " // @ignore " + code, "_ = b"}
		}
		m.Files[dir+"/ign_first.go"] = "package " + p.name + "\n\n" + imp + "\nfunc IgnoredFirstUse() {\n" + indent(b) + "}\n"
	}

	// ---- test / excluded files (pinned)
	if g.o.TestFiles && len(visible) > 0 {
		t := rng.Pick(r, visible)
		vars := []scopeVar{{"v", t, true}}
		tb := "package " + p.name + "\n\n"
		body := "func helperInTest(v *" + g.typeRef(p, t, 0) + ") {\n" + indent(g.body(p, vars, nil, 4)) + "}\n"
		imp := ""
		for _, im := range p.imports {
			if strings.Contains(blockComment.ReplaceAllString(body, ""), p.alias[im]+".") {
				if p.alias[im] != im.name {
					imp += fmt.Sprintf("import %s %q\n", p.alias[im], im.path)
				} else {
					imp += fmt.Sprintf("import %q\n", im.path)
				}
			}
		}
		if g.o.Spelling == 1 || g.o.Spelling == 2 {
			// aliases live in the regular files
		}
		{
			// package-level declarations in the test file that use annotated items
			var pl []string
			for _, c := range extraFor() {
				if strings.HasPrefix(c, "_ = ") && !strings.Contains(c, "\n") && !strings.Contains(c, "§") && !strings.Contains(c, ";") {
					pl = append(pl, "var _ = "+strings.TrimPrefix(c, "_ = ")+" "+g.nextTag())
				}
				if len(pl) >= 3 {
					break
				}
			}
			if t.kind == 0 {
				pl = append(pl, "var sharedInTest = []"+g.typeRef(p, t, -1)+"{{X: 1}} "+g.nextTag(), "var fixtureInTest "+g.typeRef(p, t, -1)+" "+g.nextTag())
			}
			body += "\n" + strings.Join(pl, "\n") + "\n"
			for _, im := range p.imports {
				if strings.Contains(blockComment.ReplaceAllString(body, ""), p.alias[im]+".") && !strings.Contains(imp, "\""+im.path+"\"") {
					if p.alias[im] != im.name {
						imp += fmt.Sprintf("import %s %q\n", p.alias[im], im.path)
					} else {
						imp += fmt.Sprintf("import %q\n", im.path)
					}
				}
			}
		}
		m.Files[dir+"/in_test.go"] = tb + imp + "\n" + body
		ex := "package " + p.name + "\n\n" + imp + "\n" + strings.NewReplacer("helperInTest", "helperInGenTestdata", "sharedInTest", "sharedInGen", "fixtureInTest", "fixtureInGen").Replace(body)
		if r.Chance(1, 2) {
			// annotations and @ignore inside an excluded file must be inert
			ex += "\n// @immutable\n// @testonly\ntype ExcludedOnly struct{ Y int }\n\nfunc touchExcluded(e *ExcludedOnly) { e.Y = 1 }\n"
		}
		m.Files[dir+"/gen_testdata_x.go"] = ex
	}
	if g.o.TestFiles && len(visible) > 0 {
		// generated code: a //line directive above the package clause names a file below an excluded path, which is
		// then the file's name for exclusion and for positions alike
		t := visible[0]
		ref := g.typeRef(p, t, -1)
		{
			impl := ""
			if t.pkg != p && g.o.Spelling != 1 && g.o.Spelling != 2 {
				impl = fmt.Sprintf("import %q\n\n", t.pkg.path)
				if p.alias[t.pkg] != t.pkg.name {
					impl = fmt.Sprintf("import %s %q\n\n", p.alias[t.pkg], t.pkg.path)
				}
			}
			body := "x := new(" + ref + ") " + g.nextTag() + "\n\t_ = x"
			if t.kind == 0 {
				body = "x := &" + ref + "{} " + g.nextTag() + "\n\tx.X = 1 " + g.nextTag()
			}
			m.Files[dir+"/yacc_out.go"] = "//line testdata/expr.y:2\npackage " + p.name + "\n\n" + impl + "func FromYacc() {\n\t" + body + "\n}\n"
		}
	}
	if g.o.TestFiles {
		// an excluded file that sorts first in its package and that nothing refers to
		m.Files[dir+"/aa_testdata_first.go"] = "package " + p.name + "\n\n// @immutable\n// @constructor NewFirstExcluded\ntype FirstExcluded struct{ Q int }\n\nfunc touchFirst(f *FirstExcluded) { f.Q = 1 }\n"
		// annotated functions / methods / types in an excluded (non-test) file: inert, whoever uses them
		m.Files[dir+"/zz_testdata_decl.go"] = "package " + p.name + "\n\n// @testonly\n// @packageonly nobody\nfunc ExclHelper() int { return 1 }\n\n// @testonly\ntype ExclMock struct{ Z int }\n\n// @testonly\nfunc (e *ExclMock) Touch() {}\n"
		// external test package
		self := p.path
		m.Files[dir+"/export_test.go"] = "package " + p.name + "\n\n// DeclInTest is declared in a test file of the package.\n// @immutable\n// @constructor NewDeclInTest\ntype DeclInTest struct{ X int }\n\nfunc NewDeclInTest() *DeclInTest { return &DeclInTest{} }\n"
		// file names with characters that mean something in a regular expression
		m.Files[dir+"/gen_(v1)_x.go"] = "package " + p.name + "\n\n// MetaA is declared in a file with parentheses in its name.\n// @immutable\ntype MetaA struct{ X int }\n\nfunc touchMetaA(m *MetaA) { m.X = 1 " + g.nextTag() + " }\n"
		m.Files[dir+"/zz+plus.go"] = "package " + p.name + "\n\n// MetaB is declared in a file with a plus sign in its name.\n// @immutable\n// @constructor NewMetaB\ntype MetaB struct{ X int }\n\nfunc touchMetaB() { b := MetaB{} " + g.nextTag() + "; b.X++ " + g.nextTag() + " }\n"
		if g.o.NoAnnotations {
			for _, n := range []string{"/gen_(v1)_x.go", "/zz+plus.go"} {
				m.Files[dir+n] = strings.ReplaceAll(m.Files[dir+n], "// @", "// ")
			}
		}
		// a test file whose base name has a dot before _test.go
		m.Files[dir+"/store.v2_test.go"] = "package " + p.name + "\n\n// DottedT is declared in a test file.\n// @immutable\n// @constructor NewDottedT\ntype DottedT struct{ X int }\n\n" +
			"func touchDotted() {\n\tvar d DottedT " + g.nextTag() + "\n\td.X = 1 " + g.nextTag() + "\n\td.X++ " + g.nextTag() + "\n\t_ = DeclInTest{} " + g.nextTag() + "\n}\n"
		m.Files[dir+"/ext_test.go"] = "package " + p.name + "_test\n\nimport (\n\t\"testing\"\n\n\tself \"" + self + "\"\n)\n\nfunc TestNothing(t *testing.T) {\n\td := self.NewDeclInTest() " + g.nextTag() + "\n\td.X = 1 " + g.nextTag() + "\n\t_ = self.DeclInTest{} " + g.nextTag() + "\n}\n" +
			"\n// ExtOnly is declared in the external test package.\n// @immutable\n// @constructor NewExtOnly\ntype ExtOnly struct{ X int }\n\nfunc NewExtOnly() *ExtOnly { return &ExtOnly{X: 1} }\n\n" +
			"func touchExtOnly() {\n\te := &ExtOnly{} " + g.nextTag() + "\n\te.X = 2 " + g.nextTag() + "\n\te.X++ " + g.nextTag() + "\n\tvar z ExtOnly " + g.nextTag() + "\n\t_ = z\n}\n"
	}
}
