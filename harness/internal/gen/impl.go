package gen

// Generator of @implements scenarios (C05): interfaces and defined types with method signatures over basic,
// named, pointer (any depth), slice, map, func, chan, variadic and alias types; value / pointer receivers;
// promotion through embedded T / *T; embedded interfaces; interfaces local, imported, imported under alias, from
// a package whose name differs from its path's last element; correct, missing-method and wrong-signature variants.
// Truth comes from go/types (the extractor's oracle), never from the generator.

import (
	"fmt"
	"strings"

	"ggvh/internal/rng"
)

type implGen struct {
	r    *rng.R
	base string // import path prefix, e.g. exp/k3
}

// a type expression as seen from the user package, with identical alternative spellings
type tyAlt struct {
	spellings []string // all denote the same type
}

func (g *implGen) typePool(ifcQual string) []tyAlt {
	q := ifcQual
	return []tyAlt{
		{[]string{"int"}}, {[]string{"string", "Str"}}, {[]string{"byte", "uint8"}}, {[]string{"rune", "int32"}},
		{[]string{"error"}}, {[]string{"any", "interface{}"}},
		{[]string{q + "Data"}}, {[]string{"*" + q + "Data", "PData"}}, {[]string{"**" + q + "Data", "*PData"}},
		{[]string{"[]int"}}, {[]string{"[]" + q + "Data"}}, {[]string{"map[string]int"}}, {[]string{"map[string]*" + q + "Data", "map[Str]PData"}},
		{[]string{"func(int) string", "func(n int) string", "func(x int) (s string)"}}, {[]string{"chan int"}}, {[]string{"<-chan string"}},
		{[]string{"Local"}}, {[]string{"*Local"}}, {[]string{"[3]int"}}, {[]string{"struct{ A int }"}},
	}
}

type msig struct {
	name      string
	params    []int // indices into the pool
	variadic  bool  // last param variadic
	sliceLast bool  // last param written []T (what a variadic ...T looks like from inside, a different signature)
	results   []int
}

func (g *implGen) randSig(pool []tyAlt, name string) msig {
	r := g.r
	s := msig{name: name}
	for k := r.Intn(4); k > 0; k-- {
		s.params = append(s.params, r.Intn(len(pool)))
	}
	if len(s.params) > 0 && r.Chance(1, 4) {
		s.variadic = true
	} else if len(s.params) > 0 && r.Chance(1, 6) {
		s.sliceLast = true
	}
	for k := r.Intn(3); k > 0; k-- {
		s.results = append(s.results, r.Intn(len(pool)))
	}
	return s
}

// render a signature with spelling choice sp (0 = first spelling, else random alternative)
func (g *implGen) sigText(pool []tyAlt, s msig, alt bool, names bool) (params string, results string) {
	pick := func(i int) string {
		sp := pool[i].spellings
		if alt {
			return sp[g.r.Intn(len(sp))]
		}
		return sp[0]
	}
	var ps []string
	for i, p := range s.params {
		t := pick(p)
		if s.variadic && i == len(s.params)-1 {
			t = "..." + t
		} else if s.sliceLast && i == len(s.params)-1 {
			t = "[]" + t
		}
		if names {
			t = fmt.Sprintf("p%d %s", i, t)
		}
		ps = append(ps, t)
	}
	var rs []string
	for _, p := range s.results {
		rs = append(rs, pick(p))
	}
	results = strings.Join(rs, ", ")
	if len(rs) > 1 {
		results = "(" + results + ")"
	}
	return strings.Join(ps, ", "), results
}

func (g *implGen) methodDecl(pool []tyAlt, recv string, s msig) string {
	params, results := g.sigText(pool, s, true, true)
	var body []string
	var rets []string
	for i, p := range s.results {
		body = append(body, fmt.Sprintf("\tvar r%d %s", i, pool[p].spellings[0]))
		rets = append(rets, fmt.Sprintf("r%d", i))
	}
	if len(rets) > 0 {
		body = append(body, "\treturn "+strings.Join(rets, ", "))
	}
	sp := ""
	if results != "" {
		sp = " "
	}
	return fmt.Sprintf("func (%s) %s(%s)%s%s {\n%s\n}", recv, s.name, params, sp, results, strings.Join(body, "\n"))
}

// GenerateImpl builds one @implements scenario under exp/<root>.
func GenerateImpl(seed uint64, root string) *Module {
	g := &implGen{r: rng.New(seed ^ 0x1A9), base: "exp/" + root}
	r := g.r
	m := &Module{Files: map[string]string{}, Tags: map[string]int{}}
	m.Files["go.mod"] = "module exp\n\ngo 1.25\n"

	// ---- interface package(s): exp/root/ifc (package ifc) and exp/root/deep/yaml.v3 (package yaml)
	ifcPool := g.typePool("")
	// inside the interface packages only self-contained types are used
	usable := func(i int) bool {
		// the interface package writes the first spelling; the user package may write any identical alternative
		s := ifcPool[i].spellings[0]
		return !strings.Contains(s, "Local") && !strings.Contains(s, "Str") && !strings.Contains(s, "PData")
	}
	nI := 2 + r.Intn(3)
	type iface struct {
		pkg, name string
		sigs      []msig
		embeds    string
	}
	var ifaces []iface
	for i := 0; i < nI; i++ {
		it := iface{pkg: "ifc", name: fmt.Sprintf("I%d", i)}
		if i == nI-1 {
			it.pkg = "yaml"
		}
		for k := 0; k <= r.Intn(3); k++ {
			s := g.randSig(ifcPool, fmt.Sprintf("M%d_%d", i, k))
			ok := true
			for _, p := range append(append([]int{}, s.params...), s.results...) {
				if !usable(p) {
					ok = false
				}
			}
			if !ok {
				s = msig{name: s.name, params: []int{0}, results: []int{4}}
			}
			it.sigs = append(it.sigs, s)
		}
		if r.Chance(1, 2) && i == 0 {
			it.sigs = append(it.sigs, msig{name: "seal"}) // unexported method: only the interface's package can implement it
		}
		ifaces = append(ifaces, it)
	}
	render := func(pkg string) string {
		var b strings.Builder
		b.WriteString("package " + pkg + "\n\ntype Data struct{ V int }\n\n// Base lets other packages satisfy sealed interfaces by embedding it.\ntype Base struct{}\n\nfunc (Base) seal() {}\n\n")
		for i, it := range ifaces {
			if it.pkg != pkg {
				continue
			}
			b.WriteString("type " + it.name + " interface {\n")
			if i > 0 && ifaces[i-1].pkg == pkg && r.Chance(1, 3) {
				b.WriteString("\t" + ifaces[i-1].name + "\n") // embedded interface
				ifaces[i].embeds = ifaces[i-1].name
			}
			for _, s := range it.sigs {
				p, rs := g.sigText(ifcPool, s, false, r.Bool())
				sp := ""
				if rs != "" {
					sp = " "
				}
				b.WriteString(fmt.Sprintf("\t%s(%s)%s%s\n", s.name, p, sp, rs))
			}
			b.WriteString("}\n\n")
		}
		if pkg == "ifc" {
			// interfaces declared through alias declarations: of a defined interface, and of an interface literal
			b.WriteString("type AliasI0 = I0\n\ntype Closer = interface{ Close() error }\n\n")
			// interfaces composed three levels deep: the deepest methods are required too
			b.WriteString("type Bottom interface{ BottomM(int) string }\n\ntype Middle interface {\n\tBottom\n\tMiddleM()\n}\n\ntype Top interface {\n\tMiddle\n\tTopM() error\n}\n\n")
		}
		return b.String()
	}
	m.Files[root+"/ifc/ifc.go"] = render("ifc")
	// a package at another path with the same declared name and other interfaces of the same names
	m.Files[root+"/v2/ifc/ifc.go"] = "package ifc\n\ntype Data struct{ W string }\n\ntype I0 interface{ OnlyInV2() }\n\ntype Legacy interface{ Old() }\n"
	m.Files[root+"/deep/yaml.v3/y.go"] = render("yaml")

	// ---- user package
	uname := "user"
	if r.Chance(1, 4) {
		uname = "ifc" // the current package's name equals a qualifier
	}
	ifcAlias := ""
	switch r.Intn(4) {
	case 1:
		ifcAlias = "api"
	case 2:
		ifcAlias = []string{"API", "Contract", "_ifc", "C"}[r.Intn(4)] // a local import name is any identifier
	}
	qual := "ifc."
	if ifcAlias != "" {
		qual = ifcAlias + "."
	}
	if uname == "ifc" && ifcAlias == "" {
		ifcAlias, qual = "api", "api."
	}
	pool := g.typePool(qual)
	var b strings.Builder
	b.WriteString("package " + uname + "\n\nimport (\n")
	if ifcAlias != "" {
		b.WriteString(fmt.Sprintf("\t%s %q\n", ifcAlias, g.base+"/ifc"))
	} else {
		b.WriteString(fmt.Sprintf("\t%q\n", g.base+"/ifc"))
	}
	yamlAlias := ""
	if r.Chance(1, 3) {
		yamlAlias = "yml"
		b.WriteString(fmt.Sprintf("\tyml %q\n", g.base+"/deep/yaml.v3"))
	} else {
		b.WriteString(fmt.Sprintf("\t%q\n", g.base+"/deep/yaml.v3"))
	}
	v2 := r.Chance(1, 2)
	if v2 {
		b.WriteString(fmt.Sprintf("\tifcv2 %q\n", g.base+"/v2/ifc"))
	}
	second := ""
	if r.Chance(1, 3) {
		second = "wire"
		b.WriteString(fmt.Sprintf("\twire %q\n", g.base+"/ifc"))
	}
	b.WriteString(")\n\n")
	yq := "yaml."
	if yamlAlias != "" {
		yq = yamlAlias + "."
	}
	if second != "" {
		b.WriteString("var _ " + second + ".Data\n")
	}
	if v2 {
		b.WriteString("var _ ifcv2.Data\n")
	}
	b.WriteString("var _ " + qual + "Data\nvar _ " + yq + "Data\n\ntype Local struct{ L int }\n\ntype Str = string\n\ntype PData = *" + qual + "Data\n\n")
	// a local interface too
	localSigs := []msig{g.randSig(pool, "Do"), g.randSig(pool, "Done")}
	b.WriteString("type LocalI interface {\n")
	for _, s := range localSigs {
		p, rs := g.sigText(pool, s, false, true)
		sp := ""
		if rs != "" {
			sp = " "
		}
		b.WriteString(fmt.Sprintf("\t%s(%s)%s%s\n", s.name, p, sp, rs))
	}
	b.WriteString("}\n\n")
	b.WriteString("// I0 shares its simple name with an imported interface.\ntype I0 interface{ LocalOnly() }\n\n")
	all := append([]iface{}, ifaces...)
	all = append(all, iface{pkg: "", name: "LocalI", sigs: localSigs})
	{
		a := ifaces[0]
		a.name = "AliasI0"
		all = append(all, a, iface{pkg: "ifc", name: "Closer", sigs: []msig{{name: "Close", results: []int{4}}}})
	}
	var made []string // struct types declared so far (targets of alias declarations)

	nT := 4 + r.Intn(5)
	for t := 0; t < nT; t++ {
		it := all[r.Intn(len(all))]
		// the full method list (with embedded interface's methods) the type would need
		need := append([]msig{}, it.sigs...)
		if it.embeds != "" {
			for _, o := range ifaces {
				if o.name == it.embeds && o.pkg == it.pkg {
					need = append(need, o.sigs...)
				}
			}
		}
		{
			seen := map[string]bool{}
			var uniq []msig
			for _, s := range need {
				if !seen[s.name] {
					seen[s.name] = true
					uniq = append(uniq, s)
				}
			}
			need = uniq
		}
		// methods in the interface package's pool must be re-rendered with the user's qualifier: same indices
		tname := fmt.Sprintf("T%d", t)
		amp := r.Chance(1, 3)
		q := ""
		switch it.pkg {
		case "ifc":
			q = strings.TrimSuffix(qual, ".")
			if ifcAlias != "" && r.Chance(1, 6) {
				q = "ifc" // declared name although an alias is in force: resolves by declared name
			}
			if second != "" && r.Chance(1, 2) {
				q = second // the name bound by the second import of the same package
			}
		case "yaml":
			q = "yaml" // declared name (differs from the last path element yaml.v3)
			if yamlAlias != "" && r.Bool() {
				q = yamlAlias
			}
		}
		iname := it.name
		switch r.Intn(12) {
		case 0:
			q = "nosuch" // IMPL01
		case 1:
			iname = "NoSuchIface" // IMPL02
		case 2:
			if it.pkg != "" {
				q = "v3" // matches only through the path-suffix fallback? (yaml.v3 does not end in /v3): IMPL01
			}
		}
		ann := "// @implements "
		if amp {
			ann += "&"
		}
		if q != "" {
			ann += q + "."
		}
		ann += iname
		if r.Chance(1, 5) {
			ann += " trailing words"
		}
		if r.Chance(1, 4) {
			// a second annotation on the same type: another interface, the same one with the other pointer-ness, or
			// the local interface that shares the imported one's simple name
			switch r.Intn(4) {
			case 0:
				ann += "\n// @implements I0"
			case 1:
				ann += "\n// @implements &I0"
			case 2:
				o2 := all[r.Intn(len(all))]
				q2 := ""
				if o2.pkg == "ifc" {
					q2 = qual
				} else if o2.pkg == "yaml" {
					q2 = yq
				}
				ann += "\n// @implements " + q2 + o2.name
			default:
				if v2 {
					ann += "\n// @implements ifcv2.Legacy"
				} else {
					ann += "\n// @implements &LocalI"
				}
			}
		}
		// how the type provides the methods
		mode := r.Intn(7) // 0 value recv, 1 pointer recv, 2 mixed, 3 embedded value Inner, 4 embedded *Inner, 5 interface type, 6 embeds the interface package's Base (sealed pattern)
		inner := fmt.Sprintf("Inner%d", t)
		switch mode {
		case 3:
			b.WriteString(fmt.Sprintf("type %s struct{ Z int }\n\n%s\ntype %s struct{ %s }\n\n", inner, ann, tname, inner))
		case 4:
			b.WriteString(fmt.Sprintf("type %s struct{ Z int }\n\n%s\ntype %s struct{ *%s }\n\n", inner, ann, tname, inner))
		case 5:
			b.WriteString(ann + "\ntype " + tname + " interface {\n")
			if it.pkg != "" || it.name == "LocalI" {
				if r.Bool() {
					qq := ""
					if it.pkg == "ifc" {
						qq = qual
					} else if it.pkg == "yaml" {
						qq = yq
					}
					b.WriteString("\t" + qq + it.name + "\n")
				}
			}
			b.WriteString("\tExtra()\n}\n\n")
			continue
		case 6:
			bq := qual
			if it.pkg == "yaml" {
				bq = yq
			}
			b.WriteString(fmt.Sprintf("%s\ntype %s struct {\n\t%sBase\n\tZ int\n}\n\n", ann, tname, bq))
		default:
			b.WriteString(fmt.Sprintf("%s\ntype %s struct{ Z int }\n\n", ann, tname))
		}
		made = append(made, tname)
		for k, s := range need {
			variant := r.Intn(10) // 0..4 correct, 5 missing, 6 wrong type, 7 pointer depth / variadic change, 8 boundary between parameters and results moved, 9 same-named type of the other package named ifc
			if s.name == "seal" {
				if mode == 6 {
					continue // promoted from the embedded Base
				}
				variant = 0
			}
			ms := s
			switch variant {
			case 5:
				continue
			case 6:
				if len(ms.params) > 0 {
					ms.params = append([]int{}, ms.params...)
					ms.params[0] = (ms.params[0] + 1 + r.Intn(len(pool)-1)) % len(pool)
				} else {
					ms.results = append(append([]int{}, ms.results...), 0)
				}
			case 8:
				// the same sequence of types, split at a different place: M(a) (b, c) against M(a, b) c
				if len(ms.results) > 0 && !ms.variadic && !ms.sliceLast {
					ms.params = append(append([]int{}, ms.params...), ms.results[0])
					ms.results = append([]int{}, ms.results[1:]...)
				} else if len(ms.params) > 0 && !ms.variadic && !ms.sliceLast {
					ms.results = append([]int{ms.params[len(ms.params)-1]}, ms.results...)
					ms.params = append([]int{}, ms.params[:len(ms.params)-1]...)
				}
			case 7:
				if ms.variadic && r.Bool() {
					ms.variadic, ms.sliceLast = false, true // ...T against []T
				} else if ms.sliceLast {
					ms.variadic, ms.sliceLast = true, false
				} else if ms.variadic {
					ms.variadic = false
				} else if len(ms.params) > 0 {
					ms.variadic = true
				} else {
					ms.params = []int{6}
				}
			}
			recv := "t " + tname
			switch mode {
			case 1:
				recv = "t *" + tname
			case 2:
				if k%2 == 0 {
					recv = "t *" + tname
				}
			case 3:
				recv = "t " + inner
				if r.Chance(1, 3) {
					recv = "t *" + inner
				}
			case 4:
				recv = "t *" + inner
				if r.Chance(1, 3) {
					recv = "t " + inner
				}
			}
			decl := g.methodDecl(pool, recv, ms)
			if variant == 9 && v2 && !strings.Contains(decl, "PData") {
				// Data of exp/.../v2/ifc instead of exp/.../ifc: the two print alike (ifc.Data) and are different types
				decl = strings.ReplaceAll(decl, qual+"Data", "ifcv2.Data")
			}
			b.WriteString(decl + "\n\n")
		}
	}
	// a parenthesised group: specs with a doc of their own between specs without one (each spec speaks for itself,
	// an undocumented spec falls back to the group's doc only)
	{
		it := all[r.Intn(len(all))]
		q := ""
		switch it.pkg {
		case "ifc":
			q = qual
		case "yaml":
			q = yq
		}
		gdoc := ""
		switch r.Intn(3) {
		case 0:
			gdoc = "// Grouped declarations.\n"
		case 1:
			gdoc = "// Grouped declarations.\n// @implements LocalI\n"
		}
		b.WriteString(gdoc + "type (\n\tGA struct{ Z int }\n\t// GB claims an interface.\n\t// @implements " + q + it.name + "\n\tGB struct{ Z int }\n\tGC struct{ Z int }\n\t// GD is documented, without a claim.\n\tGD struct{ Z int }\n\t// @implements &LocalI\n\tGE struct{ Z int }\n\tGF struct{ Z int }\n)\n\n")
	}
	// annotated alias declarations: the annotation is about the type the alias denotes
	for k := 0; k < 3 && len(made) > 0; k++ {
		target := made[r.Intn(len(made))]
		it := all[r.Intn(len(all))]
		q := ""
		switch it.pkg {
		case "ifc":
			q = qual
		case "yaml":
			q = yq
		}
		amp := ""
		if r.Chance(1, 3) {
			amp = "&"
		}
		ann := "// @implements " + amp + q + it.name
		switch r.Intn(4) {
		case 0:
			b.WriteString(fmt.Sprintf("%s\ntype AliasP%d = *%s\n\n", ann, k, target))
		case 1:
			b.WriteString(fmt.Sprintf("%s\ntype AliasS%d = struct{ %s }\n\n", ann, k, target))
		default:
			b.WriteString(fmt.Sprintf("%s\ntype AliasT%d = %s\n\n", ann, k, target))
		}
	}
	// three levels of embedded interfaces: complete, missing the deepest method, missing the middle one
	b.WriteString("// @implements " + qual + "Top\ntype DeepOK struct{}\n\nfunc (DeepOK) BottomM(int) string { return \"\" }\nfunc (DeepOK) MiddleM()              {}\nfunc (DeepOK) TopM() error           { return nil }\n\n")
	b.WriteString("// @implements " + qual + "Top\ntype DeepNoBottom struct{}\n\nfunc (DeepNoBottom) MiddleM()    {}\nfunc (DeepNoBottom) TopM() error { return nil }\n\n")
	b.WriteString("// @implements &" + qual + "Top\ntype DeepNoMiddle struct{}\n\nfunc (*DeepNoMiddle) BottomM(int) string { return \"\" }\nfunc (*DeepNoMiddle) TopM() error           { return nil }\n\n")
	// an annotated blank type: there is no such name in the package scope
	b.WriteString("// @implements LocalI\ntype _ struct{ Z int }\n\n")
	udir := root + "/" + map[bool]string{true: "ifcuser", false: "user"}[uname == "ifc"]
	m.Files[udir+"/u.go"] = b.String()
	// a second file of the same package that does NOT import the interface packages: qualifiers bound only in
	// the other file are not bound here (imports are per file)
	q1 := strings.TrimSuffix(qual, ".")
	// a sibling package in which the qualifier `ifc` names the OTHER package of that name (exp/.../v2/ifc); it imports
	// the user package, so it is analysed after it in the same run
	upath := g.base + "/" + map[bool]string{true: "ifcuser", false: "user"}[uname == "ifc"]
	m.Files[root+"/sibling/s.go"] = "package sibling\n\nimport (\n\t\"" + g.base + "/v2/ifc\"\n\t_ \"" + upath + "\"\n)\n\nvar _ ifc.Data\n\n" +
		"// @implements ifc.Legacy\ntype Old struct{}\n\nfunc (Old) Old() {}\n\n// @implements ifc.I0\ntype V2Only struct{}\n\nfunc (V2Only) OnlyInV2() {}\n\n" +
		"// @implements &ifc.I0\ntype Neither struct{}\n\n// @implements ifc.Closer\ntype NoSuch struct{}\n"
	// the interface package has in-package tests (so a test variant of it exists in the run) and an external test
	// package with test doubles that claim its interfaces
	m.Files[root+"/ifc/ifc_internal_test.go"] = "package ifc\n\nvar internalOnly Data\n"
	m.Files[root+"/ifc/ifc_ext_test.go"] = "package ifc_test\n\nimport \"" + g.base + "/ifc\"\n\nvar _ ifc.Data\n\n// Double is a test double without methods.\n// @implements ifc.I0\ntype Double struct{}\n\n// @implements &ifc.I1\ntype Double1 struct{}\n\n// @implements ifc.Closer\ntype Closing struct{}\n\nfunc (Closing) Close() error { return nil }\n"
	m.Files[root+"/lonely/a.go"] = "package lonely\n\n// L names a package that only the test file of this package imports.\n// @implements ifc.I0\ntype L struct{}\n\n// @implements &ifc.Closer\ntype L2 struct{}\n"
	m.Files[root+"/lonely/a_test.go"] = "package lonely\n\nimport \"" + g.base + "/ifc\"\n\nvar _ ifc.Data\n"
	m.Files[udir+"/z_noimport.go"] = "package " + uname + "\n\n// @implements " + q1 + ".I0\ntype Lonely struct{}\n\n// @implements &" + strings.TrimSuffix(yq, ".") + ".I" + fmt.Sprint(nI-1) + "\ntype Lonely2 struct{}\n\n// @implements LocalI\ntype Lonely3 struct{}\n"
	return m
}
