// Package run executes the real gogreement analyzers in-process (x/tools checker, the version /repo pins)
// on packages loaded with go/packages, every Run wrapped in recover, and pairs each analysed package with
// the abstract program sent to the Lean model.
package run

import (
	"fmt"
	"go/ast"
	"go/parser"
	"go/token"
	"os"
	"sort"
	"strings"
	"sync"

	"ggvh/internal/apf"

	"github.com/a14e/gogreement/src/analyzer"
	"github.com/a14e/gogreement/src/annotations"
	"github.com/a14e/gogreement/src/ignore"
	"golang.org/x/tools/go/analysis"
	"golang.org/x/tools/go/analysis/checker"
	"golang.org/x/tools/go/packages"
)

type Diag struct {
	Pos      token.Pos
	File     string // unadjusted (physical) file and line: //line directives ignored
	Line     int
	Col      int
	Code     string
	Analyzer string
	Message  string
	// as the drivers print it (adjusted by //line directives)
	AdjFile         string
	AdjLine, AdjCol int
}

type PkgResult struct {
	ID      string
	Diags   []Diag
	Errors  []string // analyzer errors; a recovered panic is "panic:<analyzer>:<value>"
	Ann     []string // the AnnotationReader result, one item per annotation (sorted), in the model's encoding
	Markers []string // the IgnoreReader result: "start-end:CODE+CODE" per marker (sorted)
	HasAnn  bool
	// Mutated names what the analysis changed in the inputs it shares with every other analyzer of the run (the
	// type-checked package's import list, the identifiers of the syntax trees); empty if nothing
	Mutated string
}

// fingerprint of what the analyzers are given read-only: import order and every identifier of the syntax trees
func fingerprint(p *packages.Package) (imports string, idents string) {
	if p.Types != nil {
		var l []string
		for _, imp := range p.Types.Imports() {
			l = append(l, imp.Path())
		}
		imports = strings.Join(l, ",")
	}
	var b strings.Builder
	for _, f := range p.Syntax {
		ast.Inspect(f, func(n ast.Node) bool {
			if id, ok := n.(*ast.Ident); ok {
				b.WriteString(id.Name)
				b.WriteByte(' ')
			}
			return true
		})
	}
	return imports, b.String()
}

// Load loads the module rooted at dir with full syntax for all dependencies (what the drivers do).
func Load(dir string, tests bool, patterns ...string) ([]*packages.Package, error) {
	cfg := &packages.Config{
		Mode:  packages.LoadAllSyntax | packages.NeedModule,
		Dir:   dir,
		Tests: tests,
		Env:   append(os.Environ(), "GOFLAGS=-mod=mod", "GOPROXY=off", "GOWORK=off"),
	}
	if len(patterns) == 0 {
		patterns = []string{"./..."}
	}
	pkgs, err := packages.Load(cfg, patterns...)
	if err != nil {
		return nil, err
	}
	var errs []string
	packages.Visit(pkgs, nil, func(p *packages.Package) {
		for _, e := range p.Errors {
			errs = append(errs, p.ID+": "+e.Error())
		}
	})
	if len(errs) > 0 {
		return pkgs, fmt.Errorf("packages do not compile: %s", strings.Join(errs[:min(len(errs), 5)], "; "))
	}
	return pkgs, nil
}

// LoadShifted loads like Load, with the files parsed one at a time into a fresh FileSet in which targetFile gets
// the base that puts the byte at boundaryOffset of that file on a position that is a multiple of 1<<shiftBits (the
// kind of layout that arises when unrelated packages were registered in the FileSet before it).
func LoadShifted(dir string, tests bool, targetFile string, boundaryOffset int, shiftBits uint, patterns ...string) ([]*packages.Package, error) {
	var mu sync.Mutex
	cfg := &packages.Config{
		Mode:  packages.LoadAllSyntax | packages.NeedModule,
		Dir:   dir,
		Tests: tests,
		Fset:  token.NewFileSet(),
		Env:   append(os.Environ(), "GOFLAGS=-mod=mod", "GOPROXY=off", "GOWORK=off"),
		ParseFile: func(fset *token.FileSet, filename string, src []byte) (*ast.File, error) {
			mu.Lock()
			defer mu.Unlock()
			if filename == targetFile {
				page := 1 << shiftBits
				base := page - boundaryOffset
				for base < fset.Base() {
					base += page
				}
				if need := base - fset.Base(); need > 1 {
					fset.AddFile("pad", -1, need-1)
				}
			}
			f, err := parser.ParseFile(fset, filename, src, parser.AllErrors|parser.ParseComments)
			if filename == targetFile {
				// whatever is parsed later starts at least a page further on: the page behind the boundary holds
				// nothing but the rest of this file
				fset.AddFile("pad-after", -1, 1<<shiftBits)
			}
			return f, err
		},
	}
	if len(patterns) == 0 {
		patterns = []string{"./..."}
	}
	pkgs, err := packages.Load(cfg, patterns...)
	if err != nil {
		return nil, err
	}
	var errs []string
	packages.Visit(pkgs, nil, func(p *packages.Package) {
		for _, e := range p.Errors {
			errs = append(errs, p.ID+": "+e.Error())
		}
	})
	if len(errs) > 0 {
		return pkgs, fmt.Errorf("packages do not compile: %s", strings.Join(errs[:min(len(errs), 5)], "; "))
	}
	return pkgs, nil
}

// cloneAnalyzers returns copies of gogreement's analyzers whose Run recovers panics.
func cloneAnalyzers() []*analysis.Analyzer {
	orig := analyzer.AllAnalyzers()
	m := map[*analysis.Analyzer]*analysis.Analyzer{}
	var clone func(a *analysis.Analyzer) *analysis.Analyzer
	clone = func(a *analysis.Analyzer) *analysis.Analyzer {
		if c, ok := m[a]; ok {
			return c
		}
		c := &analysis.Analyzer{Name: a.Name, Doc: a.Doc, URL: a.URL, Flags: a.Flags, RunDespiteErrors: a.RunDespiteErrors,
			ResultType: a.ResultType, FactTypes: a.FactTypes}
		m[a] = c
		for _, r := range a.Requires {
			c.Requires = append(c.Requires, clone(r))
		}
		run := a.Run
		name := a.Name
		c.Run = func(pass *analysis.Pass) (res any, err error) {
			defer func() {
				if r := recover(); r != nil {
					res, err = nil, fmt.Errorf("panic:%s:%v", name, r)
				}
			}()
			// the originals look each other up in pass.ResultOf by the ORIGINAL analyzer pointers
			if len(a.Requires) > 0 {
				ro := map[*analysis.Analyzer]any{}
				for k, v := range pass.ResultOf {
					ro[k] = v
				}
				for o, cl := range m {
					if v, ok := pass.ResultOf[cl]; ok {
						ro[o] = v
					}
				}
				p2 := *pass
				p2.ResultOf = ro
				p2.Analyzer = pass.Analyzer
				return run(&p2)
			}
			return run(pass)
		}
		return c
	}
	var out []*analysis.Analyzer
	for _, a := range orig {
		out = append(out, clone(a))
	}
	return out
}

// SetConfig sets the configuration flags of the ConfigReader analyzer. It must be called before the first
// analysis of the process: analyzer.configOnce caches the configuration for the life of the process.
func SetConfig(scanTests bool, excludePaths, excludeChecks *string) {
	fs := &analyzer.ConfigReader.Flags
	if scanTests {
		fs.Set("scan-tests", "true")
	} else {
		fs.Set("scan-tests", "false")
	}
	if excludePaths != nil {
		fs.Set("exclude-paths", *excludePaths)
	}
	if excludeChecks != nil {
		fs.Set("exclude-checks", *excludeChecks)
	}
}

// Analyze runs the real analyzers on the root packages (and, for facts, on their dependencies).
func Analyze(roots []*packages.Package, sequential, sanity bool) (map[string]*PkgResult, error) {
	type fp struct{ imports, idents string }
	before := map[string]fp{}
	for _, p := range roots {
		i, d := fingerprint(p)
		before[p.ID] = fp{i, d}
	}
	g, err := checker.Analyze(cloneAnalyzers(), roots, &checker.Options{Sequential: sequential, SanityCheck: sanity})
	if err != nil {
		return nil, err
	}
	out := map[string]*PkgResult{}
	for _, p := range roots {
		i, d := fingerprint(p)
		r := &PkgResult{ID: p.ID}
		out[p.ID] = r
		if b := before[p.ID]; b.imports != i {
			r.Mutated = "the import list of the type-checked package was reordered: " + b.imports + " -> " + i
		} else if b.idents != d {
			k := 0
			for k < len(d) && k < len(b.idents) && d[k] == b.idents[k] {
				k++
			}
			r.Mutated = "an identifier of the syntax tree was rewritten near: ..." + b.idents[max(0, k-30):min(len(b.idents), k+30)] + "... -> ..." + d[max(0, k-30):min(len(d), k+30)] + "..."
		}
	}
	for act := range g.All() {
		id := act.Package.ID
		r := out[id]
		if r == nil {
			r = &PkgResult{ID: id}
			out[id] = r
		}
		if act.Err != nil {
			msg := act.Err.Error()
			if i := strings.Index(msg, "panic:"); i >= 0 {
				msg = msg[i:]
			}
			// a failed prerequisite repeats its error in the dependants: keep the root cause only
			if !strings.Contains(act.Err.Error(), "failed prerequisites") {
				r.Errors = append(r.Errors, msg)
			}
		}
		if !act.IsRoot {
			continue
		}
		switch v := act.Result.(type) {
		case annotations.PackageAnnotations:
			r.HasAnn = true
			r.Ann = encodeAnn(v)
		case ignore.IgnoreResult:
			if v.IgnoreSet != nil {
				for _, m := range v.IgnoreSet.Markers {
					r.Markers = append(r.Markers, fmt.Sprintf("%d-%d:%s", int(m.StartPos), int(m.EndPos), strings.Join(m.Codes, "+")))
				}
				sort.Strings(r.Markers)
			}
		}
		for _, d := range act.Diagnostics {
			p := act.Package.Fset.PositionFor(d.Pos, false)
			code := ""
			if i := strings.Index(d.Message, "["); i >= 0 {
				if j := strings.Index(d.Message[i:], "]"); j > 0 {
					code = d.Message[i+1 : i+j]
				}
			}
			ap := act.Package.Fset.Position(d.Pos)
			r.Diags = append(r.Diags, Diag{Pos: d.Pos, File: p.Filename, Line: p.Line, Col: p.Column, Code: code, Analyzer: act.Analyzer.Name, Message: d.Message,
				AdjFile: ap.Filename, AdjLine: ap.Line, AdjCol: ap.Column})
		}
	}
	for _, r := range out {
		sort.Slice(r.Diags, func(i, j int) bool {
			if r.Diags[i].Pos != r.Diags[j].Pos {
				return r.Diags[i].Pos < r.Diags[j].Pos
			}
			return r.Diags[i].Code < r.Diags[j].Code
		})
		sort.Strings(r.Errors)
	}
	return out, nil
}

const hexdigits = "0123456789abcdef"

func hx(s string) string {
	if s == "" {
		return "-"
	}
	b := make([]byte, 0, 2*len(s))
	for i := 0; i < len(s); i++ {
		b = append(b, hexdigits[s[i]>>4], hexdigits[s[i]&15])
	}
	return string(b)
}

func hxs(l []string) string {
	p := make([]string, len(l))
	for i, x := range l {
		p[i] = hx(x)
	}
	return strings.Join(p, "+")
}

func encodeAnn(a annotations.PackageAnnotations) []string {
	var out []string
	for _, x := range a.ImmutableAnnotations {
		out = append(out, "I:"+hx(x.OnType))
	}
	for _, x := range a.ConstructorAnnotations {
		out = append(out, "K:"+hx(x.OnType)+":"+hxs(x.ConstructorNames))
	}
	for _, x := range a.TestonlyAnnotations {
		out = append(out, fmt.Sprintf("T:%d:%s:%s", int(x.Kind), hx(x.ObjectName), hx(x.ReceiverType)))
	}
	for _, x := range a.MutableAnnotations {
		out = append(out, "M:"+hx(x.OnType)+":"+hx(x.FieldName))
	}
	for _, x := range a.PackageOnlyAnnotations {
		out = append(out, fmt.Sprintf("P:%d:%s:%s:%s", int(x.Kind), hx(x.ObjectName), hx(x.ReceiverType), hxs(x.AllowedPackages)))
	}
	sort.Strings(out)
	return out
}

var keywords = []string{"@implements", "@constructor", "@immutable", "@testonly", "@mutable", "@packageonly"}

// hasKeyword reports whether any source file of p mentions an annotation keyword at all (the pre-filter
// of ReadAllAnnotations cannot pass otherwise), so a package without any can be sent as a stub.
func hasKeyword(p *packages.Package) bool {
	for _, f := range p.CompiledGoFiles {
		b, err := os.ReadFile(f)
		if err != nil {
			return true
		}
		s := string(b)
		for _, k := range keywords {
			if strings.Contains(s, k) {
				return true
			}
		}
	}
	return false
}

// Order returns all packages reachable from roots in dependency order (imports first).
func Order(roots []*packages.Package) []*packages.Package {
	var out []*packages.Package
	packages.Visit(roots, nil, func(p *packages.Package) { out = append(out, p) })
	return out
}

// ImportIDs maps pkg.Types.Imports() to package ids, in that order.
func ImportIDs(p *packages.Package) []string {
	byPath := map[string]string{}
	for _, ip := range p.Imports {
		byPath[ip.PkgPath] = ip.ID
	}
	var ids []string
	if p.Types == nil {
		return ids
	}
	for _, im := range p.Types.Imports() {
		if id, ok := byPath[im.Path()]; ok {
			ids = append(ids, id)
		} else {
			ids = append(ids, "?"+im.Path())
		}
	}
	return ids
}

// APF encodes p for the model; packages outside inModule without any annotation keyword are stubs.
func APF(p *packages.Package, inModule func(*packages.Package) bool) string {
	stub := !inModule(p) && !hasKeyword(p)
	return apf.Package(p, p.ID, ImportIDs(p), stub)
}
