package main

// L2 suites: the REAL binary (rebuilt from /repo by the check driver), under both drivers.
//   drivers      (C06) standalone ./..., go vet -vettool (facts on disk), leaf-only, permuted subsets, in-process with fact sanity check
//   exclude      (C08) subsets of {ALL, categories, codes, junk} by flag / env on programs producing all 16 codes
//   wellformed   (C17) every diagnostic parsed: code, analyzer, file, help URL; inline @ignore removal; exit status
//   determinism  (C11) repeated / sequential / permuted / GOMAXPROCS runs byte-compared; -race search on mismatch
//   crash        (C10) both drivers, default and scan-tests, on generated programs; exit status must be the diagnostics status

import (
	"bytes"
	"context"
	"encoding/json"
	"fmt"
	"os"
	"os/exec"
	"path/filepath"
	"regexp"
	"sort"
	"strconv"
	"strings"
	"syscall"
	"time"

	"ggvh/internal/gen"
	"ggvh/internal/mdl"
	"ggvh/internal/res"
	"ggvh/internal/rng"
	"ggvh/internal/run"

	"github.com/a14e/gogreement/src/codes"
	"golang.org/x/tools/go/packages"
)

type binDiag struct {
	Pkg, Analyzer, File string
	Line, Col           int
	Code, Message       string
}

func (d binDiag) key() string { return fmt.Sprintf("%s:%d:%d:%s", d.File, d.Line, d.Col, d.Code) }

type binRun struct {
	diags  []binDiag
	exit   int
	stderr string
	stdout string
}

func cleanEnv(extra ...string) []string {
	var env []string
	for _, e := range os.Environ() {
		if strings.HasPrefix(e, "GOGREEMENT_") || strings.HasPrefix(e, "GOFLAGS=") || strings.HasPrefix(e, "GOMAXPROCS=") {
			continue
		}
		env = append(env, e)
	}
	env = append(env, "GOFLAGS=-mod=mod", "GOPROXY=off", "GOWORK=off")
	return append(env, extra...)
}

var codeRe = regexp.MustCompile(`\[([A-Z]+[0-9]+)\]`)

func parseJSONStream(out []byte, dir string) []binDiag {
	var ds []binDiag
	dec := json.NewDecoder(bytes.NewReader(out))
	for dec.More() {
		var tree map[string]map[string]json.RawMessage
		if err := dec.Decode(&tree); err != nil {
			break
		}
		for pkg, byAn := range tree {
			for an, raw := range byAn {
				var items []struct {
					Posn    string `json:"posn"`
					Message string `json:"message"`
				}
				if json.Unmarshal(raw, &items) != nil {
					var e struct {
						Error string `json:"error"`
					}
					if json.Unmarshal(raw, &e) == nil && e.Error != "" {
						ds = append(ds, binDiag{Pkg: pkg, Analyzer: an, Code: "ERROR", Message: e.Error})
					}
					continue
				}
				for _, it := range items {
					p := strings.Split(it.Posn, ":")
					d := binDiag{Pkg: pkg, Analyzer: an, Message: it.Message}
					isNum := func(s string) bool { _, err := strconv.Atoi(s); return err == nil && s != "" }
					switch {
					case len(p) >= 3 && isNum(p[len(p)-1]) && isNum(p[len(p)-2]):
						d.File = strings.Join(p[:len(p)-2], ":")
						fmt.Sscan(p[len(p)-2], &d.Line)
						fmt.Sscan(p[len(p)-1], &d.Col)
					case len(p) >= 2 && isNum(p[len(p)-1]): // a //line directive without column: file:line
						d.File = strings.Join(p[:len(p)-1], ":")
						fmt.Sscan(p[len(p)-1], &d.Line)
					default:
						d.File = it.Posn
					}
					if rel, err := filepath.Rel(dir, d.File); err == nil && !strings.HasPrefix(rel, "..") {
						d.File = rel
					}
					if m := codeRe.FindStringSubmatch(it.Message); m != nil {
						d.Code = m[1]
					}
					ds = append(ds, d)
				}
			}
		}
	}
	sort.Slice(ds, func(i, j int) bool { return ds[i].key() < ds[j].key() })
	return ds
}

// killGroupOnCancel: on timeout the whole process group goes (go vet starts one tool process per package; a tool that
// does not terminate would otherwise survive its parent)
func killGroupOnCancel(cmd *exec.Cmd) {
	cmd.SysProcAttr = &syscall.SysProcAttr{Setpgid: true}
	cmd.Cancel = func() error { return syscall.Kill(-cmd.Process.Pid, syscall.SIGKILL) }
	cmd.WaitDelay = 5 * time.Second
}

func runStandalone(bin, dir string, args []string, env []string, patterns ...string) binRun {
	return runStandaloneAt(bin, dir, dir, args, env, patterns...)
}

// runStandaloneAt starts the tool in cwd (inside the module rooted at dir)
func runStandaloneAt(bin, cwd, dir string, args []string, env []string, patterns ...string) binRun {
	if len(patterns) == 0 {
		patterns = []string{"./..."}
	}
	ctx, cancel := context.WithTimeout(context.Background(), binTimeout)
	defer cancel()
	cmd := exec.CommandContext(ctx, bin, append(append([]string{"-json"}, args...), patterns...)...)
	killGroupOnCancel(cmd)
	cmd.Dir = cwd
	cmd.Env = cleanEnv(env...)
	var so, se bytes.Buffer
	cmd.Stdout, cmd.Stderr = &so, &se
	err := cmd.Run()
	r := binRun{stdout: so.String(), stderr: se.String()}
	if ctx.Err() != nil {
		r.stderr += fmt.Sprintf("\nTIMEOUT: the tool did not terminate within %s (killed)\n", binTimeout)
	}
	if ee, ok := err.(*exec.ExitError); ok {
		r.exit = ee.ExitCode()
	} else if err != nil {
		r.exit = -1
	}
	r.diags = parseJSONStream(so.Bytes(), dir)
	return r
}

func runVet(bin, dir string, args []string, env []string, patterns ...string) binRun {
	return runVetAt(bin, dir, dir, args, env, patterns...)
}

// runVetAt starts go vet in cwd; file names are reported relative to dir
func runVetAt(bin, cwd, dir string, args []string, env []string, patterns ...string) binRun {
	if len(patterns) == 0 {
		patterns = []string{"./..."}
	}
	ctx, cancel := context.WithTimeout(context.Background(), binTimeout)
	defer cancel()
	cmd := exec.CommandContext(ctx, "go", append(append([]string{"vet", "-json", "-vettool=" + bin}, args...), patterns...)...)
	killGroupOnCancel(cmd)
	cmd.Dir = cwd
	cmd.Env = cleanEnv(env...)
	var so, se bytes.Buffer
	cmd.Stdout, cmd.Stderr = &so, &se
	err := cmd.Run()
	r := binRun{stdout: so.String(), stderr: se.String()}
	if ctx.Err() != nil {
		r.stderr += fmt.Sprintf("\nTIMEOUT: go vet with the tool did not terminate within %s (killed)\n", binTimeout)
	}
	if ee, ok := err.(*exec.ExitError); ok {
		r.exit = ee.ExitCode()
	} else if err != nil {
		r.exit = -1
	}
	// go vet -json writes "# pkg" comment lines and JSON objects to stderr
	var js bytes.Buffer
	for _, line := range strings.Split(se.String(), "\n") {
		if strings.HasPrefix(line, "#") {
			continue
		}
		js.WriteString(line + "\n")
	}
	r.diags = parseJSONStream(js.Bytes(), dir)
	return r
}

// keys of a run: set of file:line:col:code over regular packages (test variants collapse)
func runKeys(r binRun, filter func(binDiag) bool) []string {
	set := map[string]bool{}
	for _, d := range r.diags {
		if filter == nil || filter(d) {
			set[d.key()] = true
		}
	}
	var l []string
	for k := range set {
		l = append(l, k)
	}
	sort.Strings(l)
	return l
}

func genModule(dir string, r *rng.R, n int, mk func(i int) gen.Options) []genSpec {
	var specs []genSpec
	for i := 0; i < n; i++ {
		o := mk(i)
		o.Root = fmt.Sprintf("k%d", i)
		specs = append(specs, genSpec{seed: r.U64() % 1000000007, o: o})
	}
	if _, err := writeModule(dir, specs); err != nil {
		panic(err)
	}
	return specs
}

// binTimeout bounds one run of the tool over a generated module (normal runs take seconds)
var binTimeout = 12 * time.Minute

func crashed(r binRun) string {
	if i := strings.Index(r.stderr, "TIMEOUT:"); i >= 0 {
		return r.stderr[i:min(len(r.stderr), i+200)]
	}
	if strings.Contains(r.stderr, "panic:") || strings.Contains(r.stderr, "internal error") || strings.Contains(r.stderr, "goroutine ") {
		i := strings.Index(r.stderr, "panic:")
		if i < 0 {
			i = 0
		}
		return r.stderr[i:min(len(r.stderr), i+400)]
	}
	for _, d := range r.diags {
		if d.Code == "ERROR" {
			return "analyzer error: " + d.Message
		}
	}
	return ""
}

func corrBin(o corrOpts) *res.Summary {
	mode := o.extra["mode"]
	sum := &res.Summary{Suite: mode, Tier: o.tier, Seed: o.seed}
	bin := o.extra["binary"]
	if bin == "" {
		sum.Notes = append(sum.Notes, "no binary given")
		return sum
	}
	r := rng.New(o.seed ^ 0xB1A)
	binTimeout = 5 * time.Minute
	if o.tier == "thorough" {
		binTimeout = 15 * time.Minute
	}
	switch mode {
	case "drivers":
		binDrivers(o, sum, r, bin)
	case "exclude":
		binExclude(o, sum, r, bin)
	case "wellformed":
		binWellformed(o, sum, r, bin)
	case "determinism":
		binDeterminism(o, sum, r, bin)
	case "crash":
		binCrash(o, sum, r, bin)
	case "corpus":
		binCorpus(o, sum, r, bin)
	case "excludedir":
		binExcludeDir(o, sum, r, bin)
	default:
		sum.Notes = append(sum.Notes, "unknown mode "+mode)
	}
	return sum
}

// ---------------------------------------------------------------- C06
func binDrivers(o corrOpts, sum *res.Summary, r *rng.R, bin string) {
	n := 24
	if o.tier == "thorough" {
		n = 150
	}
	dir := scratchDir("drv")
	if os.Getenv("GGV_KEEP") == "" {
		defer os.RemoveAll(dir)
	} else {
		fmt.Fprintln(os.Stderr, "kept", dir)
	}
	genModule(dir, r, n, func(i int) gen.Options {
		return gen.Options{Ignores: i%2 == 0, TestFiles: i%3 == 0, Spelling: []int{0, 1, 3}[i%3], ForceTwin: i%2 == 1}
	})
	// a package whose annotations sit in a file chosen by a build constraint (cgo / !cgo): every driver must see the
	// same variant of it (the one the environment selects)
	for name, content := range map[string]string{
		"cgocond/decl/with_cgo.go":    "//go:build cgo\n\npackage decl\n\n// T is annotated in the cgo build only.\n// @immutable\n// @constructor NewT\ntype T struct{ X int }\n",
		"cgocond/decl/without_cgo.go": "//go:build !cgo\n\npackage decl\n\ntype T struct{ X int }\n",
		"cgocond/decl/common.go":      "package decl\n\nfunc NewT() *T { return &T{X: 1} }\n",
		"cgocond/use/use.go":          "package use\n\nimport \"exp/cgocond/decl\"\n\nfunc Use(t *decl.T) {\n\tt.X = 1\n\tt.X++\n\t_ = decl.T{}\n}\n",
	} {
		os.MkdirAll(filepath.Dir(filepath.Join(dir, name)), 0o755)
		os.WriteFile(filepath.Join(dir, name), []byte(content), 0o644)
	}
	notTest := func(d binDiag) bool { return !strings.HasSuffix(d.File, "_test.go") }
	base := runStandalone(bin, dir, nil, nil)
	sum.Evaluations++
	if c := crashed(base); c != "" {
		sum.Disagree(res.Disagreement{Kind: "panic", Input: "standalone ./...", Impl: c, Clause: "C10"})
		return
	}
	baseKeys := runKeys(base, notTest)
	sum.AddN("diagnostics-standalone", len(baseKeys))
	sum.Sample(fmt.Sprintf("standalone ./... => %d diagnostics, e.g. %v", len(baseKeys), baseKeys[:min(3, len(baseKeys))]), 3)
	cmp := func(name string, got []string, restrict func(string) bool) {
		sum.Evaluations++
		sum.Count("mode-" + strings.Fields(name)[0])
		want := baseKeys
		if restrict != nil {
			want = nil
			for _, k := range baseKeys {
				if restrict(k) {
					want = append(want, k)
				}
			}
		}
		if len(got) > 0 {
			sum.DistinctNontrivial++
		}
		a, b := diffSets(want, got)
		if len(a)+len(b) > 0 {
			sum.Disagree(res.Disagreement{Kind: "impl-vs-spec", Input: "drivers seed=" + fmt.Sprint(o.seed) + " " + name, Impl: strings.Join(got, " ")[:min(600, len(strings.Join(got, " ")))], Model: "same as standalone ./...",
				Clause: "C06: diagnostics identical whatever the driver or run set", Details: fmt.Sprintf("only in standalone ./...: %v; only in %s: %v", a[:min(len(a), 5)], name, b[:min(len(b), 5)])})
		}
	}
	// go vet (separate processes, facts through vetx files)
	vet := runVet(bin, dir, nil, nil)
	if c := crashed(vet); c != "" {
		sum.Disagree(res.Disagreement{Kind: "panic", Input: "go vet -vettool ./...", Impl: c, Clause: "C10"})
	} else {
		cmp("govet ./...", runKeys(vet, notTest), nil)
	}
	// leaf packages only / subsets / orders
	pkgs, err := run.Load(dir, false)
	if err != nil {
		sum.Notes = append(sum.Notes, "load failed: "+err.Error()[:min(300, len(err.Error()))])
		return
	}
	var pats []string
	for _, p := range pkgs {
		pats = append(pats, "./"+strings.TrimPrefix(p.PkgPath, "exp/"))
	}
	inPats := func(sel []string) func(string) bool {
		return func(k string) bool {
			for _, s := range sel {
				if strings.HasPrefix(k, strings.TrimPrefix(s, "./")+"/") && !strings.Contains(strings.TrimPrefix(k, strings.TrimPrefix(s, "./")+"/"), "/") {
					return true
				}
			}
			return false
		}
	}
	trials := 6
	if o.tier == "thorough" {
		trials = 60
	}
	for t := 0; t < trials; t++ {
		var sel []string
		switch t % 3 {
		case 0: // one leaf (user) package
			for tries := 0; tries < 20 && len(sel) == 0; tries++ {
				p := rng.Pick(r, pats)
				if strings.Contains(p, "/u") {
					sel = []string{p}
				}
			}
		case 1: // random subset, random order
			for _, p := range pats {
				if r.Chance(1, 4) {
					sel = append(sel, p)
				}
			}
			for i := len(sel) - 1; i > 0; i-- {
				j := r.Intn(i + 1)
				sel[i], sel[j] = sel[j], sel[i]
			}
		default: // everything, reversed
			for i := len(pats) - 1; i >= 0; i-- {
				sel = append(sel, pats[i])
			}
		}
		if len(sel) == 0 {
			continue
		}
		rs := runStandalone(bin, dir, nil, nil, sel...)
		cmp(fmt.Sprintf("standalone-subset(%d pkgs)", len(sel)), runKeys(rs, notTest), inPats(sel))
		if t%3 == 0 {
			rv := runVet(bin, dir, nil, nil, sel...)
			cmp(fmt.Sprintf("govet-subset(%d pkgs)", len(sel)), runKeys(rv, notTest), inPats(sel))
		}
	}
	// a directory-style exclude-paths entry naming a declaring package: the configuration, not the driver or the
	// working directory of the tool process, decides which files are excluded
	{
		var tok string
		for _, p := range pats {
			if strings.Contains(p, "/d0") {
				tok = strings.TrimPrefix(p, "./")
				if r.Chance(1, 2) {
					break
				}
			}
		}
		if tok != "" {
			prog := strings.SplitN(tok, "/", 2)[0]
			env := []string{"GOGREEMENT_EXCLUDE_PATHS=" + tok + "/"}
			saved := baseKeys
			cfgBase := runStandalone(bin, dir, nil, env)
			baseKeys = runKeys(cfgBase, notTest)
			sum.AddN("diagnostics-with-excluded-directory", len(baseKeys))
			for _, k := range baseKeys {
				if strings.HasPrefix(k, tok+"/") {
					sum.Disagree(res.Disagreement{Kind: "impl-vs-spec", Input: "drivers exclude-paths=" + tok + "/ standalone ./...", Impl: k, Model: "no diagnostic in the excluded directory", Clause: "C14 / C06"})
				}
			}
			inProg := func(k string) bool { return strings.HasPrefix(k, prog+"/") }
			// go vet caches facts per package under a key that includes the tool's flags but not GOGREEMENT_* variables:
			// a junk exclude-checks token (excludes nothing) makes this configuration a key of its own
			cmp("govet-excluded-dir ./"+prog+"/...", runKeys(runVet(bin, dir, []string{"-config.exclude-checks=ZZCACHEKEY1"}, env, "./"+prog+"/..."), notTest), inProg)
			cmp("standalone-from-subdir "+prog, runKeys(runStandaloneAt(bin, filepath.Join(dir, prog), dir, nil, env, "./..."), notTest), inProg)
			cmp("standalone-from-excluded-dir "+tok, runKeys(runStandaloneAt(bin, filepath.Join(dir, tok), dir, nil, env, "exp/"+prog+"/..."), notTest), inProg)
			baseKeys = saved
		}
	}
	// scan-tests switched on through the environment only: diagnostics inside test files, under both drivers
	{
		env := []string{"GOGREEMENT_SCAN_TESTS=true"}
		var sub string
		for _, p := range pats {
			if strings.Contains(p, "/u") || strings.Contains(p, "/d0") {
				sub = "./" + strings.SplitN(strings.TrimPrefix(p, "./"), "/", 2)[0] + "/..."
				break
			}
		}
		// a program generated with test files
		for i := 0; i < n; i += 3 {
			sub = fmt.Sprintf("./k%d/...", i)
			break
		}
		saved := baseKeys
		byEnv := runStandalone(bin, dir, nil, env, sub)
		baseKeys = runKeys(byEnv, nil)
		inTests := 0
		for _, k := range baseKeys {
			if strings.Contains(k, "_test.go:") {
				inTests++
			}
		}
		sum.AddN("diagnostics-in-test-files-scan-tests-env", inTests)
		cmp("govet-scan-tests-env "+sub, runKeys(runVet(bin, dir, []string{"-config.exclude-checks=ZZCACHEKEY2"}, env, sub), nil), nil)
		cmp("standalone-scan-tests-flag "+sub, runKeys(runStandalone(bin, dir, []string{"-config.scan-tests=true"}, nil, sub), nil), nil)
		baseKeys = saved
	}
	// in-process, with the checker's fact sanity check (gob round trip of every fact)
	var roots []*packages.Package
	for _, p := range pkgs {
		roots = append(roots, p)
	}
	resSan, err := run.Analyze(roots, false, true)
	if err == nil {
		set := map[string]bool{}
		for _, pr := range resSan {
			for _, e := range pr.Errors {
				sum.Disagree(res.Disagreement{Kind: "panic", Input: "in-process sanity-check " + pr.ID, Impl: e, Clause: "C06 facts_serialisable / C10"})
			}
			for _, d := range pr.Diags {
				rel, _ := filepath.Rel(dir, d.AdjFile)
				set[fmt.Sprintf("%s:%d:%d:%s", rel, d.AdjLine, d.AdjCol, d.Code)] = true
			}
		}
		var l []string
		for k := range set {
			l = append(l, k)
		}
		sort.Strings(l)
		cmp("inprocess-sanitycheck ./...", l, nil)
	}
	// module boundary: a declaring package that imports nothing is turned into a module of its own (nested go.mod,
	// require + replace in the main module): same import path, same files, another module. Its importers must get the
	// diagnostics they got when everything was one module, under both drivers.
	{
		moved := 0
		for i := 0; i < n && moved < 2; i++ {
			prog := fmt.Sprintf("k%d", i)
			d0 := filepath.Join(dir, prog, "d0")
			ents, err := os.ReadDir(d0)
			if err != nil {
				continue
			}
			selfContained := true
			for _, e := range ents {
				b, _ := os.ReadFile(filepath.Join(d0, e.Name()))
				if strings.Contains(string(b), "\"exp/") || strings.HasSuffix(e.Name(), "_test.go") {
					selfContained = false
				}
			}
			if !selfContained {
				continue
			}
			moved++
			mainMod, _ := os.ReadFile(filepath.Join(dir, "go.mod"))
			modPath := "exp/" + prog + "/d0"
			os.WriteFile(filepath.Join(d0, "go.mod"), []byte("module "+modPath+"\n\ngo 1.25\n"), 0o644)
			os.WriteFile(filepath.Join(dir, "go.mod"), []byte(string(mainMod)+"\nrequire "+modPath+" v0.0.0\n\nreplace "+modPath+" => ./"+prog+"/d0\n"), 0o644)
			inProg := func(k string) bool { return strings.HasPrefix(k, prog+"/") && !strings.HasPrefix(k, prog+"/d0/") }
			rs := runStandalone(bin, dir, nil, nil, "./"+prog+"/...")
			if c := crashed(rs); c != "" {
				sum.Notes = append(sum.Notes, "module-boundary run failed: "+c[:min(len(c), 200)])
			} else {
				cmp("standalone-other-module "+modPath, runKeys(rs, notTest), inProg)
				rv := runVet(bin, dir, []string{"-config.exclude-checks=ZZCACHEKEY3"}, nil, "./"+prog+"/...")
				cmp("govet-other-module "+modPath, runKeys(rv, notTest), inProg)
			}
			os.Remove(filepath.Join(d0, "go.mod"))
			os.WriteFile(filepath.Join(dir, "go.mod"), mainMod, 0o644)
		}
		sum.AddN("declaring-packages-moved-to-another-module", moved)
		// … and the other way round: a user package becomes a module of its own that requires the main module, so the
		// annotated packages it imports lie outside the module being analysed
		movedUsers := 0
		for i := 0; i < n && movedUsers < 3; i++ {
			prog := fmt.Sprintf("k%d", i)
			ents, _ := filepath.Glob(filepath.Join(dir, prog, "u*", "*"))
			for _, u := range ents {
				if st, err := os.Stat(u); err != nil || !st.IsDir() {
					continue
				}
				relDir, _ := filepath.Rel(dir, u)
				rel := filepath.ToSlash(relDir) + "/"
				any := false
				for _, k := range baseKeys {
					if strings.HasPrefix(k, rel) && !strings.Contains(strings.TrimPrefix(k, rel), "/") {
						any = true
					}
				}
				if !any {
					continue
				}
				movedUsers++
				os.WriteFile(filepath.Join(u, "go.mod"), []byte("module exp/"+strings.TrimSuffix(rel, "/")+"\n\ngo 1.25\n\nrequire exp v0.0.0\n\nreplace exp => ../../..\n"), 0o644)
				here := func(k string) bool {
					return strings.HasPrefix(k, rel) && !strings.Contains(strings.TrimPrefix(k, rel), "/")
				}
				rs := runStandaloneAt(bin, u, dir, nil, nil, ".")
				if c := crashed(rs); c != "" {
					sum.Notes = append(sum.Notes, "user-module run failed: "+c[:min(len(c), 200)])
				} else {
					cmp("standalone-user-in-own-module "+rel, runKeys(rs, notTest), here)
					cmp("govet-user-in-own-module "+rel, runKeys(runVetAt(bin, u, dir, []string{"-config.exclude-checks=ZZCACHEKEY4"}, nil, "."), notTest), here)
				}
				os.Remove(filepath.Join(u, "go.mod"))
				break
			}
		}
		sum.AddN("user-packages-moved-to-another-module", movedUsers)
	}
	sum.Rule = "generated import DAGs (declaring packages importing each other, user packages importing them; annotation values across the grammar) analysed by: standalone ./..., go vet -vettool (facts via vetx files), leaf-only and random subsets/orders of packages under both drivers, in-process with the checker's gob sanity check; plus, under an exclude-paths entry naming a declaring package's directory: go vet, and standalone runs started from the program's directory and from inside the excluded directory; a declaring package, and a user package, moved into a module of its own (nested go.mod + replace), both drivers; the normalised (file:line:col:code) sets must all equal the standalone ./... set restricted to the named packages; non-trivial = run with diagnostics"
}

// ---------------------------------------------------------------- C08
func allCodesDir() (string, func()) {
	verif := verifDir()
	d := scratchDir("allcodes")
	exec.Command("cp", "-r", filepath.Join(verif, "corpus", "allcodes")+"/.", d).Run()
	return d, func() { os.RemoveAll(d) }
}

func binExclude(o corrOpts, sum *res.Summary, r *rng.R, bin string) {
	dir, cleanup := allCodesDir()
	defer cleanup()
	// add generated programs so that every code occurs many times, under @ignore comments too
	genModule(dir, r, 6, func(i int) gen.Options { return gen.Options{Ignores: i%2 == 0} })
	base := runStandalone(bin, dir, nil, nil)
	if c := crashed(base); c != "" {
		sum.Disagree(res.Disagreement{Kind: "panic", Input: "standalone ./...", Impl: c, Clause: "C10"})
		return
	}
	seen := map[string]bool{}
	for _, d := range base.diags {
		seen[d.Code] = true
	}
	var all []string
	cats := []string{}
	for cat, cs := range codes.CodesByCategory {
		cats = append(cats, cat)
		for _, c := range cs {
			all = append(all, c.ID)
			if !seen[c.ID] {
				sum.Notes = append(sum.Notes, "code "+c.ID+" not produced by the probe programs")
			}
		}
	}
	sort.Strings(all)
	sort.Strings(cats)
	junk := []string{"IMM0", "ct", "junk", "P", "TON", "CTOR0", "imm001", "X", "I", "ALLL", "AL", "IMM 01", "ctor 02", "not all", "TONL\t03", "IMM;IMM01", "ALL."}
	// hierarchy from the model (regenerated table)
	hierOf := map[string][]string{}
	{
		var reqs []string
		for _, c := range all {
			reqs = append(reqs, "iset hier "+c)
		}
		reps, err := mdl.Ask(reqs)
		if err != nil {
			panic(err)
		}
		for i, c := range all {
			hierOf[c] = strings.Split(reps[i], "+")
		}
	}
	n := 40
	if o.tier == "thorough" {
		n = 600
	}
	var sets [][]string
	for _, c := range append(append(append([]string{"ALL"}, cats...), all...), junk...) {
		sets = append(sets, []string{c})
	}
	for len(sets) < n+len(all)+len(cats)+len(junk)+1 {
		var s []string
		pool := append(append(append([]string{"ALL"}, cats...), all...), junk...)
		for k := 1 + r.Intn(4); k > 0; k-- {
			s = append(s, rng.Pick(r, pool))
		}
		sets = append(sets, s)
	}
	// structured sets: a category spelled out code by code, complete or with one code left out, with repeats
	// (a list with as many tokens as the category has codes is not the category)
	var structured [][]string
	for _, cat := range cats {
		var cs []string
		for _, c := range codes.CodesByCategory[cat] {
			cs = append(cs, c.ID)
		}
		sort.Strings(cs)
		structured = append(structured, append([]string{}, cs...))
		for omit := range cs {
			var s []string
			for k, c := range cs {
				if k != omit {
					s = append(s, c)
				}
			}
			if len(s) == 0 {
				continue
			}
			s = append(s, s[r.Intn(len(s))]) // a repeat makes up the count
			if r.Bool() {
				s = append(s, s[0])
			}
			structured = append(structured, s)
		}
	}
	// ALL together with other tokens (ALL still excludes everything), and repeated
	for _, other := range []string{"IMM01", "imm", "XYZ", "ALL", "CTOR02", "TONL", "junk"} {
		if r.Bool() {
			structured = append(structured, []string{"ALL", other})
		} else {
			structured = append(structured, []string{other, "ALL"})
		}
	}
	// a category together with one of its own codes, in both orders (the code adds nothing, whatever its place), alone
	// and behind another category
	var redundant [][]string
	for k, cat := range cats {
		cs := codes.CodesByCategory[cat]
		c1, c2 := cs[r.Intn(len(cs))].ID, cs[r.Intn(len(cs))].ID
		redundant = append(redundant, []string{cat, c1}, []string{c2, cat})
		if o.tier == "thorough" || k%2 == int(o.seed)%2 {
			redundant = append(redundant, []string{cats[(k+1)%len(cats)], cat, c1})
		}
	}
	if o.tier != "thorough" {
		// quick: every singleton of ALL / categories / codes, a third of the structured sets, a sample of the rest
		var q [][]string
		for i, s := range sets {
			if i < 1+len(cats)+len(all) || r.Chance(1, 4) {
				q = append(q, s)
			}
		}
		sets = q[:min(len(q), n)]
		for i, s := range structured {
			if (i+int(o.seed))%3 == 0 {
				sets = append(sets, s)
			}
		}
	} else {
		sets = append(sets, structured...)
	}
	sets = append(sets, redundant...)
	// every name of the table entirely in lower case, and in a mixed case of its own ("=": taken verbatim)
	for _, c := range append(append([]string{"ALL"}, cats...), all...) {
		sets = append(sets, []string{"=" + strings.ToLower(c)})
		mixed := []byte(strings.ToLower(c))
		k := r.Intn(len(mixed))
		mixed[k] = strings.ToUpper(string(mixed[k]))[0]
		if o.tier == "thorough" || r.Chance(1, 3) {
			sets = append(sets, []string{"=" + string(mixed)})
		}
	}
	for i, S := range sets {
		// spelling: random case and spacing
		var parts []string
		for k, t := range S {
			if strings.HasPrefix(t, "=") {
				t = t[1:]
				S[k] = t
				parts = append(parts, t)
				continue
			}
			switch r.Intn(4) {
			case 0:
				t = strings.ToLower(t)
			case 1:
				// letter by letter
				bs := []byte(t)
				for j := range bs {
					if r.Bool() {
						bs[j] = strings.ToLower(string(bs[j]))[0]
					}
				}
				t = string(bs)
			}
			switch r.Intn(5) {
			case 1:
				t = " " + t + " "
			case 2:
				t = "\t" + t
			case 3:
				t = t + rng.Pick(r, []string{"\n", "\r\n", " \t", "\f", "\v"})
			}
			parts = append(parts, t)
		}
		val := strings.Join(parts, ",")
		var got binRun
		how := "flag"
		if i%2 == 0 {
			got = runStandalone(bin, dir, []string{"-config.exclude-checks=" + val}, nil)
		} else {
			how = "env"
			got = runStandalone(bin, dir, nil, []string{"GOGREEMENT_EXCLUDE_CHECKS=" + val})
		}
		sum.Evaluations++
		sum.Count("by-" + how)
		if c := crashed(got); c != "" {
			sum.Disagree(res.Disagreement{Kind: "panic", Input: how + " exclude-checks=" + val, Impl: c, Clause: "C10/C18"})
			continue
		}
		matched := func(code string) bool {
			for _, t := range hierOf[code] {
				for _, s := range S {
					if strings.ToUpper(strings.TrimSpace(s)) == t {
						return true
					}
				}
			}
			return false
		}
		var want []string
		for _, k := range runKeys(base, nil) {
			code := k[strings.LastIndexByte(k, ':')+1:]
			if !matched(code) {
				want = append(want, k)
			}
		}
		gotKeys := runKeys(got, nil)
		if len(want) != len(runKeys(base, nil)) {
			sum.DistinctNontrivial++
		}
		a, b := diffSets(want, gotKeys)
		if len(a)+len(b) > 0 {
			sum.Disagree(res.Disagreement{Kind: "impl-vs-spec", Input: fmt.Sprintf("exclude seed=%d %s exclude-checks=%q", o.seed, how, val), Impl: fmt.Sprintf("%d diagnostics", len(gotKeys)), Model: fmt.Sprintf("%d diagnostics", len(want)),
				Clause:  "C08: exactly the unrestricted diagnostics whose code is not matched under ALL > category > code (GGV.Props.C08.exclude_filter_report / exclude_commutes_with_dedup)",
				Details: fmt.Sprintf("should have stayed but missing: %v; should have been excluded but reported: %v", a[:min(len(a), 4)], b[:min(len(b), 4)])})
		}
		if i < 2 {
			sum.Sample(fmt.Sprintf("%s exclude-checks=%q: %d of %d diagnostics remain", how, val, len(gotKeys), len(base.diags)), 4)
		}
	}
	sum.Rule = "the real binary on a module producing all 16 codes (hand-written + generated programs, with @ignore comments) under exclusion sets drawn from {ALL, 5 categories, 16 codes, junk tokens incl. proper prefixes of codes} in random case/spacing, by flag and by environment; result must equal the unrestricted run filtered by the hierarchy of the regenerated code table; non-trivial = the set excludes something"
}

// ---------------------------------------------------------------- C17
func binWellformed(o corrOpts, sum *res.Summary, r *rng.R, bin string) {
	dir, cleanup := allCodesDir()
	defer cleanup()
	n := 8
	if o.tier == "thorough" {
		n = 80
	}
	genModule(dir, r, n, func(i int) gen.Options { return gen.Options{Ignores: i%3 == 0, TestFiles: i%2 == 0} })
	base := runStandalone(bin, dir, nil, nil)
	if c := crashed(base); c != "" {
		sum.Disagree(res.Disagreement{Kind: "panic", Input: "standalone ./...", Impl: c, Clause: "C10"})
		return
	}
	catOfAnalyzer := map[string]string{"immutabilitychecker": "IMM", "constructorchecker": "CTOR", "testonlychecker": "TONL", "packageonlychecker": "PKGO", "implementschecker": "IMPL"}
	known := map[string]string{}
	for cat, cs := range codes.CodesByCategory {
		for _, c := range cs {
			known[c.ID] = cat
		}
	}
	// documentation URL per code from the model (regenerated T2)
	urlOf := map[string]string{}
	{
		var reqs, ids []string
		for c := range known {
			reqs = append(reqs, "tables docurl "+c)
			ids = append(ids, c)
		}
		reps, err := mdl.Ask(reqs)
		if err != nil {
			panic(err)
		}
		for i, c := range ids {
			urlOf[c] = reps[i]
		}
	}
	headRe := regexp.MustCompile(`^error: \[([A-Za-z0-9]+)\] `)
	for _, d := range base.diags {
		sum.Evaluations++
		sum.Count("code-" + d.Code)
		bad := ""
		m := headRe.FindStringSubmatch(d.Message)
		switch {
		case m == nil:
			bad = "message does not start with `error: [CODE] `"
		case known[m[1]] == "":
			bad = "code " + m[1] + " is not in the documented table"
		case catOfAnalyzer[d.Analyzer] != known[m[1]]:
			bad = fmt.Sprintf("code %s reported by analyzer %s", m[1], d.Analyzer)
		case strings.HasSuffix(d.File, "_test.go") || strings.Contains(d.File, "testdata"):
			bad = "located in an excluded file " + d.File
		case strings.HasPrefix(d.File, "..") || filepath.IsAbs(d.File):
			bad = "located outside the analysed module: " + d.File
		}
		if bad == "" {
			// other table codes in brackets in the header line (the code may repeat itself)
			head := strings.SplitN(d.Message, "\n", 2)[0]
			for _, mm := range codeRe.FindAllStringSubmatch(head, -1) {
				if mm[1] != m[1] && known[mm[1]] != "" {
					bad = "header shows a second code " + mm[1]
				}
			}
			if strings.Contains(d.Message, "= help: ") {
				i := strings.Index(d.Message, "= help: ")
				u := strings.TrimSpace(strings.SplitN(d.Message[i+8:], "\n", 2)[0])
				if u != urlOf[m[1]] {
					bad = fmt.Sprintf("help link %q, the category's page is %q", u, urlOf[m[1]])
				}
			} else {
				bad = "no documentation link in the message"
			}
		}
		if bad != "" {
			sum.Disagree(res.Disagreement{Kind: "impl-vs-spec", Input: fmt.Sprintf("wellformed seed=%d %s", o.seed, d.key()), Impl: strings.SplitN(d.Message, "\n", 2)[0], Model: "well-formed diagnostic", Clause: "C17: " + bad})
		}
	}
	sum.DistinctNontrivial = len(sum.Distribution)
	var inTestFiles []binDiag
	// under scan-tests + custom exclude-paths: still no diagnostic inside an excluded file
	{
		alt := runStandalone(bin, dir, []string{"-config.scan-tests=true", "-config.exclude-paths=zz_,in_test"}, nil)
		for _, d := range alt.diags {
			if strings.HasSuffix(d.File, "_test.go") {
				inTestFiles = append(inTestFiles, d)
			}
		}
		if c := crashed(alt); c != "" {
			sum.Disagree(res.Disagreement{Kind: "panic", Input: "standalone scan-tests + exclude-paths", Impl: c, Clause: "C10"})
		}
		for _, d := range alt.diags {
			sum.Evaluations++
			sum.Count("alt-config-diagnostics")
			if strings.Contains(filepath.Join(dir, d.File), "zz_") || strings.Contains(filepath.Join(dir, d.File), "in_test") {
				sum.Disagree(res.Disagreement{Kind: "impl-vs-spec", Input: fmt.Sprintf("wellformed seed=%d [scan-tests=true exclude-paths=zz_,in_test] %s", o.seed, d.key()), Impl: d.File, Model: "a non-excluded file",
					Clause: "C17: every diagnostic is positioned inside a non-excluded file of the package being analysed"})
			}
			if strings.HasSuffix(d.File, "_test.go") && strings.HasPrefix(d.Code, "TONL") {
				sum.Disagree(res.Disagreement{Kind: "impl-vs-spec", Input: fmt.Sprintf("wellformed seed=%d [scan-tests=true] %s", o.seed, d.key()), Impl: d.File, Model: "no TONL in test files", Clause: "C17 / C14"})
			}
		}
	}
	// an exclude-paths entry anchored with separators that names a directory directly below the module root
	{
		alt := runStandalone(bin, dir, []string{"-config.exclude-paths=testdata,/k0/"}, nil)
		for _, d := range alt.diags {
			sum.Evaluations++
			sum.Count("anchored-entry-diagnostics")
			if strings.HasPrefix(d.File, "k0/") {
				sum.Disagree(res.Disagreement{Kind: "impl-vs-spec", Input: fmt.Sprintf("wellformed seed=%d [exclude-paths=testdata,/k0/] %s", o.seed, d.key()), Impl: d.File, Model: "a non-excluded file",
					Clause: "C17: every diagnostic is positioned inside a non-excluded file of the package being analysed"})
				break
			}
		}
	}
	// exit status in text mode
	for _, sub := range []string{"./...", "./impl", "./d"} {
		cmd := exec.Command(bin, sub)
		cmd.Dir = dir
		cmd.Env = cleanEnv()
		out, _ := cmd.CombinedOutput()
		exit := 0
		if cmd.ProcessState != nil {
			exit = cmd.ProcessState.ExitCode()
		}
		printed := strings.Contains(string(out), "error: [")
		sum.Evaluations++
		sum.Count("exit-status-check")
		if printed != (exit != 0) || (exit != 0 && exit != 3) {
			sum.Disagree(res.Disagreement{Kind: "impl-vs-spec", Input: "text mode " + sub, Impl: fmt.Sprintf("exit %d, diagnostics printed: %v", exit, printed), Model: "exit non-zero (3) exactly when a diagnostic is printed", Clause: "C17 exit status"})
		}
	}
	// inline @ignore removal: append `// @ignore CODE` to the diagnostic's line, re-run, exactly that diagnostic disappears
	k := 12
	if o.tier == "thorough" {
		k = 200
	}
	cands := append([]binDiag(nil), base.diags...)
	for i := len(cands) - 1; i > 0; i-- {
		j := r.Intn(i + 1)
		cands[i], cands[j] = cands[j], cands[i]
	}
	// first the hand-written module's 16 codes, then random ones
	sort.SliceStable(cands, func(i, j int) bool {
		return !strings.HasPrefix(cands[i].File, "k") && strings.HasPrefix(cands[j].File, "k")
	})
	done := 0
	for _, d := range cands {
		// every diagnostic of the hand-written module (nested and multi-line statements included), then k generated ones
		if done >= k && strings.HasPrefix(d.File, "k") {
			break
		}
		if d.Code == "" || d.File == "" {
			continue
		}
		path := filepath.Join(dir, d.File)
		orig, err := os.ReadFile(path)
		if err != nil {
			continue
		}
		lines := strings.Split(string(orig), "\n")
		if d.Line < 1 || d.Line > len(lines) || strings.Contains(lines[d.Line-1], "//") {
			continue // the line already carries a line comment: an appended one would merge into it
		}
		if d.Col == 0 || strings.Contains(string(orig), "\n//line ") {
			continue // the position went through a //line directive: "its line" is not the physical line of that number
		}
		// more than one diagnostic of that code on the line: the inline comment removes all of them (allowed)
		lines[d.Line-1] += " // @ignore " + d.Code
		os.WriteFile(path, []byte(strings.Join(lines, "\n")), 0o644)
		pat := "./" + filepath.Dir(d.File)
		got := runStandalone(bin, dir, nil, nil, pat)
		os.WriteFile(path, orig, 0o644)
		if strings.HasPrefix(d.File, "k") {
			done++
		}
		sum.Evaluations++
		sum.Count("inline-ignore-" + d.Code)
		if c := crashed(got); c != "" {
			sum.Disagree(res.Disagreement{Kind: "panic", Input: "inline ignore at " + d.key(), Impl: c, Clause: "C10"})
			continue
		}
		pkgDir := filepath.Dir(d.File)
		var before []string
		for _, b := range base.diags {
			if filepath.Dir(b.File) == pkgDir {
				before = append(before, b.key())
			}
		}
		before = uniqSorted(before)
		after := runKeys(got, nil)
		removed, added := diffSets(before, after)
		ok := true
		why := ""
		for _, x := range removed {
			// removed diagnostics must be on that line with that code
			if !strings.HasPrefix(x, fmt.Sprintf("%s:%d:", d.File, d.Line)) || !strings.HasSuffix(x, ":"+d.Code) {
				ok, why = false, "also removed "+x
			}
		}
		stillThere := false
		for _, x := range after {
			if x == d.key() {
				stillThere = true
			}
		}
		if stillThere {
			ok, why = false, "the diagnostic is still reported"
		}
		for _, x := range added {
			// once-per-file re-report: same code TONL01/PKGO01, same file
			if !((d.Code == "TONL01" || d.Code == "PKGO01") && strings.HasSuffix(x, ":"+d.Code) && strings.HasPrefix(x, d.File+":")) {
				ok, why = false, "new diagnostic "+x
			}
		}
		if !ok {
			sum.Disagree(res.Disagreement{Kind: "impl-vs-spec", Input: fmt.Sprintf("wellformed seed=%d inline-ignore %s line=%q", o.seed, d.key(), strings.TrimSpace(lines[d.Line-1])), Impl: strings.Join(after, " ")[:min(400, len(strings.Join(after, " ")))], Model: "before minus that diagnostic (up to once-per-file re-reporting)",
				Clause: "C17: appending `// @ignore CODE` with the displayed code to its line removes it and nothing else (GGV.Props.C17.inline_ignore_removes)", Details: why})
		}
	}
	// the same with the line inside a declaration-independent enclosing scope of a sibling code: the file starts with
	// `// @ignore <another code of the category>`; and for diagnostics inside test files under scan-tests
	sibling := func(code string) string {
		for _, c := range codes.CodesByCategory[known[code]] {
			if c.ID != code {
				return c.ID
			}
		}
		return ""
	}
	probe := func(d binDiag, flags []string, fileIgnore string, what string) {
		path := filepath.Join(dir, d.File)
		orig, err := os.ReadFile(path)
		if err != nil {
			return
		}
		lines := strings.Split(string(orig), "\n")
		if d.Line < 1 || d.Line > len(lines) || strings.Contains(lines[d.Line-1], "//") || d.Col == 0 || strings.Contains(string(orig), "\n//line ") {
			return
		}
		lines[d.Line-1] += " // @ignore " + d.Code
		text := strings.Join(lines, "\n")
		shift := 0
		if fileIgnore != "" {
			text = "// @ignore " + fileIgnore + "\n" + text
			shift = 1
		}
		os.WriteFile(path, []byte(text), 0o644)
		got := runStandalone(bin, dir, flags, nil, "./"+filepath.Dir(d.File))
		os.WriteFile(path, orig, 0o644)
		sum.Evaluations++
		sum.Count(what + "-" + d.Code)
		if c := crashed(got); c != "" {
			sum.Disagree(res.Disagreement{Kind: "panic", Input: what + " at " + d.key(), Impl: c, Clause: "C10"})
			return
		}
		want := fmt.Sprintf("%s:%d:%d:%s", d.File, d.Line+shift, d.Col, d.Code)
		for _, x := range runKeys(got, nil) {
			if x == want {
				sum.Disagree(res.Disagreement{Kind: "impl-vs-spec", Input: fmt.Sprintf("wellformed seed=%d %s %s flags=%v file-level=%q line=%q", o.seed, what, d.key(), flags, fileIgnore, strings.TrimSpace(lines[d.Line-1])), Impl: "still reported: " + x, Model: "not reported",
					Clause: "C17: appending `// @ignore CODE` with the displayed code to its line removes it (GGV.Props.C17.inline_ignore_removes)"})
			}
		}
	}
	sib := 0
	for _, d := range cands {
		if sib >= k/2 && strings.HasPrefix(d.File, "k") {
			break
		}
		if d.Code == "" || d.File == "" || sibling(d.Code) == "" {
			continue
		}
		if strings.HasPrefix(d.File, "k") {
			sib++
		}
		probe(d, nil, sibling(d.Code), "inline-ignore-under-sibling-scope")
	}
	for i := len(inTestFiles) - 1; i > 0; i-- {
		j := r.Intn(i + 1)
		inTestFiles[i], inTestFiles[j] = inTestFiles[j], inTestFiles[i]
	}
	for _, d := range inTestFiles[:min(len(inTestFiles), k/2)] {
		probe(d, []string{"-config.scan-tests=true", "-config.exclude-paths=zz_,in_test"}, "", "inline-ignore-in-test-file")
	}
	sum.Rule = "every diagnostic of the all-codes module and generated programs (-json): header `error: [CODE] `, code in the table, analyzer of that category, file inside the module and not excluded, help link = the category's page per the regenerated table; text-mode exit status vs printed diagnostics; for a sample of diagnostics (all 16 codes first) the source line gets `// @ignore CODE` appended and the package is re-analysed: exactly that diagnostic disappears (up to once-per-file re-reporting); the same below a file-level @ignore of a sibling code, and for diagnostics in test files under scan-tests; non-trivial = distinct codes/checks seen"
}

func uniqSorted(l []string) []string {
	sort.Strings(l)
	var out []string
	for i, x := range l {
		if i == 0 || l[i-1] != x {
			out = append(out, x)
		}
	}
	return out
}

// ---------------------------------------------------------------- C11
func binDeterminism(o corrOpts, sum *res.Summary, r *rng.R, bin string) {
	n := 10
	if o.tier == "thorough" {
		n = 60
	}
	dir := scratchDir("det")
	defer os.RemoveAll(dir)
	exec.Command("cp", "-r", filepath.Join(verifDir(), "corpus", "allcodes")+"/.", dir).Run()
	genModule(dir, r, n, func(i int) gen.Options { return gen.Options{Ignores: i%2 == 0, Spelling: []int{0, 1}[i%2]} })
	norm := func(rn binRun) string {
		var l []string
		for _, d := range rn.diags {
			l = append(l, d.key()+"|"+d.Message)
		}
		sort.Strings(l)
		return strings.Join(l, "\n")
	}
	ref := runStandalone(bin, dir, nil, nil)
	if c := crashed(ref); c != "" {
		sum.Disagree(res.Disagreement{Kind: "panic", Input: "standalone ./...", Impl: c, Clause: "C10"})
		return
	}
	refN := norm(ref)
	sum.Sample(fmt.Sprintf("reference run: %d diagnostics", len(ref.diags)), 2)
	pkgs, _ := run.Load(dir, false)
	var pats []string
	for _, p := range pkgs {
		pats = append(pats, "./"+strings.TrimPrefix(p.PkgPath, "exp/"))
	}
	type variant struct {
		name string
		args []string
		env  []string
		pats []string
	}
	var vs []variant
	reps := 4
	if o.tier == "thorough" {
		reps = 20
	}
	for i := 0; i < reps; i++ {
		vs = append(vs, variant{fmt.Sprintf("repeat-%d", i), nil, nil, nil})
	}
	vs = append(vs, variant{"sequential(-debug=p)", []string{"-debug=p"}, nil, nil},
		variant{"GOMAXPROCS=1", nil, []string{"GOMAXPROCS=1"}, nil},
		variant{"GOMAXPROCS=16", nil, []string{"GOMAXPROCS=16"}, nil})
	for i := 0; i < reps/2+1; i++ {
		perm := append([]string(nil), pats...)
		for a := len(perm) - 1; a > 0; a-- {
			b := r.Intn(a + 1)
			perm[a], perm[b] = perm[b], perm[a]
		}
		vs = append(vs, variant{fmt.Sprintf("permuted-%d", i), nil, nil, perm})
	}
	mismatch := false
	for _, v := range vs {
		rn := runStandalone(bin, dir, v.args, v.env, v.pats...)
		sum.Evaluations++
		sum.Count(strings.SplitN(v.name, "-", 2)[0])
		if c := crashed(rn); c != "" {
			sum.Disagree(res.Disagreement{Kind: "panic", Input: v.name, Impl: c, Clause: "C10"})
			continue
		}
		if got := norm(rn); got != refN {
			mismatch = true
			a, b := diffSets(strings.Split(refN, "\n"), strings.Split(got, "\n"))
			sum.Disagree(res.Disagreement{Kind: "impl-vs-spec", Input: fmt.Sprintf("determinism seed=%d %s", o.seed, v.name), Impl: fmt.Sprintf("%d diagnostics", len(rn.diags)), Model: fmt.Sprintf("%d diagnostics (reference run)", len(ref.diags)),
				Clause: "C11: identical diagnostics and texts across repeated / sequential / permuted / differently scheduled runs", Details: fmt.Sprintf("only in reference: %.300v; only in %s: %.300v", a, v.name, b)})
		} else {
			sum.DistinctNontrivial++
		}
	}
	// unrelated packages alongside: each program alone vs inside the full run
	for i := 0; i < min(3, n); i++ {
		root := fmt.Sprintf("k%d", i)
		alone := runStandalone(bin, dir, nil, nil, "./"+root+"/...")
		sum.Evaluations++
		sum.Count("alone-vs-together")
		var want []string
		for _, d := range ref.diags {
			if strings.HasPrefix(d.File, root+"/") {
				want = append(want, d.key()+"|"+d.Message)
			}
		}
		sort.Strings(want)
		if got := norm(alone); got != strings.Join(want, "\n") {
			mismatch = true
			sum.Disagree(res.Disagreement{Kind: "impl-vs-spec", Input: fmt.Sprintf("determinism seed=%d program %s alone vs together", o.seed, root), Impl: fmt.Sprintf("%d", len(alone.diags)), Model: fmt.Sprintf("%d", len(want)), Clause: "C11: whether or not unrelated packages are analysed in the same run"})
		}
	}
	{
		// the race detector build: runs in every tier (the build is cached by go build after the first time)
		raceBin := filepath.Join(scratchDir("race"), "gogreement-race")
		defer os.RemoveAll(filepath.Dir(raceBin))
		repo := os.Getenv("GGV_REPO")
		if repo == "" {
			repo = "/repo"
		}
		cmd := exec.Command("go", "build", "-race", "-o", raceBin, "./cmd/gogreement")
		cmd.Dir = repo
		cmd.Env = cleanEnv("CGO_ENABLED=1")
		if out, err := cmd.CombinedOutput(); err != nil {
			sum.Notes = append(sum.Notes, "race build unavailable: "+string(out)[:min(200, len(out))])
		} else {
			raceRuns := 4
			if mismatch || o.tier == "thorough" {
				raceRuns = 10
			}
			// a module in which every package has @ignore markers and diagnostics of several checkers: the five
			// checkers of a package share its ignore set and run concurrently
			raceDir := scratchDir("racemod")
			defer os.RemoveAll(raceDir)
			genModule(raceDir, r, 24, func(i int) gen.Options { return gen.Options{Ignores: true, TestFiles: i%4 == 0} })
			// … and @implements scenarios (imports in source order, several checkers of a package reading its imports)
			{
				var specs []genSpec
				for i := 0; i < 8; i++ {
					specs = append(specs, genSpec{seed: r.U64() % 1000000007, o: gen.Options{Root: fmt.Sprintf("i%d", i)}, impl: true})
				}
				mods := map[string]*gen.Module{}
				for _, sp := range specs {
					mods[sp.o.Root] = gen.GenerateImpl(sp.seed, sp.o.Root)
				}
				for _, m := range mods {
					for name, content := range m.Files {
						if name == "go.mod" {
							continue
						}
						os.MkdirAll(filepath.Dir(filepath.Join(raceDir, name)), 0o755)
						os.WriteFile(filepath.Join(raceDir, name), []byte(content), 0o644)
					}
				}
			}
			for i := 0; i < raceRuns; i++ {
				d := raceDir
				if i == raceRuns-1 {
					d = dir
				}
				rr := runStandalone(raceBin, d, nil, nil)
				sum.Evaluations++
				sum.Count("race-detector-run")
				if strings.Contains(rr.stderr, "DATA RACE") {
					j := strings.Index(rr.stderr, "WARNING: DATA RACE")
					sum.Disagree(res.Disagreement{Kind: "impl-vs-spec", Input: fmt.Sprintf("determinism seed=%d race-detector run %d", o.seed, i), Impl: rr.stderr[j:min(len(rr.stderr), j+900)], Model: "no data race", Clause: "C11: concurrent analysis of packages has no data races"})
					break
				}
			}
		}
	}
	// import-order stress: sixteen small packages that each import a package with very large facts BEFORE a small
	// annotated one (import declarations not in path order), carry an @implements annotation and violate the small
	// package's annotations. All five checkers of a package walk its import list at the same time; the sequential run
	// is the reference for repeated parallel runs.
	{
		sdir := scratchDir("detstress")
		defer os.RemoveAll(sdir)
		os.WriteFile(filepath.Join(sdir, "go.mod"), []byte("module exp\n\ngo 1.25\n"), 0o644)
		os.MkdirAll(filepath.Join(sdir, "alib"), 0o755)
		os.WriteFile(filepath.Join(sdir, "alib", "alib.go"), []byte("package alib\n\ntype Doer interface{ Do() }\n\n// @immutable\n// @constructor New\ntype T struct {\n\tN int\n\t// @mutable\n\tHits int\n}\n\nfunc New() *T { return &T{} }\n\n// @testonly\nfunc Mock() *T { return New() }\n\n// @packageonly\nfunc Internal() {}\n"), 0o644)
		var z strings.Builder
		z.WriteString("package zlib\n\ntype Namer interface{ Name() string }\n\n")
		nz := 2000
		for i := 0; i < nz; i++ {
			fmt.Fprintf(&z, "// @immutable\n// @constructor NewR%d\n// @implements Namer\ntype R%d struct{ n string }\n\nfunc NewR%d() *R%d { return &R%d{n: \"r\"} }\n\nfunc (r R%d) Name() string { return r.n }\n\n// @testonly\nfunc MockR%d() *R%d { return NewR%d() }\n\n// @packageonly\nfunc internalR%d() {}\n\n", i, i, i, i, i, i, i, i, i, i)
		}
		os.MkdirAll(filepath.Join(sdir, "zlib"), 0o755)
		os.WriteFile(filepath.Join(sdir, "zlib", "zlib.go"), []byte(z.String()), 0o644)
		var spats []string
		for n := 1; n <= 16; n++ {
			app := fmt.Sprintf("package app%d\n\nimport (\n\t\"exp/zlib\"\n\n\t\"exp/alib\"\n)\n\n// @implements alib.Doer\ntype Job struct{ r *zlib.R%d }\n\nfunc (Job) Do() {}\n\nfunc Run() {\n\tt := alib.New()\n\tt.N = %d\n\tt.Hits++\n\t_ = alib.T{}\n\t_ = alib.Mock()\n\talib.Internal()\n\t_ = zlib.R%d{}\n}\n", n, n, n, n)
			os.MkdirAll(filepath.Join(sdir, fmt.Sprintf("app%d", n)), 0o755)
			os.WriteFile(filepath.Join(sdir, fmt.Sprintf("app%d", n), "app.go"), []byte(app), 0o644)
			spats = append(spats, fmt.Sprintf("./app%d", n))
		}
		seq := runStandalone(bin, sdir, []string{"-debug=p"}, nil, spats...)
		seqN := norm(seq)
		sum.AddN("import-order-stress-diagnostics", len(seq.diags))
		k := 24
		if o.tier == "thorough" {
			k = 80
		}
		for i := 0; i < k; i++ {
			par := runStandalone(bin, sdir, nil, nil, spats...)
			sum.Evaluations++
			sum.Count("import-order-stress")
			if c := crashed(par); c != "" {
				sum.Disagree(res.Disagreement{Kind: "panic", Input: "import-order stress, parallel run", Impl: c, Clause: "C10 / C11"})
				break
			}
			if got := norm(par); got != seqN {
				a, b := diffSets(strings.Split(seqN, "\n"), strings.Split(got, "\n"))
				sum.Disagree(res.Disagreement{Kind: "impl-vs-spec", Input: fmt.Sprintf("determinism seed=%d import-order stress: parallel run %d against the sequential run (-debug=p) of the same tree", o.seed, i), Impl: fmt.Sprintf("%d diagnostics", len(par.diags)), Model: fmt.Sprintf("%d diagnostics (sequential run)", len(seq.diags)),
					Clause: "C11: identical diagnostics and texts across sequential and parallel analysis", Details: fmt.Sprintf("only sequential: %.300v; only parallel: %.300v", a, b)})
				break
			}
		}
	}
	sum.Rule = "the real binary on a module of generated programs + the all-codes module: normalised -json (position, code, full message text) byte-compared across repeated runs, -debug=p (sequential), GOMAXPROCS 1/16, permuted package arguments, and each program alone vs inside the full run; an import-order stress module (packages importing a package with very large facts ahead of a small annotated one, with @implements) run sequentially once and in parallel repeatedly; a -race build replays runs (search support only); non-trivial = variant runs equal to the reference"
}

// ---------------------------------------------------------------- C10 (drivers part)
func binCrash(o corrOpts, sum *res.Summary, r *rng.R, bin string) {
	n := 20
	if o.tier == "thorough" {
		n = 200
	}
	dir := scratchDir("crash")
	defer os.RemoveAll(dir)
	exec.Command("cp", "-r", filepath.Join(verifDir(), "corpus", "witnesses")+"/.", filepath.Join(dir, "wit")).Run()
	os.Remove(filepath.Join(dir, "wit", "go.mod"))
	// the witnesses use module path exp/...: rewrite to exp/wit/...
	filepath.Walk(filepath.Join(dir, "wit"), func(path string, info os.FileInfo, err error) error {
		if err == nil && !info.IsDir() && strings.HasSuffix(path, ".go") {
			b, _ := os.ReadFile(path)
			os.WriteFile(path, []byte(strings.ReplaceAll(string(b), "\"exp/", "\"exp/wit/")), 0o644)
		}
		return nil
	})
	genModule(dir, r, n, func(i int) gen.Options {
		return gen.Options{Ignores: true, TestFiles: i%2 == 0, NearMiss: i%3 == 0, Spelling: []int{0, 1, 3, 4}[i%4]}
	})
	// legal but unusual declarations next to annotated code: self-referential types, used as explicit types of
	// variables, fields, parameters and results, as receivers, in literals and conversions
	for i := 0; i < n; i += 3 {
		root := fmt.Sprintf("k%d", i)
		ents, _ := os.ReadDir(filepath.Join(dir, root))
		for _, e := range ents {
			if !e.IsDir() || !strings.HasPrefix(e.Name(), "u") {
				continue
			}
			sub, _ := os.ReadDir(filepath.Join(dir, root, e.Name()))
			for _, se := range sub {
				if !se.IsDir() {
					continue
				}
				pdir := filepath.Join(dir, root, e.Name(), se.Name())
				// package name from an existing file
				name := ""
				if b, err := os.ReadFile(filepath.Join(pdir, "f0.go")); err == nil {
					for _, l := range strings.Split(string(b), "\n") {
						if strings.HasPrefix(l, "package ") {
							name = strings.TrimSpace(strings.TrimPrefix(l, "package "))
							break
						}
					}
				}
				if name == "" {
					continue
				}
				os.WriteFile(filepath.Join(pdir, "exotic.go"), []byte("package "+name+exoticDecls), 0o644)
				sum.Count("exotic-declarations")
			}
		}
	}
	for _, v := range []struct {
		name string
		vet  bool
		args []string
	}{{"standalone default", false, nil}, {"standalone scan-tests", false, []string{"-config.scan-tests=true"}}, {"govet default", true, nil}, {"govet scan-tests", true, []string{"-config.scan-tests=true"}}} {
		if v.vet && o.tier != "thorough" && strings.Contains(v.name, "scan") {
			continue
		}
		var rn binRun
		if v.vet {
			rn = runVet(bin, dir, v.args, nil)
		} else {
			rn = runStandalone(bin, dir, v.args, nil)
		}
		sum.Evaluations++
		sum.Count(v.name)
		if len(rn.diags) > 0 {
			sum.DistinctNontrivial++
		}
		sum.Sample(fmt.Sprintf("%s: exit %d, %d diagnostics", v.name, rn.exit, len(rn.diags)), 4)
		if c := crashed(rn); c != "" {
			sum.Disagree(res.Disagreement{Kind: "panic", Input: fmt.Sprintf("crash seed=%d %s", o.seed, v.name), Impl: c, Model: "diagnostics status", Clause: "C10: the tool exits with its diagnostics status rather than a crash"})
			if strings.HasPrefix(c, "TIMEOUT") {
				break // one hang is the finding; the other drivers would only wait as long again
			}
		} else if rn.exit != 0 && !v.vet {
			// -json mode exits 0; anything else is a failure of the tool
			sum.Disagree(res.Disagreement{Kind: "panic", Input: fmt.Sprintf("crash seed=%d %s", o.seed, v.name), Impl: fmt.Sprintf("exit %d: %s", rn.exit, rn.stderr[:min(300, len(rn.stderr))]), Model: "exit 0 in -json mode", Clause: "C10"})
		}
	}
	sum.Rule = "both drivers x {default, scan-tests} on generated programs (package-level initialisers first in files, //line directives, @ignore in all placements, near-miss comments, test and excluded files, all spellings) plus the witness corpus and self-referential / generic declarations (type Ring *Ring, Loop []Loop, …) used as explicit types; every run has a time limit; a hang / panic / internal error / analyzer error / abnormal exit is a violation; non-trivial = run with diagnostics"
}

// ---------------------------------------------------------------- C09 (corpus part)
func binCorpus(o corrOpts, sum *res.Summary, r *rng.R, bin string) {
	pats := []string{"strings", "bytes", "sort", "strconv", "errors", "container/list", "container/heap", "encoding/json", "encoding/binary", "go/ast", "go/token", "go/scanner", "text/tabwriter", "net/url", "path/filepath", "bufio", "io", "math/big", "regexp/syntax", "unicode/utf8", "sync", "time", "flag", "os", "fmt", "text/template/parse", "html", "mime", "hash/crc32", "compress/flate"}
	if o.tier == "thorough" {
		pats = []string{"std"}
	}
	dir := scratchDir("corp")
	defer os.RemoveAll(dir)
	os.WriteFile(filepath.Join(dir, "go.mod"), []byte("module corp\n\ngo 1.25\n"), 0o644)
	for _, cfgArgs := range [][]string{nil, {"-config.scan-tests=true", "-config.exclude-paths="}} {
		rn := runStandalone(bin, dir, cfgArgs, nil, pats...)
		sum.Evaluations += len(pats)
		sum.Count(fmt.Sprintf("config-%d-args", len(cfgArgs)))
		if c := crashed(rn); c != "" {
			sum.Disagree(res.Disagreement{Kind: "panic", Input: "corpus " + strings.Join(cfgArgs, " "), Impl: c, Clause: "C10"})
			continue
		}
		if len(rn.diags) > 0 {
			var l []string
			for _, d := range rn.diags[:min(5, len(rn.diags))] {
				l = append(l, d.key())
			}
			sum.Disagree(res.Disagreement{Kind: "impl-vs-spec", Input: fmt.Sprintf("corpus %v %v", pats[:min(3, len(pats))], cfgArgs), Impl: strings.Join(l, " "), Model: "no diagnostics", Clause: "C09: real-world code without annotations is never reported (GGV.Props.C09.no_annotations_no_diagnostics)"})
		}
		sum.Sample(fmt.Sprintf("corpus %d patterns %v => %d diagnostics, exit %d", len(pats), cfgArgs, len(rn.diags), rn.exit), 3)
	}
	sum.DistinctNontrivial = len(pats) + 1
	// precondition, checked on the sources: no line of the corpus begins with // @keyword
	goroot, _ := exec.Command("go", "env", "GOROOT").Output()
	root := filepath.Join(strings.TrimSpace(string(goroot)), "src")
	cnt, hits := 0, 0
	re := regexp.MustCompile(`(?m)^\s*//\s*@(immutable|constructor|testonly|mutable|packageonly|implements)(\s|$)`)
	filepath.Walk(root, func(path string, info os.FileInfo, err error) error {
		if err != nil || info.IsDir() || !strings.HasSuffix(path, ".go") || strings.Contains(path, "/testdata/") {
			return nil
		}
		if o.tier != "thorough" {
			ok := false
			for _, p := range pats {
				if filepath.Dir(path) == filepath.Join(root, p) {
					ok = true
				}
			}
			if !ok {
				return nil
			}
		}
		b, _ := os.ReadFile(path)
		cnt++
		if re.Match(b) {
			hits++
		}
		return nil
	})
	sum.Extra = map[string]any{"corpus_files_scanned_for_annotation_lines": cnt, "files_with_a_recognised_annotation_line": hits}
	sum.Rule = "the real binary over standard-library packages (30 in quick, all of std in thorough) under the default configuration and under scan-tests + empty exclude-paths: the output must be empty; the precondition (no line begins with // @keyword) is measured on the sources; non-trivial = packages analysed"
}

// verifDir is the root of the verification tree the corpora are read from (GGV_VERIF, set by the driver).
func verifDir() string {
	if v := os.Getenv("GGV_VERIF"); v != "" {
		return v
	}
	return "/verif"
}

const exoticDecls = `

type Ring *Ring

type Loop []Loop

type FnRec func(FnRec) FnRec

type ChanRec chan ChanRec

type MapRec map[string]MapRec

type PtrPtr **PtrPtr

type Node struct {
	Next *Node
	Kids []*Node
	Back map[*Node]*Node
	Ring Ring
}

// a general (constraint) interface with a type element, named by an @implements annotation
type Num interface {
	~int | ~int64
	String() string
}

// @implements Num
type MyNum int

func (MyNum) String() string { return "n" }

// @implements &Num
type NotNum struct{ V int }

// method sets that contain methods of the universe scope (error.Error has no package) and of embedded interfaces
type Coded interface {
	error
	Code() int
}

// @implements Coded
type NotFound struct {
	error
	Key string
}

// @implements &Coded
// @implements error
type Wrapped struct{ Coded }

type Gen[T any] struct{ V T }

type GenRec[T any] struct{ Next *GenRec[T] }

func (g *Gen[T]) Set(v T) { g.V = v }

var ringVar Ring

var loopVar Loop = Loop{nil, Loop{}}

var _ = struct {
	R Ring
	L Loop
	P PtrPtr
}{}

func useExotic(q Ring, l Loop, f FnRec, c ChanRec) (Ring, MapRec, PtrPtr) {
	var x Ring
	var n Node
	n.Next = &Node{}
	n.Next.Kids = append(n.Next.Kids, &n)
	n.Ring = x
	g := &Gen[*Node]{}
	g.Set(&n)
	g.V.Next = nil
	gr := GenRec[Ring]{}
	gr.Next = &gr
	_ = new(Ring)
	_ = Loop(nil)
	_ = []Ring{nil}
	_ = map[Ring]Loop{}
	var iface interface{ M(Ring) Loop }
	_ = iface
	return x, MapRec{"a": nil}, nil
}
`

// ---------------------------------------------------------------- C14 (the real binary, exclude-paths spellings)
// An exclude-paths entry is a substring of the file's path: "k3/d0/", "/k3/d0/" and "<module dir>/k3/d0/" name the
// same files of the module, whatever the working directory of the tool. Under each: no diagnostic inside the
// directory, and the same diagnostics everywhere else.
func binExcludeDir(o corrOpts, sum *res.Summary, r *rng.R, bin string) {
	n := 6
	if o.tier == "thorough" {
		n = 40
	}
	dir := scratchDir("exdir")
	defer os.RemoveAll(dir)
	genModule(dir, r, n, func(i int) gen.Options { return gen.Options{Ignores: i%2 == 0, TestFiles: i%3 == 0} })
	abs, _ := filepath.Abs(dir)
	if real, err := filepath.EvalSymlinks(abs); err == nil {
		abs = real
	}
	for i := 0; i < n; i++ {
		tok := fmt.Sprintf("k%d/d0", i)
		if _, err := os.Stat(filepath.Join(dir, tok)); err != nil {
			continue
		}
		if ents, _ := os.ReadDir(filepath.Join(dir, tok)); len(ents) == 1 && ents[0].IsDir() {
			tok += "/" + ents[0].Name() // d0/model
		}
		pat := "./" + fmt.Sprintf("k%d", i) + "/..."
		var ref []string
		for vi, v := range []struct{ name, entry, cwd string }{
			{"plain", tok + "/", dir},
			{"leading-separator", "/" + tok + "/", dir},
			{"absolute", abs + "/" + tok + "/", dir},
			{"plain, started inside the program", tok + "/", filepath.Join(dir, fmt.Sprintf("k%d", i))},
			{"leading-separator, started inside the excluded directory", "/" + tok + "/", filepath.Join(dir, tok)},
			{"flag-over-environment", tok + "/", dir},
		} {
			p := pat
			if v.cwd != dir {
				p = "exp/" + fmt.Sprintf("k%d", i) + "/..."
			}
			how := "flag"
			var rn binRun
			if v.name == "flag-over-environment" {
				// the environment names something else (and switches scan-tests on); the flags win
				how = "flag+env"
				rn = runStandaloneAt(bin, v.cwd, dir, []string{"-config.exclude-paths=" + v.entry, "-config.scan-tests=false"},
					[]string{"GOGREEMENT_EXCLUDE_PATHS=nosuchdir,vendor", "GOGREEMENT_SCAN_TESTS=true"}, p)
			} else if (vi+i)%2 == 0 {
				rn = runStandaloneAt(bin, v.cwd, dir, []string{"-config.exclude-paths=" + v.entry}, nil, p)
			} else {
				how = "env"
				rn = runStandaloneAt(bin, v.cwd, dir, nil, []string{"GOGREEMENT_EXCLUDE_PATHS=" + v.entry}, p)
			}
			sum.Evaluations++
			sum.Count("entry-" + strings.Fields(v.name)[0])
			if c := crashed(rn); c != "" {
				sum.Disagree(res.Disagreement{Kind: "panic", Input: fmt.Sprintf("excludedir seed=%d %s exclude-paths=%q (%s)", o.seed, v.name, v.entry, how), Impl: c, Clause: "C10"})
				continue
			}
			if v.name == "flag-over-environment" {
				// scan-tests=false was given as a flag (it spells out the default; the environment says true)
				for _, d := range rn.diags {
					if strings.HasSuffix(d.File, "_test.go") {
						sum.Disagree(res.Disagreement{Kind: "impl-vs-spec", Input: fmt.Sprintf("excludedir seed=%d -config.scan-tests=false with GOGREEMENT_SCAN_TESTS=true, program k%d", o.seed, i), Impl: d.key(), Model: "no diagnostic in a test file: the flag wins over the environment",
							Clause: "C14 / C18: no diagnostic in a file excluded by the effective configuration (flag > environment > default)"})
						break
					}
				}
			}
			keys := runKeys(rn, func(d binDiag) bool { return !strings.HasSuffix(d.File, "_test.go") })
			for _, k := range keys {
				if strings.HasPrefix(k, tok+"/") {
					sum.Disagree(res.Disagreement{Kind: "impl-vs-spec", Input: fmt.Sprintf("excludedir seed=%d %s exclude-paths=%q (%s) cwd=%s", o.seed, v.name, v.entry, how, strings.TrimPrefix(v.cwd, dir)), Impl: k, Model: "no diagnostic in a file whose path contains the entry",
						Clause: "C14: no diagnostic is ever located in a file excluded by configuration (GGV.Props.C14.no_diag_in_excluded)"})
					break
				}
			}
			if vi == 0 {
				ref = keys
				if len(keys) > 0 {
					sum.DistinctNontrivial++
				}
				continue
			}
			a, b := diffSets(ref, keys)
			if len(a)+len(b) > 0 {
				sum.Disagree(res.Disagreement{Kind: "impl-vs-spec", Input: fmt.Sprintf("excludedir seed=%d %s exclude-paths=%q (%s) cwd=%s", o.seed, v.name, v.entry, how, strings.TrimPrefix(v.cwd, dir)), Impl: fmt.Sprintf("%d diagnostics", len(keys)), Model: fmt.Sprintf("%d diagnostics (entry %q)", len(ref), tok+"/"),
					Clause:  "C14: excluded = the path contains an exclude-paths entry (GGV.Props.C14.shouldSkip_char); the entries name the same files",
					Details: fmt.Sprintf("only under the plain entry: %v; only under this one: %v", a[:min(len(a), 4)], b[:min(len(b), 4)])})
			}
		}
	}
	sum.Rule = "the real binary on generated programs with an exclude-paths entry naming a declaring package's directory, spelled plain (k/d0/), with a leading separator, and as an absolute path, by flag and by environment, started in the module root, inside the program and inside the excluded directory; no diagnostic inside the directory, identical diagnostics elsewhere; non-trivial = programs with diagnostics outside the excluded directory"
}
