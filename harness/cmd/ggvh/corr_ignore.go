package main

// corr ignore (C07): every generated program is analysed twice by the real analyzers — as generated (with
// @ignore comments) and with every "@ignore" neutralised to "@ignoer" (same byte length, so every position
// keeps its line and column). On the implementation's own output:
//   (i)  for the every-time codes the reported set must equal the neutralised run's set minus the
//        diagnostics a marker covers and matches (markers as computed by the real ReadIgnoreAnnotations, which
//        are separately required to equal the model's, i.e. the four proven scopes);
//   (ii) nothing outside marker ranges may change;
//   (iii) the model must agree on both runs (once-per-file codes: first unsuppressed use).
// A difference is attributed to C07 only when the neutralised run agrees with the model (detection is fine).

import (
	"fmt"
	"os"
	"path/filepath"
	"sort"
	"strings"

	"ggvh/internal/gen"
	"ggvh/internal/mdl"
	"ggvh/internal/res"
	"ggvh/internal/rng"
)

func corrIgnore(o corrOpts) *res.Summary {
	sum := &res.Summary{Suite: "ignore", Tier: o.tier, Seed: o.seed}
	r := rng.New(o.seed ^ 0x1670)
	n := 60
	if o.tier == "thorough" {
		n = 1000
	}
	if v := o.extra["n"]; v != "" {
		fmt.Sscan(v, &n)
	}
	cfg := cfgFromExtra(o)
	hierCache := map[string][]string{}
	hier := func(c string) []string {
		if h, ok := hierCache[c]; ok {
			return h
		}
		rp, err := mdl.Ask([]string{"iset hier " + c})
		if err != nil {
			panic(err)
		}
		hierCache[c] = strings.Split(rp[0], "+")
		return hierCache[c]
	}
	const perLoad = 60
	for lo := 0; lo < n; lo += perLoad {
		hi := min(lo+perLoad, n)
		dir := scratchDir("ign")
		var specs []genSpec
		seeds := map[string]uint64{}
		for i := lo; i < hi; i++ {
			seed := r.U64() % 1000000007
			opt := gen.Options{Root: fmt.Sprintf("k%da", i), Ignores: true, NearMiss: i%4 == 0, TestFiles: i%5 == 0, Spelling: []int{0, 0, 1}[i%3]}
			specs = append(specs, genSpec{seed: seed, o: opt})
			seeds[opt.Root] = seed
		}
		mods, err := writeModule(dir, specs)
		if err != nil {
			panic(err)
		}
		// neutralised twins: same files under root kNb, "@ignore" -> "@ignoer", import paths kNa -> kNb
		for root, m := range mods {
			twin := strings.TrimSuffix(root, "a") + "b"
			for name, content := range m.Files {
				if name == "go.mod" {
					continue
				}
				c := strings.ReplaceAll(content, "@ignore", "@ignoer")
				c = strings.ReplaceAll(c, "exp/"+root+"/", "exp/"+twin+"/")
				path := filepath.Join(dir, twin+strings.TrimPrefix(name, root))
				os.MkdirAll(filepath.Dir(path), 0o755)
				os.WriteFile(path, []byte(c), 0o644)
			}
		}
		outs, err := runModule(dir, cfg, true, false)
		if err != nil {
			sum.Notes = append(sum.Notes, "batch failed: "+err.Error()[:min(len(err.Error()), 400)])
			if os.Getenv("GGV_KEEP") == "" {
				os.RemoveAll(dir)
			} else {
				fmt.Fprintln(os.Stderr, "kept", dir)
			}
			continue
		}
		byID := map[string]progOutcome{}
		for _, oc := range outs {
			byID[oc.pkgID] = oc
		}
		src := srcLine(dir)
		for _, a := range outs {
			parts := strings.SplitN(a.pkgID, "/", 3)
			if len(parts) < 3 || !strings.HasSuffix(parts[1], "a") {
				continue
			}
			// test variants carry the root twice: "exp/k5a/u0/svc [exp/k5a/u0/svc.test]"
			twinID := strings.ReplaceAll(a.pkgID, "/"+parts[1]+"/", "/"+strings.TrimSuffix(parts[1], "a")+"b/")
			b, ok := byID[twinID]
			if !ok {
				continue
			}
			label := fmt.Sprintf("ignore seed=%d %s", seeds[parts[1]], a.pkgID)
			sum.Evaluations++
			sum.AddN("ignore-markers", len(a.implMarkers))
			if len(a.implMarkers) > 0 && len(b.impl) > 0 {
				sum.DistinctNontrivial++
			}
			if len(a.errors)+len(b.errors) > 0 {
				continue // crashes are C10's
			}
			twinAgrees := strings.Join(b.impl, ",") == strings.Join(b.model, ",")
			if !twinAgrees {
				sum.Count("twin-disagrees-not-attributed-to-C07")
				continue
			}
			// markers = the proven scopes?
			if x, y := strings.Join(a.implMarkers, ","), strings.Join(a.modelMarkers, ","); x != y {
				sum.Disagree(res.Disagreement{Kind: "impl-vs-spec", Input: label, Impl: x, Model: y, Clause: "C07 scopes (GGV.Props.C07.scope_file / scope_decl / scope_stmt / scope_line)",
					Details: "the ranges the real ReadIgnoreAnnotations computes for the @ignore comments differ from the four scopes"})
				continue
			}
			// relative keys "file:line:col:code"
			rel := func(oc progOutcome, root string) map[string]string {
				m := map[string]string{}
				for _, k := range oc.impl {
					loc := oc.implLoc[k]
					loc = strings.TrimPrefix(loc, root+"/")
					m[loc+":"+k[strings.IndexByte(k, ':')+1:]] = k
				}
				return m
			}
			ra := rel(a, parts[1])
			rb := rel(b, strings.TrimSuffix(parts[1], "a")+"b")
			// markers as (start,end,codes) over absolute positions of run A
			type mk struct {
				s, e  int
				codes []string
			}
			var mks []mk
			for _, m := range a.implMarkers {
				var s, e int
				i := strings.IndexByte(m, ':')
				fmt.Sscanf(m[:i], "%d-%d", &s, &e)
				mks = append(mks, mk{s, e, strings.Split(m[i+1:], "+")})
			}
			suppressed := func(pos int, code string) bool {
				for _, t := range hier(code) {
					for _, c := range cfg.excludeChecks {
						if c == t {
							return true
						}
					}
					for _, m := range mks {
						if m.s <= pos && pos <= m.e {
							for _, c := range m.codes {
								if c == t {
									return true
								}
							}
						}
					}
				}
				return false
			}
			// (i)+(ii): every-time codes
			var problems []string
			for key := range rb {
				code := key[strings.LastIndexByte(key, ':')+1:]
				if code == "TONL01" || code == "PKGO01" {
					continue
				}
				_, still := ra[key]
				// position of this diagnostic in run A: same file/line/col; find its absolute pos through A's map if present,
				// else through the twin's offset (files are loaded in the same relative order: use line/col match in A's markers)
				if still {
					var pos int
					fmt.Sscanf(ra[key], "%d:", &pos)
					if suppressed(pos, code) {
						problems = append(problems, "still reported although a marker covers and matches it: "+key)
					}
				} else {
					// removed: must be covered. Its absolute position in A = twin position + (file base difference); recover via B's pos and per-file delta
					var posB int
					fmt.Sscanf(rb[key], "%d:", &posB)
					delta, okd := fileDelta(ra, rb, key)
					if okd && !suppressed(posB+delta, code) {
						problems = append(problems, "removed although no marker of the package covers and matches it: "+key+" "+src(strings.Replace(key[:strings.LastIndexByte(key, ':')], "", "", 0)))
					}
				}
			}
			for key := range ra {
				code := key[strings.LastIndexByte(key, ':')+1:]
				if code == "TONL01" || code == "PKGO01" {
					continue
				}
				if _, ok := rb[key]; !ok {
					problems = append(problems, "appears only when @ignore comments are present: "+key)
				}
			}
			sort.Strings(problems)
			if len(problems) > 0 {
				sum.Disagree(res.Disagreement{Kind: "impl-vs-spec", Input: label, Impl: strings.Join(a.impl, ","), Model: strings.Join(b.impl, ","),
					Clause: "C07: an @ignore removes exactly the diagnostics in its scope that match its codes (GGV.Props.C07.ignore_exact_report)", Details: strings.Join(problems[:min(len(problems), 6)], "; ")})
				continue
			}
			// (iii) model on run A (covers the once-per-file codes: first unsuppressed use)
			if x, y := strings.Join(a.impl, ","), strings.Join(a.model, ","); x != y {
				oi, om := diffSets(a.impl, a.model)
				sum.Disagree(res.Disagreement{Kind: "impl-vs-spec", Input: label, Impl: x, Model: y,
					Clause:  "C07 with once-per-file re-reporting (GGV.Props.C03.testonly_exact / C04.packageonly_exact: first unsuppressed use)",
					Details: fmt.Sprintf("with @ignore comments the reported set differs from the specification although the same program without them is analysed correctly: reported but not expected %v; expected but not reported %v", oi, om)})
			}
		}
		for _, oc := range outs[:min(3, len(outs))] {
			sum.Sample(fmt.Sprintf("%s markers=%v diags=%v", oc.pkgID, oc.implMarkers, oc.impl), 4)
		}
		os.RemoveAll(dir)
	}
	sum.Rule = "each generated program (with @ignore comments in the four placements and random code lists) is analysed by the real analyzers as generated and with '@ignore' neutralised (same length, positions preserved); markers must equal the model's proven scopes; every-time codes: reported(with) = reported(without) minus covered-and-matching (ALL > category > code), nothing else changes; once-per-file codes via the model; non-trivial = package with markers and diagnostics"
	return sum
}

// fileDelta: absolute position offset between run A and run B for the file of key, from any diagnostic both runs share in that file.
func fileDelta(ra, rb map[string]string, key string) (int, bool) {
	file := key[:strings.IndexByte(key, ':')]
	for k, va := range ra {
		if strings.HasPrefix(k, file+":") {
			if vb, ok := rb[k]; ok {
				var pa, pb int
				fmt.Sscanf(va, "%d:", &pa)
				fmt.Sscanf(vb, "%d:", &pb)
				return pa - pb, true
			}
		}
	}
	return 0, false
}
