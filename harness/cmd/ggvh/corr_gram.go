package main

// corr gram: the seven annotation recognisers. The real code is driven exactly as C15 prescribes: a file
// with the comment placed at an effective site is parsed with go/parser and fed to the real
// annotations.ReadAllAnnotations / ignore.ReadIgnoreAnnotations (pre-filter + dispatch + regex + parse);
// the Lean model's verdict for the same comment text is compared field by field.

import (
	"fmt"
	"go/ast"
	"go/parser"
	"go/token"
	"go/types"
	"sort"
	"strings"

	"ggvh/internal/mdl"
	"ggvh/internal/res"
	"ggvh/internal/rng"

	"github.com/a14e/gogreement/src/annotations"
	"github.com/a14e/gogreement/src/config"
	"github.com/a14e/gogreement/src/ignore"
	"golang.org/x/tools/go/analysis"
)

// gramImplBatch returns, for each comment text, the implementation's verdict in the model's output format
// (without the pre-filter fields, which are not observable separately).
func gramImplBatch(texts []string) (out []string, err error) {
	defer func() {
		if r := recover(); r != nil {
			err = fmt.Errorf("panic: %v", r)
		}
	}()
	var b strings.Builder
	b.WriteString("package p\n")
	// line numbers: type Ti doc comment at line 2+6*i
	for i, t := range texts {
		fmt.Fprintf(&b, "%s\ntype T%d struct{ X int }\n// @immutable\ntype M%d struct {\n%s\nF int }\n", t, i, i, t)
	}
	fset := token.NewFileSet()
	f, perr := parser.ParseFile(fset, "x.go", b.String(), parser.ParseComments)
	if perr != nil {
		return nil, fmt.Errorf("parse: %v", perr)
	}
	pass := &analysis.Pass{Fset: fset, Files: []*ast.File{f}, Pkg: types.NewPackage("exp/p", "p")}
	cfg := config.Empty()
	pa := annotations.ReadAllAnnotations(cfg, pass)
	is := ignore.ReadIgnoreAnnotations(cfg, pass)
	n := len(texts)
	imm := make([]bool, n)
	test := make([]bool, n)
	mut := make([]bool, n)
	ctor := make([]string, n)
	pko := make([]string, n)
	ign := make([]string, n)
	impl := make([]string, n)
	for i := range texts {
		ctor[i], pko[i], ign[i], impl[i] = "-", "-", "-", "-"
	}
	idx := func(name string, prefix byte) int {
		if len(name) < 2 || name[0] != prefix {
			return -1
		}
		var k int
		if _, e := fmt.Sscanf(name[1:], "%d", &k); e != nil || k >= n {
			return -1
		}
		return k
	}
	enc := func(l []string) string {
		if len(l) == 0 {
			return "_"
		}
		p := make([]string, len(l))
		for i, x := range l {
			p[i] = mdl.Hex(x)
		}
		return strings.Join(p, ",")
	}
	for _, a := range pa.ImmutableAnnotations {
		if k := idx(a.OnType, 'T'); k >= 0 {
			imm[k] = true
		}
	}
	for _, a := range pa.TestonlyAnnotations {
		if k := idx(a.ObjectName, 'T'); k >= 0 {
			test[k] = true
		}
	}
	for _, a := range pa.MutableAnnotations {
		if k := idx(a.OnType, 'M'); k >= 0 && a.FieldName == "F" {
			mut[k] = true
		}
	}
	for _, a := range pa.ConstructorAnnotations {
		if k := idx(a.OnType, 'T'); k >= 0 {
			ctor[k] = enc(a.ConstructorNames)
		}
	}
	for _, a := range pa.PackageOnlyAnnotations {
		if k := idx(a.ObjectName, 'T'); k >= 0 {
			if len(a.AllowedPackages) == 0 || a.AllowedPackages[0] != "exp/p" {
				pko[k] = "declaring-package-missing"
			} else {
				pko[k] = enc(a.AllowedPackages[1:])
			}
		}
	}
	for _, a := range pa.ImplementsAnnotations {
		if k := idx(a.OnType, 'T'); k >= 0 {
			amp := "0"
			if a.IsPointer {
				amp = "1"
			}
			impl[k] = amp + ":" + mdl.Hex(a.PackageName) + ":" + mdl.Hex(a.InterfaceName)
		}
	}
	// @ignore markers: the doc comment of Ti is on line 2+6*i (unadjusted)
	for _, m := range is.Markers {
		line := fset.PositionFor(m.StartPos, false).Line
		if (line-2)%6 == 0 {
			k := (line - 2) / 6
			if k >= 0 && k < n {
				ign[k] = enc(m.Codes)
			}
		}
	}
	out = make([]string, n)
	bit := func(b bool) string {
		if b {
			return "1"
		}
		return "0"
	}
	for i := range texts {
		out[i] = fmt.Sprintf("imm=%s test=%s mut=%s ctor=%s pko=%s ign=%s impl=%s", bit(imm[i]), bit(test[i]), bit(mut[i]), ctor[i], pko[i], ign[i], impl[i])
	}
	return out, nil
}

func stripPre(model string) string {
	if i := strings.Index(model, " pre="); i >= 0 {
		return model[:i]
	}
	return model
}

// gramSpecLabel: a coarse independent reading of the documented grammar, used only to label a
// disagreement as a violation of the property (impl-vs-spec) rather than model drift.
func gramSpecLabel(text, impl string) string {
	// keyword exactness: an annotation may only be recognised when the text is //, blanks, @kw, then end or blank
	body := strings.TrimLeft(strings.TrimPrefix(text, "//"), " \t\f\r")
	for _, kv := range []struct{ field, kw string }{{"imm=1", "@immutable"}, {"test=1", "@testonly"}, {"mut=1", "@mutable"}} {
		startsOK := strings.HasPrefix(body, kv.kw) && (len(body) == len(kv.kw) || strings.ContainsAny(body[len(kv.kw):len(kv.kw)+1], " \t\f\r"))
		has := strings.Contains(impl, kv.field)
		if has != startsOK {
			return "keyword " + kv.kw + ": recognised=" + fmt.Sprint(has) + " but the documented form says " + fmt.Sprint(startsOK)
		}
	}
	for _, kv := range []struct{ field, kw string }{{"ctor=", "@constructor"}, {"pko=", "@packageonly"}, {"ign=", "@ignore"}, {"impl=", "@implements"}} {
		i := strings.Index(impl, kv.field)
		val := strings.Fields(impl[i+len(kv.field):])[0]
		startsOK := strings.HasPrefix(body, kv.kw) && (len(body) == len(kv.kw) || strings.ContainsAny(body[len(kv.kw):len(kv.kw)+1], " \t\f\r"))
		if val != "-" && !startsOK {
			return "keyword " + kv.kw + " recognised on a line that does not begin with it"
		}
	}
	return ""
}

func corrGram(o corrOpts) *res.Summary {
	sum := &res.Summary{Suite: "gram", Tier: o.tier, Seed: o.seed}
	r := rng.New(o.seed)
	var texts []string
	var tags []string
	add := func(t, tag string) {
		if strings.ContainsAny(t, "\n\r") || !strings.HasPrefix(t, "//") {
			return
		}
		texts = append(texts, t)
		tags = append(tags, tag)
	}
	if o.replay != "" {
		f := strings.Fields(o.replay)
		s, err := mdl.Unhex(f[len(f)-1])
		if err != nil {
			panic(err)
		}
		add(s, "replay")
	} else {
		alphabet := []string{" ", "\t", "//", "/*", "@", "@immutable", "@constructor", "@testonly", "@mutable", "@packageonly", "@ignore", "@implements",
			"@Immutable", "@immutablex", "immutable", "New", "_x", "a1", "9z", ",", ".", "&", "-", "/", "é"}
		maxLen := 3
		if o.tier == "thorough" {
			maxLen = 4
		}
		var rec func(prefix string, depth int)
		rec = func(prefix string, depth int) {
			add("//"+prefix, fmt.Sprintf("tokens-len%d", depth))
			if depth == maxLen {
				return
			}
			for _, a := range alphabet {
				rec(prefix+a, depth+1)
			}
		}
		rec("", 0)
		// every keyword followed by exhaustive argument-ish token sequences (deeper on the argument side)
		argAlpha := []string{" ", "\t", ",", "New", "_x", "a1", "9z", ".", "&", "-", "/", "io", "é", "x"}
		argLen := 4
		if o.tier == "thorough" {
			argLen = 5
		}
		for _, kw := range []string{"@constructor", "@packageonly", "@ignore", "@implements"} {
			var rec2 func(prefix string, depth int)
			rec2 = func(prefix string, depth int) {
				add("// "+kw+prefix, "arg-"+kw)
				if depth == argLen {
					return
				}
				for _, a := range argAlpha {
					rec2(prefix+a, depth+1)
				}
			}
			rec2("", 0)
		}
		// seeded fuzz: mutations of valid lines
		valid := []string{"// @immutable", "// @testonly", "// @mutable", "// @constructor New", "// @constructor New, Create", "// @constructor New ,Create , Make,",
			"// @packageonly", "// @packageonly a/b, c.d", "// @packageonly github.com/x/y-z, pkg", "// @ignore IMM01", "// @ignore imm01, CTOR", "// @ignore ALL reason text",
			"// @implements Reader", "// @implements &io.Reader", "// @implements pkg.Iface trailing words", "//@immutable", "//\t@constructor\tNew\tx", "// @implements &  X"}
		nf := 20000
		if o.tier == "thorough" {
			nf = 600000
		}
		mutBytes := []byte(" \t,.&-/@_aZ09x\f\vé*")
		for i := 0; i < nf; i++ {
			b := []byte(rng.Pick(r, valid))
			for k := 1 + r.Intn(3); k > 0; k-- {
				pos := 2 + r.Intn(len(b)-1)
				switch r.Intn(4) {
				case 0: // insert
					c := mutBytes[r.Intn(len(mutBytes))]
					b = append(b[:pos], append([]byte{c}, b[pos:]...)...)
				case 1: // delete
					if pos < len(b) {
						b = append(b[:pos], b[pos+1:]...)
					}
				case 2: // replace
					if pos < len(b) {
						b[pos] = mutBytes[r.Intn(len(mutBytes))]
					}
				default: // random byte
					if pos < len(b) {
						b[pos] = byte(1 + r.Intn(255))
					}
				}
			}
			add(string(b), "fuzz")
		}
	}

	const batch = 400
	distinct := map[string]bool{}
	for lo := 0; lo < len(texts); lo += batch {
		hi := lo + batch
		if hi > len(texts) {
			hi = len(texts)
		}
		part := texts[lo:hi]
		impls, err := gramImplBatch(part)
		if err != nil {
			// a text broke the batch (e.g. unparsable): fall back to one by one
			impls = make([]string, len(part))
			for i, t := range part {
				one, e := gramImplBatch([]string{t})
				if e != nil {
					impls[i] = "error:" + e.Error()
				} else {
					impls[i] = one[0]
				}
			}
		}
		reqs := make([]string, len(part))
		for i, t := range part {
			reqs[i] = "gram recog " + mdl.Hex(t)
		}
		reps, err := mdl.Ask(reqs)
		if err != nil {
			panic(err)
		}
		for i, t := range part {
			impl := impls[i]
			if strings.HasPrefix(impl, "error:parse") {
				sum.OutsideFragment++
				continue
			}
			sum.Evaluations++
			sum.Count(tags[lo+i])
			model := stripPre(reps[i])
			if impl != "imm=0 test=0 mut=0 ctor=- pko=- ign=- impl=-" {
				sum.Count("recognised-by-some-keyword")
				if !distinct[impl] {
					distinct[impl] = true
					sum.DistinctNontrivial++
				}
			}
			if (lo+i)%(len(texts)/8+1) == 0 {
				sum.Sample(fmt.Sprintf("%q => %s", t, impl), 10)
			}
			// the pre-filter may only drop lines the regex rejects: if the impl recognises, the model's pre-filter must say 1
			if impl == model {
				continue
			}
			d := res.Disagreement{Kind: "impl-vs-model", Input: reqs[i], Impl: impl, Model: model, Clause: "GGV.Model.Grammar recognisers", Details: fmt.Sprintf("comment text %q", t)}
			if strings.HasPrefix(impl, "error:panic") {
				d.Kind = "panic"
			} else if lbl := gramSpecLabel(t, impl); lbl != "" {
				d.Kind = "impl-vs-spec"
				d.Clause = "C15: " + lbl
			} else {
				// the model is proven against the documented grammar (Props/C15); a difference in the parsed
				// argument is a difference from that grammar
				d.Kind = "impl-vs-spec"
				d.Clause = "C15 argument grammar (GGV.Props.C15)"
			}
			sum.Disagree(d)
		}
	}
	var keys []string
	for k := range sum.Distribution {
		keys = append(keys, k)
	}
	sort.Strings(keys)
	sum.Rule = "comment texts '//'+payload placed as the doc comment of a type (and of a field of an @immutable struct) and before the declaration for @ignore; payloads = all token sequences of length <= 3 (quick) / <= 4 (thorough) over a 25-token alphabet of separators, keywords, near-keywords, identifiers, punctuation; per list keyword all argument token sequences of length <= 4 / <= 5 over 14 tokens; seeded byte mutations of valid lines; all seven recognisers compared per text; non-trivial = some keyword recognised; distinct = distinct verdict vector"
	return sum
}
