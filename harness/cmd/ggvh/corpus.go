package main

import (
	"os"
	"os/exec"
	"path/filepath"
	"strings"
)

// corpusModules prepares scratch copies of the corpus modules (paths must not contain an excluded token such
// as "testdata") and returns their directories. The caller removes the returned root when done.
//   - /verif/corpus/*                      hand-written witnesses and minimised past failures
//   - /repo/testdata/integration/src/*     the repository's own multi-module fixtures
//   - /repo/testdata/unit                  the repository's unit fixtures (import paths rewritten)
func corpusModules() (root string, dirs []string) {
	root = scratchDir("corpus")
	repo := os.Getenv("GGV_REPO")
	if repo == "" {
		repo = "/repo"
	}
	verif := os.Getenv("GGV_VERIF")
	if verif == "" {
		verif = "/verif"
	}
	cp := func(src, dst string) bool {
		if _, err := os.Stat(src); err != nil {
			return false
		}
		os.MkdirAll(filepath.Dir(dst), 0o755)
		return exec.Command("cp", "-r", src, dst).Run() == nil
	}
	ents, _ := os.ReadDir(filepath.Join(verif, "corpus"))
	for _, e := range ents {
		if e.IsDir() {
			if _, err := os.Stat(filepath.Join(verif, "corpus", e.Name(), "go.mod")); err == nil {
				d := filepath.Join(root, "c_"+e.Name())
				if cp(filepath.Join(verif, "corpus", e.Name()), d) {
					dirs = append(dirs, d)
				}
			}
		}
	}
	integ := filepath.Join(repo, "testdata", "integration", "src")
	ents, _ = os.ReadDir(integ)
	for _, e := range ents {
		if e.IsDir() {
			d := filepath.Join(root, "i_"+e.Name())
			if cp(filepath.Join(integ, e.Name()), d) {
				dirs = append(dirs, d)
			}
		}
	}
	// unit fixtures live inside the main module under testdata/unit: copy into a module of the same path with
	// the directory renamed, and rewrite the import paths accordingly
	unit := filepath.Join(repo, "testdata", "unit")
	if _, err := os.Stat(unit); err == nil {
		d := filepath.Join(root, "unitfix")
		if cp(unit, filepath.Join(d, "tdunit")) {
			os.WriteFile(filepath.Join(d, "go.mod"), []byte("module github.com/a14e/gogreement\n\ngo 1.25\n"), 0o644)
			filepath.Walk(d, func(path string, info os.FileInfo, err error) error {
				if err == nil && !info.IsDir() && strings.HasSuffix(path, ".go") {
					b, _ := os.ReadFile(path)
					s := strings.ReplaceAll(string(b), "gogreement/testdata/unit/", "gogreement/tdunit/")
					os.WriteFile(path, []byte(s), 0o644)
				}
				return nil
			})
			dirs = append(dirs, d)
		}
	}
	return root, dirs
}
