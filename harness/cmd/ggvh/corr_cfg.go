package main

// corr cfg: configuration resolution.
//  L0: env + config.CreateFlagSet + flag parsing + config.ParseFlagsFromFlagSet (the exact sequence the
//      analyzer performs) vs the Lean model `resolve`, over the full {flag absent, empty, value} x
//      {env unset, empty, value} grid per option and fuzzed strings; Config.ShouldSkipFile vs `shouldSkip`.
//  L2: the real binary on a probe module with one planted violation per observable; which plants are
//      reported must be what the model's resolved configuration predicts.
// Also validates, for Go's unicode tables, the three facts (UpperOK) the theorems assume about ToUpper.

import (
	"encoding/json"
	"flag"
	"fmt"
	"go/ast"
	"go/token"
	"os"
	"os/exec"
	"path/filepath"
	"sort"
	"strconv"
	"strings"
	"unicode"
	"unicode/utf8"

	"ggvh/internal/mdl"
	"ggvh/internal/res"
	"ggvh/internal/rng"

	"github.com/a14e/gogreement/src/config"
	"golang.org/x/tools/go/analysis"
)

type cfgCase struct {
	flagScan, flagPaths, flagChecks *string // nil = not given
	envScan, envPaths, envChecks    *string // nil = unset
	tag                             string
	bareScan                        bool // flagScan "true" written as the bare switch `-scan-tests`, the other flags after it
}

func sp(s string) *string { return &s }

func optHex(p *string) string {
	if p == nil {
		return "~"
	}
	return mdl.Hex(*p)
}

// modelable: valid UTF-8 and Go's case mappings agree with the ASCII mapping the driver uses
func modelable(p *string) bool {
	if p == nil {
		return true
	}
	s := *p
	if !utf8.ValidString(s) || strings.ContainsRune(s, 0) {
		return false
	}
	for _, r := range s {
		if r >= 128 && (unicode.ToUpper(r) != r || unicode.ToLower(r) != r) {
			return false
		}
	}
	return true
}

func (c cfgCase) proto() (string, bool) {
	fs := "~"
	if c.flagScan != nil {
		b, err := strconv.ParseBool(*c.flagScan)
		if err != nil {
			return "", false
		}
		fs = map[bool]string{true: "1", false: "0"}[b]
	}
	for _, p := range []*string{c.flagPaths, c.flagChecks, c.envScan, c.envPaths, c.envChecks} {
		if !modelable(p) {
			return "", false
		}
	}
	return fmt.Sprintf("cfg resolve %s %s %s %s %s %s", fs, optHex(c.flagPaths), optHex(c.flagChecks), optHex(c.envScan), optHex(c.envPaths), optHex(c.envChecks)), true
}

func cfgString(scan bool, paths, checks []string) string {
	enc := func(l []string) string {
		if len(l) == 0 {
			return "_"
		}
		p := make([]string, len(l))
		for i, x := range l {
			p[i] = mdl.Hex(x)
		}
		return strings.Join(p, ",")
	}
	return fmt.Sprintf("%s %s %s", map[bool]string{true: "1", false: "0"}[scan], enc(paths), enc(checks))
}

func setenv(name string, v *string) {
	if v == nil {
		os.Unsetenv(name)
	} else {
		os.Setenv(name, *v)
	}
}

func (c cfgCase) args(prefix string) []string {
	var a []string
	if c.flagScan != nil {
		if c.bareScan && *c.flagScan == "true" {
			a = append(a, "-"+prefix+"scan-tests")
		} else {
			a = append(a, "-"+prefix+"scan-tests="+*c.flagScan)
		}
	}
	if c.flagPaths != nil {
		a = append(a, "-"+prefix+"exclude-paths="+*c.flagPaths)
	}
	if c.flagChecks != nil {
		a = append(a, "-"+prefix+"exclude-checks="+*c.flagChecks)
	}
	return a
}

func cfgImpl(c cfgCase) (out string) {
	defer func() {
		if r := recover(); r != nil {
			out = fmt.Sprintf("panic:%v", r)
		}
	}()
	os.Unsetenv("GOGREEMENT_ENV_ONLY")
	setenv("GOGREEMENT_SCAN_TESTS", c.envScan)
	setenv("GOGREEMENT_EXCLUDE_PATHS", c.envPaths)
	setenv("GOGREEMENT_EXCLUDE_CHECKS", c.envChecks)
	fs := config.CreateFlagSet()
	fs.Init("gogreement", flag.ContinueOnError)
	fs.SetOutput(new(strings.Builder))
	if err := fs.Parse(c.args("")); err != nil {
		return "flagerror"
	}
	cfg := config.ParseFlagsFromFlagSet(fs)
	return cfgString(cfg.ScanTests, cfg.ExcludePaths, cfg.ExcludeChecks)
}

func (c cfgCase) describe() string {
	d := func(p *string) string {
		if p == nil {
			return "<absent>"
		}
		return strconv.Quote(*p)
	}
	bare := ""
	if c.bareScan && c.flagScan != nil && *c.flagScan == "true" {
		bare = " (written as the bare switch -scan-tests, first on the command line)"
	}
	return fmt.Sprintf("flags{scan=%s%s paths=%s checks=%s} env{SCAN_TESTS=%s EXCLUDE_PATHS=%s EXCLUDE_CHECKS=%s}",
		d(c.flagScan), bare, d(c.flagPaths), d(c.flagChecks), d(c.envScan), d(c.envPaths), d(c.envChecks))
}

// cfgSpec: the property read directly (flag, else env even if empty, else default; lists split/trim/
// drop-empty/upper; booleans true for 1,t,true,yes,on). Labels disagreements.
func cfgSpec(c cfgCase) string {
	list := func(s string, up bool) []string {
		var out []string
		for _, p := range strings.Split(s, ",") {
			p = strings.TrimSpace(p)
			if p == "" {
				continue
			}
			if up {
				p = strings.ToUpper(p)
			}
			out = append(out, p)
		}
		return out
	}
	scan := false
	if c.flagScan != nil {
		scan, _ = strconv.ParseBool(*c.flagScan)
	} else if c.envScan != nil {
		switch strings.ToLower(strings.TrimSpace(*c.envScan)) {
		case "1", "t", "true", "yes", "on":
			scan = true
		}
	}
	paths := []string{"testdata"}
	if c.flagPaths != nil {
		paths = list(*c.flagPaths, false)
	} else if c.envPaths != nil {
		paths = list(*c.envPaths, false)
	}
	var checks []string
	if c.flagChecks != nil {
		checks = list(*c.flagChecks, true)
	} else if c.envChecks != nil {
		checks = list(*c.envChecks, true)
	}
	return cfgString(scan, paths, checks)
}

func corrCfg(o corrOpts) *res.Summary {
	sum := &res.Summary{Suite: "cfg", Tier: o.tier, Seed: o.seed}
	r := rng.New(o.seed)
	// --- UpperOK for Go's tables, all runes
	upperBad := 0
	for ru := rune(0); ru <= unicode.MaxRune; ru++ {
		u := unicode.ToUpper(ru)
		if unicode.ToUpper(u) != u || (ru != ',' && u == ',') || (!unicode.IsSpace(ru) && unicode.IsSpace(u)) {
			upperBad++
		}
	}
	sum.Extra = map[string]any{"upperOK_runes_checked": int(unicode.MaxRune) + 1, "upperOK_violations": upperBad}
	if upperBad > 0 {
		sum.Disagree(res.Disagreement{Kind: "impl-vs-model", Input: "unicode.ToUpper", Impl: fmt.Sprint(upperBad, " runes violate UpperOK"), Model: "UpperOK", Clause: "GGV.Model.Config.UpperOK (hypothesis of parseList_join_idem)"})
	}

	boolVals := []string{"true", "false", "1", "0", "t", "f", "T", "F", "TRUE", "FALSE", "True", "False"}
	envBoolVals := append([]string{"yes", "no", "on", "off", "YES", "On", " true ", "\ttrue\n", " yes", "tRuE", "2", "truee", "y", "enable", " on ", " true", "0 ", "ｔｒｕｅ"}, boolVals...)
	listVals := []string{"a", "a,b", " a , b ", "a,,b", ",", ",,", " ", "a, ,b,", "imm01", "Imm01,ctor", "ALL", " all ", "x ", " y ,z", "testdata", "zzcustom,testdata",
		"a\tb", "a b,c d", "中,文", "IMM,imm,Imm", "a,b,c,d,e,f,g,h", "-", "a=b", "\"q\"", "a;b", "tonl01 , pkgo",
		"gen/", "./gen", "a//b", "../x, y/", "/", ".", "api_gen/,vendor/", "a/./b", "/abs/path/", "mock,mocks", "gen,generated,gen"}
	var cases []cfgCase
	if o.replay != "" {
		c, err := cfgParse(o.replay)
		if err != nil {
			panic(err)
		}
		cases = append(cases, c)
	} else {
		opt3 := func(vals []string, i int) *string {
			switch i {
			case 0:
				return nil
			case 1:
				return sp("")
			default:
				return sp(rng.Pick(r, vals))
			}
		}
		reps := 3
		if o.tier == "thorough" {
			reps = 40
		}
		// full 3x3 grid per option, the other options drawn at random
		for rep := 0; rep < reps; rep++ {
			for fi := 0; fi < 3; fi++ {
				for ei := 0; ei < 3; ei++ {
					// scan: an empty flag value is a flag error (exempt: the property exempts only env values)
					var fsv *string
					if fi == 1 {
						fsv = sp("true")
					} else if fi == 2 {
						fsv = sp(rng.Pick(r, boolVals))
					}
					cases = append(cases, cfgCase{flagScan: fsv, bareScan: fi == 1 && rep%2 == 0, envScan: opt3(envBoolVals, ei),
						flagPaths: opt3(listVals, r.Intn(3)), envPaths: opt3(listVals, r.Intn(3)),
						flagChecks: opt3(listVals, r.Intn(3)), envChecks: opt3(listVals, r.Intn(3)), tag: fmt.Sprintf("grid-scan-f%d-e%d", fi, ei)})
					cases = append(cases, cfgCase{flagPaths: opt3(listVals, fi), envPaths: opt3(listVals, ei),
						flagScan: nil, envScan: opt3(envBoolVals, r.Intn(3)),
						flagChecks: opt3(listVals, r.Intn(3)), envChecks: opt3(listVals, r.Intn(3)), tag: fmt.Sprintf("grid-paths-f%d-e%d", fi, ei)})
					cases = append(cases, cfgCase{flagChecks: opt3(listVals, fi), envChecks: opt3(listVals, ei),
						flagPaths: opt3(listVals, r.Intn(3)), envPaths: opt3(listVals, r.Intn(3)),
						envScan: opt3(envBoolVals, r.Intn(3)), tag: fmt.Sprintf("grid-checks-f%d-e%d", fi, ei)})
				}
			}
		}
		// every env boolean spelling alone, every list value alone (env and flag)
		for _, v := range envBoolVals {
			cases = append(cases, cfgCase{envScan: sp(v), tag: "bool-spelling"})
		}
		for _, v := range listVals {
			cases = append(cases, cfgCase{envPaths: sp(v), envChecks: sp(v), tag: "list-env"})
			cases = append(cases, cfgCase{flagPaths: sp(v), flagChecks: sp(v), tag: "list-flag"})
		}
		// fuzzed environment strings (bytes incl. invalid UTF-8; NUL cannot occur in an environment)
		nf := 300
		if o.tier == "thorough" {
			nf = 20000
		}
		pieces := []string{",", " ", "\t", "a", "B", "imm01", "ALL", " ", " ", "é", "ß", "ǆ", "\xff", "\xc3", "true", "yes", "on", "1", "\n", "\r", "testdata", "=", "İ", "K"}
		for i := 0; i < nf; i++ {
			var b strings.Builder
			for k := r.Intn(7); k >= 0; k-- {
				if r.Chance(1, 6) {
					b.WriteByte(byte(1 + r.Intn(255)))
				} else {
					b.WriteString(rng.Pick(r, pieces))
				}
			}
			s := b.String()
			cases = append(cases, cfgCase{envScan: sp(s), envPaths: sp(s), envChecks: sp(s), tag: "fuzz-env"})
		}
	}

	var reqs []string
	idx := make([]int, len(cases))
	for i, c := range cases {
		idx[i] = -1
		if p, ok := c.proto(); ok {
			idx[i] = len(reqs)
			reqs = append(reqs, p)
		}
	}
	reps, err := mdl.Ask(reqs)
	if err != nil {
		panic(err)
	}
	distinct := map[string]bool{}
	for i, c := range cases {
		impl := cfgImpl(c)
		sum.Evaluations++
		sum.Count(c.tag)
		if strings.HasPrefix(impl, "panic:") {
			sum.Disagree(res.Disagreement{Kind: "panic", Input: c.describe(), Impl: impl, Model: "a configuration", Clause: "C18: no value of these environment variables makes the tool fail"})
			continue
		}
		if idx[i] < 0 {
			sum.OutsideFragment++ // only "does not fail" is checked (non-ASCII case mappings / invalid UTF-8)
			continue
		}
		if impl != "0 "+mdl.Hex("testdata")+" _" && !distinct[impl+c.tag] {
			distinct[impl+c.tag] = true
			sum.DistinctNontrivial++
		}
		if i%(len(cases)/6+1) == 0 {
			sum.Sample(c.describe()+" => "+impl, 8)
		}
		model := reps[idx[i]]
		if impl == model {
			continue
		}
		d := res.Disagreement{Kind: "impl-vs-model", Input: reqs[idx[i]], Impl: impl, Model: model, Clause: "GGV.Props.C18.resolve_precedence", Details: c.describe()}
		if spec := cfgSpec(c); spec != impl {
			d.Kind = "impl-vs-spec"
			d.Model = spec
			d.Details = c.describe() + ": effective configuration (scan paths checks; hex items) differs from flag > env > default"
		}
		sum.Disagree(d)
	}

	// --- ShouldSkipFile vs shouldSkip
	if o.replay == "" {
		nsk := 400
		if o.tier == "thorough" {
			nsk = 20000
		}
		var sreqs []string
		type skc struct {
			scan  bool
			paths []string
			name  string
		}
		var sks []skc
		toks := []string{"testdata", "gen", "a", "/", "_test.go", "_test", ".go", "x", "vendor", "b/", "mock", "_test.gox", "Test", "zz"}
		for i := 0; i < nsk; i++ {
			var name strings.Builder
			for k := 1 + r.Intn(5); k > 0; k-- {
				name.WriteString(rng.Pick(r, toks))
			}
			var paths []string
			for k := r.Intn(3); k > 0; k-- {
				paths = append(paths, rng.Pick(r, []string{"testdata", "gen", "mock", "vendor", "zz", "b/x", "_test", "a"}))
			}
			sk := skc{r.Bool(), paths, name.String()}
			sks = append(sks, sk)
			pl := "_"
			if len(paths) > 0 {
				hp := make([]string, len(paths))
				for j, p := range paths {
					hp[j] = mdl.Hex(p)
				}
				pl = strings.Join(hp, ",")
			}
			sreqs = append(sreqs, fmt.Sprintf("cfg skip %s %s %s", map[bool]string{true: "1", false: "0"}[sk.scan], pl, mdl.Hex(sk.name)))
		}
		sreps, err := mdl.Ask(sreqs)
		if err != nil {
			panic(err)
		}
		for i, sk := range sks {
			fset := token.NewFileSet()
			tf := fset.AddFile(sk.name, -1, 20)
			file := &ast.File{Package: tf.Pos(0), Name: ast.NewIdent("p")}
			pass := &analysis.Pass{Fset: fset}
			impl := map[bool]string{true: "1", false: "0"}[config.New(sk.scan, sk.paths, nil).ShouldSkipFile(pass, file)]
			sum.Evaluations++
			sum.Count("skip-" + impl)
			if impl != sreps[i] {
				sum.Disagree(res.Disagreement{Kind: "impl-vs-spec", Input: sreqs[i], Impl: impl, Model: sreps[i], Clause: "GGV.Props.C14.shouldSkip_char",
					Details: fmt.Sprintf("ShouldSkipFile(scanTests=%v, excludePaths=%q, %q)", sk.scan, sk.paths, sk.name)})
			}
		}
	}

	// --- L2: the real binary on a probe module
	if bin := o.extra["binary"]; bin != "" && o.replay == "" {
		cfgProbe(o, sum, r, bin, boolVals, envBoolVals, listVals)
	}
	sum.Rule = "L0: env + CreateFlagSet + flag.Parse + ParseFlagsFromFlagSet vs model resolve on the {flag absent,empty,value} x {env unset,empty,value} grid per option (other options random), every boolean spelling, every list shape, fuzzed env byte strings (non-modelable ones only checked for 'does not fail'); ShouldSkipFile vs shouldSkip on generated names; L2: real binary on a probe module, reported plants vs the model's prediction; non-trivial = resolved configuration differs from the default; distinct = distinct resolved configuration per grid cell"
	return sum
}

const probeTypes = `package probe

// T is immutable and has a constructor.
// @immutable
// @constructor NewT
type T struct{ X int }

func NewT() *T { return &T{X: 1} }
`
const probeA = `package probe

func Regular(t *T) {
	t.X = 2 /*#IMM01*/
	_ = T{} /*#CTOR01*/
}
`
const probePlanted = `package probe

func F%s(t *T) {
	t.X = 3 /*#IMM01*/
}
`

type plant struct {
	file, code string
}

func cfgProbe(o corrOpts, sum *res.Summary, r *rng.R, bin string, boolVals, envBoolVals, listVals []string) {
	dir, err := os.MkdirTemp(os.Getenv("GGV_CACHE"), "cfgprobe")
	if err != nil {
		dir, err = os.MkdirTemp("", "cfgprobe")
		if err != nil {
			panic(err)
		}
	}
	defer os.RemoveAll(dir)
	write := func(name, content string) {
		if err := os.WriteFile(filepath.Join(dir, name), []byte(content), 0o644); err != nil {
			panic(err)
		}
	}
	write("go.mod", "module probe\n\ngo 1.25\n")
	write("types.go", probeTypes) // never excluded: no probe token matches it
	write("regular.go", probeA)
	write("b_test.go", fmt.Sprintf(probePlanted, "Test"))
	write("gen_testdata.go", fmt.Sprintf(probePlanted, "Td"))
	write("zzcustom.go", fmt.Sprintf(probePlanted, "Zz"))
	plants := []plant{{"regular.go", "IMM01"}, {"regular.go", "CTOR01"}, {"b_test.go", "IMM01"}, {"gen_testdata.go", "IMM01"}, {"zzcustom.go", "IMM01"}}
	n := 45
	if o.tier == "thorough" {
		n = 500
	}
	probeLists := []string{"testdata", "zzcustom", "zzcustom,testdata", " zzcustom ", "", "nomatch", "regular", "imm", "IMM01", "ctor", "ALL", "all , x", "Imm01,CTOR01", "junk", "tonl", "_test"}
	for i := 0; i < n; i++ {
		pick := func(vals []string, allowEmpty bool) *string {
			switch r.Intn(3) {
			case 0:
				return nil
			case 1:
				if allowEmpty {
					return sp("")
				}
				return nil
			default:
				return sp(rng.Pick(r, vals))
			}
		}
		c := cfgCase{flagScan: pick(boolVals, false), envScan: pick(envBoolVals, true),
			flagPaths: pick(probeLists, true), envPaths: pick(probeLists, true),
			flagChecks: pick(probeLists, true), envChecks: pick(probeLists, true), tag: "probe"}
		if i < 9 { // the pure scan grid first
			c = cfgCase{tag: "probe"}
			if i/3 == 1 {
				c.flagScan = sp("true")
				c.bareScan = i%3 != 1
			} else if i/3 == 2 {
				c.flagScan = sp("false")
			}
			if i%3 == 1 {
				c.envScan = sp("")
			} else if i%3 == 2 {
				c.envScan = sp(rng.Pick(r, []string{"yes", "on", " TRUE ", "1"}))
			}
		}
		req, ok := c.proto()
		if !ok {
			continue
		}
		// model: resolved configuration, then per plant: skipped? excluded?
		rep, err := mdl.Ask([]string{req})
		if err != nil {
			panic(err)
		}
		f := strings.Fields(rep[0])
		if len(f) != 3 {
			panic("bad model reply " + rep[0])
		}
		var preqs []string
		for _, p := range plants {
			abs := filepath.Join(dir, p.file)
			preqs = append(preqs, fmt.Sprintf("cfg skip %s %s %s", f[0], f[1], mdl.Hex(abs)))
			g := "-"
			if f[2] != "_" {
				var cs []string
				for _, h := range strings.Split(f[2], ",") {
					s, _ := mdl.Unhex(h)
					if strings.ContainsAny(s, ":|+ ") || s == "" || s == "_" {
						s = "JUNKTOKEN"
					}
					cs = append(cs, s)
				}
				g = "G:" + strings.Join(cs, "+")
			}
			preqs = append(preqs, fmt.Sprintf("iset hist %s %s:1", g, p.code))
		}
		preps, err := mdl.Ask(preqs)
		if err != nil {
			panic(err)
		}
		var want []string
		for k, p := range plants {
			if preps[2*k] == "0" && preps[2*k+1] == "0" {
				want = append(want, p.file+":"+p.code)
			}
		}
		sort.Strings(want)
		// real binary
		cmd := exec.Command(bin, append(append([]string{"-json"}, c.args("config.")...), "./...")...)
		cmd.Dir = dir
		env := []string{}
		for _, e := range os.Environ() {
			if !strings.HasPrefix(e, "GOGREEMENT_") {
				env = append(env, e)
			}
		}
		for name, v := range map[string]*string{"GOGREEMENT_SCAN_TESTS": c.envScan, "GOGREEMENT_EXCLUDE_PATHS": c.envPaths, "GOGREEMENT_EXCLUDE_CHECKS": c.envChecks} {
			if v != nil {
				env = append(env, name+"="+*v)
			}
		}
		cmd.Env = env
		out, err := cmd.Output()
		sum.Evaluations++
		sum.Count("probe-binary-run")
		if err != nil {
			sum.Disagree(res.Disagreement{Kind: "panic", Input: c.describe(), Impl: fmt.Sprintf("binary failed: %v", err), Model: strings.Join(want, " "), Clause: "C18: no value makes the tool fail"})
			continue
		}
		got := parseJSONDiags(out)
		gotS := strings.Join(got, " ")
		wantS := strings.Join(want, " ")
		if i < 3 {
			sum.Sample("binary "+c.describe()+" => "+gotS, 12)
		}
		if gotS != wantS {
			sum.Disagree(res.Disagreement{Kind: "impl-vs-spec", Input: req, Impl: gotS, Model: wantS, Clause: "GGV.Props.C18.resolve_precedence (observed through the probe module)",
				Details: c.describe() + ": planted violations reported by the real binary differ from those the resolved configuration predicts"})
		}
	}
}

// parseJSONDiags extracts sorted, de-duplicated "file:CODE" pairs from `gogreement -json` output.
func parseJSONDiags(out []byte) []string {
	var tree map[string]map[string]json.RawMessage
	set := map[string]bool{}
	if err := json.Unmarshal(out, &tree); err != nil {
		return []string{"unparsable-json"}
	}
	for _, byAn := range tree {
		for _, raw := range byAn {
			var ds []struct {
				Posn    string `json:"posn"`
				Message string `json:"message"`
			}
			if json.Unmarshal(raw, &ds) != nil {
				continue
			}
			for _, d := range ds {
				file := filepath.Base(strings.SplitN(d.Posn, ":", 2)[0])
				code := ""
				if i := strings.Index(d.Message, "["); i >= 0 {
					if j := strings.Index(d.Message[i:], "]"); j > 0 {
						code = d.Message[i+1 : i+j]
					}
				}
				set[file+":"+code] = true
			}
		}
	}
	var l []string
	for k := range set {
		l = append(l, k)
	}
	sort.Strings(l)
	return l
}

func cfgParse(line string) (cfgCase, error) {
	f := strings.Fields(line)
	if len(f) >= 2 && f[0] == "cfg" && f[1] == "resolve" {
		f = f[2:]
	}
	if len(f) != 6 {
		return cfgCase{}, fmt.Errorf("bad cfg replay line")
	}
	dec := func(s string) *string {
		if s == "~" {
			return nil
		}
		v, _ := mdl.Unhex(s)
		return &v
	}
	c := cfgCase{tag: "replay", flagPaths: dec(f[1]), flagChecks: dec(f[2]), envScan: dec(f[3]), envPaths: dec(f[4]), envChecks: dec(f[5])}
	if f[0] == "1" {
		c.flagScan = sp("true")
	} else if f[0] == "0" {
		c.flagScan = sp("false")
	}
	return c, nil
}
