package main

// corr excl (C14): self-relative checks on the real analyzers, one configuration per process.
//  (a) no diagnostic is located in a file the configuration excludes;
//  (b) a twin program whose EXCLUDED files have every annotation / @ignore neutralised ("@x" -> "#x", same
//      length) yields the same diagnostics in all other files;
//  (c) with scan-tests on, test files are analysed but never receive TONL diagnostics.

import (
	"fmt"
	"os"
	"path/filepath"
	"sort"
	"strings"

	"ggvh/internal/gen"
	"ggvh/internal/res"
	"ggvh/internal/rng"
)

func corrExcl(o corrOpts) *res.Summary {
	sum := &res.Summary{Suite: "excl", Tier: o.tier, Seed: o.seed}
	r := rng.New(o.seed ^ 0xE8C1)
	n := 40
	if o.tier == "thorough" {
		n = 400
	}
	if v := o.extra["n"]; v != "" {
		fmt.Sscan(v, &n)
	}
	cfg := cfgFromExtra(o)
	excluded := func(file string) bool {
		for _, p := range cfg.excludePaths {
			if strings.Contains(file, p) {
				return true
			}
		}
		return !cfg.scanTests && strings.HasSuffix(file, "_test.go")
	}
	dir := scratchDir("excl")
	defer os.RemoveAll(dir)
	var specs []genSpec
	for i := 0; i < n; i++ {
		specs = append(specs, genSpec{seed: r.U64() % 1000000007, o: gen.Options{Root: fmt.Sprintf("k%da", i), TestFiles: true, Ignores: i%2 == 0, NearMiss: i%4 == 0}})
	}
	mods, err := writeModule(dir, specs)
	if err != nil {
		panic(err)
	}
	neutral := strings.NewReplacer("@immutable", "#immutable", "@constructor", "#constructor", "@testonly", "#testonly", "@mutable", "#mutable",
		"@packageonly", "#packageonly", "@implements", "#implements", "@ignore", "#ignore")
	for root, m := range mods {
		twin := strings.TrimSuffix(root, "a") + "b"
		for name, content := range m.Files {
			if name == "go.mod" {
				continue
			}
			c := strings.ReplaceAll(content, "exp/"+root+"/", "exp/"+twin+"/")
			path := filepath.Join(dir, twin+strings.TrimPrefix(name, root))
			if excluded(filepath.Join(dir, name)) {
				c = neutral.Replace(c)
				sum.Count("excluded-files-neutralised")
			}
			os.MkdirAll(filepath.Dir(path), 0o755)
			os.WriteFile(path, []byte(c), 0o644)
		}
	}
	// a cgo package below an excluded path (the analysis sees cgo's processed copy in the build cache, whose
	// //line directives name the original file), imported by a regular package
	cgoN := 0
	for i := 0; i < n && cgoN < 2; i += 7 {
		for _, v := range []string{"a", "b"} {
			root := fmt.Sprintf("k%d%s", i, v)
			bind := "package bind\n\n// #include <stdlib.h>\nimport \"C\"\n\n// Handle is immutable.\n// @immutable\n// @constructor NewHandle\ntype Handle struct{ N int }\n\nfunc NewHandle() *Handle { _ = C.int(0); return &Handle{} }\n"
			bpath := filepath.Join(dir, root, "zz_testdata_cgo", "bind.go")
			if excluded(bpath) && v == "b" {
				bind = neutral.Replace(bind)
			}
			os.MkdirAll(filepath.Dir(bpath), 0o755)
			os.WriteFile(bpath, []byte(bind), 0o644)
			use := "package cgouser\n\nimport bind \"exp/" + root + "/zz_testdata_cgo\"\n\nfunc Use(h *bind.Handle) {\n\th.N = 1\n\t_ = bind.Handle{}\n}\n"
			os.MkdirAll(filepath.Join(dir, root, "cgouser"), 0o755)
			os.WriteFile(filepath.Join(dir, root, "cgouser", "use.go"), []byte(use), 0o644)
		}
		cgoN++
		sum.Count("cgo-packages-under-excluded-path")
	}
	// third variant "c": the excluded files nothing refers to are not there at all
	deletable := map[string]bool{"aa_testdata_first.go": true, "gen_testdata_x.go": true, "in_test.go": true, "ext_test.go": true}
	for root, m := range mods {
		third := strings.TrimSuffix(root, "a") + "c"
		for name, content := range m.Files {
			if name == "go.mod" {
				continue
			}
			if excluded(filepath.Join(dir, name)) && deletable[filepath.Base(name)] {
				sum.Count("excluded-files-removed")
				continue
			}
			c := strings.ReplaceAll(content, "exp/"+root+"/", "exp/"+third+"/")
			path := filepath.Join(dir, third+strings.TrimPrefix(name, root))
			os.MkdirAll(filepath.Dir(path), 0o755)
			os.WriteFile(path, []byte(c), 0o644)
		}
	}
	outs, err := runModule(dir, cfg, true, false)
	if err != nil {
		sum.Notes = append(sum.Notes, "batch failed: "+err.Error()[:min(len(err.Error()), 400)])
		return sum
	}
	// per program root: set of "relfile:line:col:code" over all package variants
	byRoot := map[string]map[string]bool{}
	for _, oc := range outs {
		parts := strings.SplitN(oc.pkgID, "/", 3)
		if len(parts) < 2 {
			continue
		}
		root := strings.Fields(parts[1])[0]
		if byRoot[root] == nil {
			byRoot[root] = map[string]bool{}
		}
		for _, k := range oc.impl {
			loc := oc.implLoc[k] // root/.../file.go:line:col
			code := k[strings.IndexByte(k, ':')+1:]
			byRoot[root][strings.TrimPrefix(loc, root+"/")+":"+code] = true
			file := strings.SplitN(loc, ":", 2)[0]
			sum.Evaluations++
			// (a)
			if excluded(filepath.Join(dir, file)) {
				sum.Disagree(res.Disagreement{Kind: "impl-vs-spec", Input: fmt.Sprintf("excl seed=%d [%s] %s", o.seed, cfg.String(), oc.pkgID), Impl: loc + " " + code, Model: "no diagnostic in an excluded file",
					Clause: "C14: no diagnostic is ever located in a file excluded by configuration (GGV.Props.C14.no_diag_in_excluded)"})
			}
			// (c)
			if strings.HasSuffix(file, "_test.go") {
				sum.Count("diagnostics-in-test-files")
				if strings.HasPrefix(code, "TONL") {
					sum.Disagree(res.Disagreement{Kind: "impl-vs-spec", Input: fmt.Sprintf("excl seed=%d [%s] %s", o.seed, cfg.String(), oc.pkgID), Impl: loc + " " + code, Model: "test files never receive TONL diagnostics",
						Clause: "C14 / C03: GGV.Props.C14.tonl_never_in_tests"})
				}
			}
		}
	}
	// (b)
	for root, a := range byRoot {
		if !strings.HasSuffix(root, "a") {
			continue
		}
		b := byRoot[strings.TrimSuffix(root, "a")+"b"]
		sum.Count("twin-comparisons")
		if len(a) > 0 {
			sum.DistinctNontrivial++
		}
		var la, lb []string
		for k := range a {
			la = append(la, k)
		}
		for k := range b {
			lb = append(lb, k)
		}
		sort.Strings(la)
		sort.Strings(lb)
		x, y := diffSets(la, lb)
		if len(x)+len(y) > 0 {
			sum.Disagree(res.Disagreement{Kind: "impl-vs-spec", Input: fmt.Sprintf("excl seed=%d [%s] program %s", o.seed, cfg.String(), root), Impl: strings.Join(la, " ")[:min(300, len(strings.Join(la, " ")))], Model: "same diagnostics as the twin whose excluded files carry no annotation",
				Clause:  "C14: annotations, @ignore comments and violations inside excluded files do not change the diagnostics of other files (GGV.Props.C14.excluded_inert)",
				Details: fmt.Sprintf("only with the excluded files' annotations: %v; only without: %v", x[:min(len(x), 5)], y[:min(len(y), 5)])})
		}
	}
	// (d) without the unreferenced excluded files: the same diagnostics
	for root, a := range byRoot {
		if !strings.HasSuffix(root, "a") {
			continue
		}
		c, ok := byRoot[strings.TrimSuffix(root, "a")+"c"]
		if !ok {
			continue
		}
		sum.Count("removed-file-comparisons")
		var la, lc []string
		for k := range a {
			la = append(la, k)
		}
		for k := range c {
			lc = append(lc, k)
		}
		sort.Strings(la)
		sort.Strings(lc)
		x, y := diffSets(la, lc)
		if len(x)+len(y) > 0 {
			sum.Disagree(res.Disagreement{Kind: "impl-vs-spec", Input: fmt.Sprintf("excl seed=%d [%s] program %s vs %s", o.seed, cfg.String(), root, strings.TrimSuffix(root, "a")+"c"), Impl: strings.Join(la, " ")[:min(300, len(strings.Join(la, " ")))], Model: "same diagnostics as the program without its (unreferenced) excluded files",
				Clause:  "C14: excluded files have no influence on the diagnostics of other files (GGV.Props.C14.excluded_inert)",
				Details: fmt.Sprintf("only with the excluded files present: %v; only without them: %v", x[:min(len(x), 5)], y[:min(len(y), 5)])})
		}
	}
	if len(outs) > 0 {
		sum.Sample(fmt.Sprintf("config %s: %d package variants, e.g. %s => %v", cfg.String(), len(outs), outs[0].pkgID, outs[0].impl), 3)
	}
	sum.Rule = "generated programs with regular, in-package _test.go, external test package and excluded-token files carrying annotations, @ignore comments and violations, under this process's configuration (the check runs default, scan-tests, custom exclude-paths, and both); (a) no reported position in an excluded file, (b) twin with the excluded files' annotations neutralised reports the same in all other files, (c) no TONL in test files, (d) a third rendering without the unreferenced excluded files (one of them sorting first in its package) reports the same; two cgo packages below an excluded path with an importer; non-trivial = programs with diagnostics"
	return sum
}
