package main

// corr excerpt: reporting.Reporter.ReportViolation (real code, fake analysis.Pass) vs the Lean model
// `render`, byte for byte, over the (line length x column x byte pattern x file shape) grid C19 names.
// A disagreement is labelled by an independent structural reading of the property on the
// implementation's own message (specExcerpt), never accepted because of it.

import (
	"fmt"
	"go/token"
	"sort"
	"strconv"
	"strings"

	"ggvh/internal/mdl"
	"ggvh/internal/res"
	"ggvh/internal/rng"

	"github.com/a14e/gogreement/src/reporting"
	"golang.org/x/tools/go/analysis"
)

type fakeViolation struct {
	code, msg string
	pos       token.Pos
}

func (v fakeViolation) GetCode() string    { return v.code }
func (v fakeViolation) GetPos() token.Pos  { return v.pos }
func (v fakeViolation) GetMessage() string { return v.msg }

type excCase struct {
	claimed    string // content the FileSet was built from (decides line/column of the position)
	actual     string // content ReadFile returns ("\x00!" = read error)
	unreadable bool
	line, col  int
	code, msg  string
	tag        string
	prev       [][2]int // (line, col) pairs reported through the same Reporter before this one
	col0off    int      // with col == 0: byte offset into the line of the reported position
	// one parsed file holding two logical files: from physical line mapAt on, a `//line y.go:mapTo:1` directive is in
	// force; other is what reading y.go gives. physLine is the physical line of the reported position and prev holds
	// physical lines; line / actual are the logical line and the content of the logical file it lies in.
	other                  string
	mapAt, mapTo, physLine int
	otherUnreadable        bool // reading y.go fails (generated code whose source is not there); x.go stays readable
}

func (c excCase) proto() string {
	content := mdl.Hex(c.actual)
	if c.unreadable {
		content = "!"
	}
	return fmt.Sprintf("excerpt render %s %d %d %s %s", content, c.line, c.col, mdl.Hex(c.code), mdl.Hex(c.msg))
}

// runs the real reporter; returns the message, or "panic:..." / "noreport"
func excerptImpl(c excCase) (out string) {
	defer func() {
		if r := recover(); r != nil {
			out = fmt.Sprintf("panic:%v", r)
		}
	}()
	fset := token.NewFileSet()
	f := fset.AddFile("x.go", -1, len(c.claimed))
	f.SetLinesForContent([]byte(c.claimed))
	// position: start of line + col-1, clamped into the file (the position must exist in the FileSet)
	posOf := func(line, col int) (token.Pos, bool) {
		off := 0
		if line >= 1 && line <= f.LineCount() {
			off = int(f.LineStart(line)) - f.Base()
		}
		off += col - 1
		if off < 0 || off > len(c.claimed) {
			return 0, false
		}
		pos := f.Pos(off)
		p := fset.Position(pos)
		return pos, p.Line == line && p.Column == col
	}
	var pos token.Pos
	var ok bool
	physOf := func(line, col int) (token.Pos, bool) {
		if line < 1 || line > f.LineCount() {
			return 0, false
		}
		off := int(f.LineStart(line)) - f.Base() + col - 1
		if off < 0 || off > len(c.claimed) {
			return 0, false
		}
		return f.Pos(off), true
	}
	if c.mapAt > 0 {
		if c.mapAt < 1 || c.mapAt > f.LineCount() {
			return "skip"
		}
		f.AddLineColumnInfo(int(f.LineStart(c.mapAt))-f.Base(), "y.go", c.mapTo, 1)
		posOf = physOf
		pos, ok = physOf(c.physLine, c.col)
		if p := fset.Position(pos); !ok || p.Line != c.line || p.Column != c.col {
			return "skip"
		}
	} else if c.col == 0 {
		// a //line directive without a column: positions on that line report column 0
		off := 0
		if c.line >= 1 && c.line <= f.LineCount() {
			off = int(f.LineStart(c.line)) - f.Base()
		}
		if off+c.col0off > len(c.claimed) {
			return "skip"
		}
		f.AddLineColumnInfo(off, "x.go", c.line, 0)
		pos = f.Pos(off + c.col0off)
		if p := fset.Position(pos); p.Line != c.line || p.Column != 0 {
			return "skip"
		}
		ok = true
	} else {
		pos, ok = posOf(c.line, c.col)
	}
	if !ok {
		return "skip"
	}
	got := "noreport"
	pass := &analysis.Pass{
		Fset: fset,
		ReadFile: func(name string) ([]byte, error) {
			if c.mapAt > 0 {
				if name == "y.go" {
					if c.otherUnreadable {
						return nil, fmt.Errorf("unreadable")
					}
					return []byte(c.other), nil
				}
				return []byte(c.claimed), nil
			}
			if c.unreadable {
				return nil, fmt.Errorf("unreadable")
			}
			return []byte(c.actual), nil
		},
		Report: func(d analysis.Diagnostic) { got = d.Message },
	}
	r := reporting.NewReporter(pass, nil)
	for _, pc := range c.prev {
		if pp, ok := posOf(pc[0], pc[1]); ok {
			r.ReportViolation(fakeViolation{c.code, "earlier", pp})
		}
	}
	got = "noreport"
	r.ReportViolation(fakeViolation{c.code, c.msg, pos})
	return got
}

// specExcerpt reads the property on a rendered message. Returns "" if every clause holds.
func specExcerpt(c excCase, msg string, maxLen int) string {
	header := "error: [" + c.code + "] " + c.msg + "\n"
	if !strings.HasPrefix(msg, header) {
		return "header"
	}
	var src []string
	if !c.unreadable {
		src = scanLines(c.actual)
	}
	body := msg[len(header):]
	if c.line < 1 || c.line > len(src) {
		// line not in the file as read: excerpt may show neighbours, but never a caret; if nothing is there, header only
		if strings.Contains(body, "^\n") && !strings.Contains(strings.Join(src, "\n"), "^") {
			return "caret-without-line"
		}
		return ""
	}
	rows := strings.Split(body, "\n")
	// rows: border, numbered lines (+ caret row), border, help, ""
	found := false
	for i, row := range rows {
		bar := strings.Index(row, " | ")
		if bar < 0 {
			continue
		}
		num, err := strconv.Atoi(strings.TrimSpace(row[:bar]))
		if err != nil {
			continue
		}
		text := row[bar+3:]
		if num < 1 || num > len(src) {
			return "line-number-outside-file"
		}
		if num < c.line-2 || num > c.line+1 {
			return "context-not-neighbour"
		}
		full := src[num-1]
		if len(text) > maxLen+6 {
			return "length-bound"
		}
		if len(full) <= maxLen && text != full {
			return "short-line-altered"
		}
		if num != c.line {
			continue
		}
		found = true
		if i+1 >= len(rows) {
			return "no-caret-row"
		}
		crow := rows[i+1]
		cbar := strings.Index(crow, " | ")
		if cbar != bar || !strings.HasSuffix(crow, "^") {
			return "caret-row-shape"
		}
		prefix := crow[cbar+3 : len(crow)-1]
		d := len(prefix) // 0-based index of the caret in the rendered text
		if c.col >= 1 && c.col <= len(full) {
			if d >= len(text) || text[d] != full[c.col-1] {
				return "caret-under-char"
			}
			// the rendered text around the caret must be the source around the column
			for k := 0; k < len(prefix); k++ {
				if (prefix[k] == '\t') != (text[k] == '\t') || (prefix[k] != '\t' && prefix[k] != ' ') {
					return "caret-prefix-tabs"
				}
			}
		}
	}
	if !found {
		return "reported-line-missing"
	}
	return ""
}

func scanLines(s string) []string {
	var out []string
	for len(s) > 0 {
		i := strings.IndexByte(s, '\n')
		var l string
		if i < 0 {
			l, s = s, ""
		} else {
			l, s = s[:i], s[i+1:]
		}
		if len(l) >= 65536 {
			break
		}
		l = strings.TrimSuffix(l, "\r")
		out = append(out, l)
	}
	return out
}

func genLine(r *rng.R, n int, kind int) string {
	b := make([]byte, n)
	for i := range b {
		switch kind {
		case 0: // ASCII ramp: distinct neighbours, so an off-by-one caret is visible
			b[i] = byte('!' + i%90)
		case 1: // tabs at random places
			if r.Chance(1, 6) {
				b[i] = '\t'
			} else {
				b[i] = byte('a' + i%26)
			}
		case 2: // multi-byte UTF-8 (2-byte sequences) mixed with ASCII
			if i+1 < n && r.Chance(1, 4) {
				b[i] = 0xC3
				b[i+1] = byte(0x80 + r.Intn(0x3f))
			} else if b[i] == 0 {
				b[i] = byte('A' + i%26)
			}
		case 3: // all dots: the ellipsis cannot be told from content by looking
			b[i] = '.'
		default: // random bytes without newline
			b[i] = byte(r.Intn(256))
			if b[i] == '\n' {
				b[i] = ' '
			}
		}
	}
	if kind == 2 {
		for i := range b {
			if b[i] == 0 {
				b[i] = 'z'
			}
		}
	}
	return string(b)
}

func corrExcerpt(o corrOpts) *res.Summary {
	tier, seed, replay := o.tier, o.seed, o.replay
	panicOnly := o.extra["focus"] == "PANIC" // C10: only failures to terminate normally count
	sum := &res.Summary{Suite: "excerpt", Tier: tier, Seed: seed}
	r := rng.New(seed)
	M := reporting.MaxLineLength
	var cases []excCase
	if replay != "" {
		c, err := excerptParse(replay)
		if err != nil {
			panic(err)
		}
		cases = append(cases, c)
	} else {
		codes := []string{"IMM01", "CTOR02", "TONL03", "PKGO01", "IMPL03", "XYZ9"}
		add := func(lines []string, li, col int, tag string, trailingNL bool) {
			content := strings.Join(lines, "\n")
			if trailingNL {
				content += "\n"
			}
			cases = append(cases, excCase{claimed: content, actual: content, line: li, col: col,
				code: rng.Pick(r, codes), msg: "m" + strconv.Itoa(len(cases)%7), tag: tag})
		}
		// lengths: bands around the regime boundaries, plus (thorough) the full 0..3M range
		lengthSet := map[int]bool{}
		for _, base := range []int{0, 1, 3, M - 3, M, M + 3, 2*M - 6, 2 * M, 3 * M} {
			for d := -4; d <= 4; d++ {
				if base+d >= 0 {
					lengthSet[base+d] = true
				}
			}
		}
		if tier == "thorough" {
			for n := 0; n <= 3*M; n++ {
				lengthSet[n] = true
			}
		} else {
			for i := 0; i < 12; i++ {
				lengthSet[r.Intn(3*M+1)] = true
			}
		}
		sortedKeys := func(m map[int]bool) []int {
			var l []int
			for k := range m {
				l = append(l, k)
			}
			sort.Ints(l)
			return l
		}
		for _, n := range sortedKeys(lengthSet) {
			// columns: all in thorough; in quick the bands around 1, M-3, n-M+3, n
			colSet := map[int]bool{}
			if tier == "thorough" {
				for c := 1; c <= n+1; c++ {
					colSet[c] = true
				}
			} else {
				for _, base := range []int{1, M - 3, M - 2, n - M + 3, n - M + 4, n, n / 2, M / 2, n - M/2, M/2 - 2, n - M/2 + 2} {
					for d := -3; d <= 3; d++ {
						if base+d >= 1 && base+d <= n+1 {
							colSet[base+d] = true
						}
					}
				}
				for i := 0; i < 6; i++ {
					colSet[1+r.Intn(n+1)] = true
				}
			}
			for _, c := range sortedKeys(colSet) {
				kind := r.Intn(5)
				if tier != "thorough" && c%3 == 0 {
					kind = 0
				}
				line := genLine(r, n, kind)
				ctx1 := genLine(r, r.Intn(2*M+40), r.Intn(4))
				ctx2 := genLine(r, r.Intn(40), 0)
				switch r.Intn(4) {
				case 0: // only line of the file
					add([]string{line}, 1, c, fmt.Sprintf("kind%d-only", kind), r.Bool())
				case 1: // first line
					add([]string{line, ctx1, ctx2}, 1, c, fmt.Sprintf("kind%d-first", kind), r.Bool())
				case 2: // last line
					add([]string{ctx2, ctx1, ctx2, line}, 4, c, fmt.Sprintf("kind%d-last", kind), r.Bool())
				default: // middle, long context lines too
					add([]string{ctx1, ctx2, ctx1, line, ctx1, ctx2}, 4, c, fmt.Sprintf("kind%d-middle", kind), true)
				}
			}
		}
		// gutter width: reported line numbers around a change in the number of digits, with and without
		// following context lines (the widest number in the excerpt decides the gutter of every row)
		for _, L := range []int{1, 2, 3, 8, 9, 10, 11, 98, 99, 100, 101, 999, 1000, 1001, 9999, 10000} {
			for _, total := range []int{L, L + 1, L + 2, L + 5} {
				lines := make([]string, total)
				for i := range lines {
					lines[i] = fmt.Sprintf("line %d", i+1)
				}
				n := []int{5, 30, M - 2, M + 20, 2*M + 7}[r.Intn(5)]
				lines[L-1] = genLine(r, n, r.Intn(2))
				add(lines, L, 1+r.Intn(n+1), "gutter", true)
			}
		}
		// context lines whose own length puts the reported column at their window boundaries
		// (the column of the diagnostic also decides how the neighbours are cut)
		for i := 0; i < 60; i++ {
			n := 2*M + r.Intn(2*M)
			col := 1 + r.Intn(n)
			ctxLen := func() int {
				base := []int{col + M/2, col + M/2 - 2, col + M - 3, col, col - 1 + M/2, 2 * col}[r.Intn(6)]
				l := base + r.Intn(9) - 4
				if l < 0 {
					l = 0
				}
				return l
			}
			lines := []string{genLine(r, ctxLen(), 0), genLine(r, ctxLen(), 0), genLine(r, n, 0), genLine(r, ctxLen(), 0)}
			add(lines, 3, col, "context-boundary", true)
		}
		// one Reporter, several diagnostics: the same line at columns in different windows, neighbouring lines
		// (each message must be what a fresh rendering gives)
		for i := 0; i < 40; i++ {
			n := M + 10 + r.Intn(2*M)
			lines := []string{genLine(r, r.Intn(3*M), 0), genLine(r, n, 0), genLine(r, r.Intn(3*M), 0), genLine(r, n, 1), "short"}
			content := strings.Join(lines, "\n") + "\n"
			cols := []int{1, 2, n / 2, n - 8, n, 1 + r.Intn(n)}
			li := []int{2, 4}[r.Intn(2)]
			c := excCase{claimed: content, actual: content, line: li, col: rng.Pick(r, cols), code: "TONL02", msg: "again", tag: "same-reporter"}
			for k := 0; k < 1+r.Intn(3); k++ {
				pl := li
				if r.Chance(1, 3) {
					pl = 1 + r.Intn(5)
				}
				c.prev = append(c.prev, [2]int{pl, 1 + r.Intn(5)})
				if r.Bool() {
					c.prev = append(c.prev, [2]int{li, rng.Pick(r, cols)})
				}
			}
			cases = append(cases, c)
		}
		// one parsed file, two logical files (a hand-written part, then generated code under `//line y.go:N:1`), one
		// Reporter, diagnostics in both parts in either order: each excerpt shows the lines of the file its position names
		for i := 0; i < 30; i++ {
			nx, ny := 6+r.Intn(6), 12+r.Intn(8)
			var xs, ys []string
			for k := 0; k < nx; k++ {
				xs = append(xs, fmt.Sprintf("x%d %s", k+1, genLine(r, 3+r.Intn(30), 0)))
			}
			for k := 0; k < ny; k++ {
				ys = append(ys, fmt.Sprintf("y%d %s", k+1, genLine(r, 3+r.Intn(30), 1)))
			}
			mapAt := 3 + r.Intn(nx-3)
			mapTo := 1 + r.Intn(ny-(nx-mapAt)-1)
			c := excCase{claimed: strings.Join(xs, "\n") + "\n", other: strings.Join(ys, "\n") + "\n", mapAt: mapAt, mapTo: mapTo, col: 1 + r.Intn(3), code: "IMM01", msg: "two", tag: "two-logical-files"}
			plain, mapped := 1+r.Intn(mapAt-1), mapAt+r.Intn(nx-mapAt+1)
			if mapped > nx {
				mapped = nx
			}
			if i%2 == 0 {
				// first a diagnostic in the hand-written part, then the one under test in the generated part
				c.prev = [][2]int{{plain, 1}}
				c.physLine, c.line, c.actual = mapped, mapped-mapAt+mapTo, c.other
			} else {
				c.prev = [][2]int{{mapped, 1}}
				c.physLine, c.line, c.actual = plain, plain, c.claimed
			}
			cases = append(cases, c)
			if i%3 == 0 {
				// the generated part names a file that cannot be read: after a diagnostic in the readable part, every
				// diagnostic in the generated part comes without excerpt (the first, the second, …)
				u := excCase{claimed: c.claimed, mapAt: mapAt, mapTo: mapTo, col: 1, code: "IMM01", msg: "gone", tag: "after-failed-read", unreadable: true, otherUnreadable: true}
				u.prev = [][2]int{{plain, 1}, {mapped, 1}}
				if i%2 == 0 {
					u.prev = append(u.prev, [2]int{mapped, 2})
				}
				u.physLine, u.line = mapped, mapped-mapAt+mapTo
				cases = append(cases, u)
			}
		}
		// column 0 (generated code: //line directive without a column)
		for i := 0; i < 20; i++ {
			n := []int{0, 1, 5, 40, M - 1, M, M + 1, 2*M + 3}[i%8]
			lines := []string{"a", genLine(r, n, i%2), "c", genLine(r, n, 0)}
			content := strings.Join(lines, "\n") + "\n"
			li := []int{2, 4, 1}[i%3]
			c := excCase{claimed: content, actual: content, line: li, col: 0, code: "CTOR03", msg: "generated", tag: "column-zero"}
			if ll := len(lines[li-1]); ll > 0 {
				c.col0off = r.Intn(ll)
			}
			cases = append(cases, c)
		}
		// the file as read is much shorter than the reported line (changed since parsing, or cut by the scanner)
		for i := 0; i < 24; i++ {
			total := 6 + r.Intn(30)
			lines := make([]string, total)
			for k := range lines {
				lines[k] = fmt.Sprintf("line %d", k+1)
			}
			content := strings.Join(lines, "\n") + "\n"
			keep := r.Intn(4)
			li := 1 + r.Intn(total)
			c := excCase{claimed: content, actual: strings.Join(lines[:keep], "\n"), line: li, col: 1 + r.Intn(4), code: "PKGO02", msg: "cut", tag: "much-shorter-file"}
			if keep > 0 && r.Bool() {
				c.actual += "\n"
			}
			if i%4 == 3 {
				// the scanner gives up at an over-long line: everything from there on is gone
				big := append([]string{}, lines...)
				at := r.Intn(3)
				big[at] = genLine(r, 66000, 0)
				c.claimed = strings.Join(big, "\n") + "\n"
				c.actual = c.claimed
				c.tag = "scanner-limit-far"
			}
			cases = append(cases, c)
		}
		// files that cannot be read, or are shorter / different than expected
		for i := 0; i < 40; i++ {
			n := r.Intn(3 * M)
			line := genLine(r, n, 0)
			lines := []string{"a", "b", line, "c"}
			content := strings.Join(lines, "\n") + "\n"
			c := excCase{claimed: content, actual: content, line: 3, col: 1 + r.Intn(n+1), code: "IMM01", msg: "x"}
			switch i % 4 {
			case 0:
				c.unreadable, c.tag = true, "unreadable"
			case 1:
				c.actual, c.tag = "only one line\n", "shorter-file"
			case 2:
				c.actual, c.tag = "", "empty-file"
			default:
				c.actual, c.tag = "a\r\nb\r\n"+line+"\r\n", "crlf"
			}
			cases = append(cases, c)
		}
		// a 70 kB line: bufio.Scanner's token limit ends the scan (error ignored): lines after it are gone
		for _, at := range []int{1, 3} {
			long := genLine(r, 70000, 0)
			lines := []string{"first", "second", "third", "fourth"}
			lines[at-1] = long
			content := strings.Join(lines, "\n") + "\n"
			for _, li := range []int{1, 2, 3, 4} {
				cases = append(cases, excCase{claimed: content, actual: content, line: li, col: 2, code: "CTOR01", msg: "long", tag: "scanner-limit"})
			}
		}
		// exact scanner boundary
		for _, n := range []int{65534, 65535, 65536, 65537} {
			content := "x\n" + genLine(r, n, 0) + "\ny\n"
			cases = append(cases, excCase{claimed: content, actual: content, line: 3, col: 1, code: "IMM02", msg: "b", tag: "scanner-boundary"})
			content2 := "x\n" + genLine(r, n, 0)
			cases = append(cases, excCase{claimed: content2, actual: content2, line: 2, col: 5, code: "IMM02", msg: "b", tag: "scanner-boundary-eof"})
		}
	}

	reqs := make([]string, len(cases))
	for i, c := range cases {
		reqs[i] = c.proto()
	}
	reps, err := mdl.Ask(reqs)
	if err != nil {
		panic(err)
	}
	distinct := map[string]bool{}
	for i, c := range cases {
		impl := excerptImpl(c)
		if impl == "skip" {
			sum.OutsideFragment++
			continue
		}
		sum.Evaluations++
		sum.Count(c.tag)
		model, _ := mdl.Unhex(reps[i])
		if strings.Contains(impl, "^\n") {
			key := fmt.Sprintf("%d/%d/%s", len(strings.Split(c.actual, "\n")[min(c.line-1, strings.Count(c.actual, "\n"))]), c.col, c.tag)
			if !distinct[key] {
				distinct[key] = true
				sum.DistinctNontrivial++
			}
		}
		if i%(len(cases)/5+1) == 0 && len(c.actual) < 400 {
			sum.Sample(fmt.Sprintf("line=%d col=%d tag=%s content=%q => %q", c.line, c.col, c.tag, c.actual, impl), 6)
		}
		if impl == model {
			continue
		}
		if panicOnly && !strings.HasPrefix(impl, "panic:") {
			continue
		}
		input := reqs[i]
		if len(c.prev) > 0 {
			var ps []string
			for _, pc := range c.prev {
				ps = append(ps, fmt.Sprintf("%d:%d", pc[0], pc[1]))
			}
			input += " prev=" + strings.Join(ps, ",")
		}
		if c.mapAt > 0 {
			o := mdl.Hex(c.other)
			if c.otherUnreadable {
				o = "!"
			}
			input += fmt.Sprintf(" twofiles=%s,%s,%d,%d,%d", mdl.Hex(c.claimed), o, c.mapAt, c.mapTo, c.physLine)
		}
		d := res.Disagreement{Kind: "impl-vs-model", Input: input, Impl: fmt.Sprintf("%q", impl), Model: fmt.Sprintf("%q", model), Clause: "GGV.Model.render"}
		if strings.HasPrefix(impl, "panic:") {
			d.Kind = "panic"
			d.Clause = "GGV.Props.C19.truncateG_total"
			d.Details = "the reporter panicked; the property demands a message without excerpt, never a failure"
		} else if clause := specExcerpt(c, impl, M); clause != "" {
			d.Kind = "impl-vs-spec"
			d.Clause = "C19 clause " + clause
			d.Details = fmt.Sprintf("line %d column %d of %q-tagged input: the implementation's message violates clause %q of the property", c.line, c.col, c.tag, clause)
		}
		sum.Disagree(d)
	}
	sum.Rule = "ReportViolation on synthetic files: line lengths in bands around {0,M-3,M,2M,3M} (quick) or all 0..3M (thorough) x columns in bands around {1,M-3,len-M+3,len} (quick) or all 1..len+1 (thorough) x byte patterns {ASCII ramp, tabs, 2-byte UTF-8, dots, random} x {only,first,last,middle line}; plus unreadable/shorter/empty/CRLF files and 64 KiB scanner-limit lines; whole message compared byte for byte; non-trivial = message has a caret row; distinct = (line length, column, shape)"
	sum.Extra = map[string]any{"max_line_length": M}
	return sum
}

func excerptParse(line string) (c excCase, err error) {
	f := strings.Fields(line)
	if len(f) >= 2 && f[0] == "excerpt" && f[1] == "render" {
		f = f[2:]
	}
	c = excCase{tag: "replay"}
	two := ""
	if len(f) >= 6 && strings.HasPrefix(f[len(f)-1], "twofiles=") {
		two = f[len(f)-1][len("twofiles="):]
		f = f[:len(f)-1]
	}
	defer func() {
		if p := strings.Split(two, ","); len(p) == 5 {
			c.claimed, _ = mdl.Unhex(p[0])
			if p[1] == "!" {
				c.otherUnreadable = true
			} else {
				c.other, _ = mdl.Unhex(p[1])
			}
			c.mapAt, _ = strconv.Atoi(p[2])
			c.mapTo, _ = strconv.Atoi(p[3])
			c.physLine, _ = strconv.Atoi(p[4])
		}
	}()
	if len(f) == 6 && strings.HasPrefix(f[5], "prev=") {
		for _, pc := range strings.Split(f[5][5:], ",") {
			var l, k int
			fmt.Sscanf(pc, "%d:%d", &l, &k)
			c.prev = append(c.prev, [2]int{l, k})
		}
		f = f[:5]
	}
	if len(f) != 5 {
		return excCase{}, fmt.Errorf("bad excerpt replay line")
	}
	if f[0] == "!" {
		c.unreadable = true
	} else {
		s, err := mdl.Unhex(f[0])
		if err != nil {
			return c, err
		}
		c.actual = s
	}
	c.claimed = c.actual
	c.line, _ = strconv.Atoi(f[1])
	c.col, _ = strconv.Atoi(f[2])
	c.code, _ = mdl.Unhex(f[3])
	c.msg, _ = mdl.Unhex(f[4])
	if c.unreadable || len(scanLines(c.actual)) < c.line {
		// the FileSet needs a file in which (line, col) exists
		c.claimed = strings.Repeat("\n", c.line-1) + strings.Repeat("x", c.col+1) + "\n"
	}
	return c, nil
}
