package main

// corr iset: util.IgnoreSet (real code, through its public API) vs the Lean model `ISet`, on the
// exhaustive history space C16 names plus seeded longer / wider / malformed histories.

import (
	"fmt"
	"go/token"
	"strings"

	"ggvh/internal/mdl"
	"ggvh/internal/res"
	"ggvh/internal/rng"

	"github.com/a14e/gogreement/src/util"
)

type isetOp struct {
	global     bool
	codes      []string
	start, end int
}

func (o isetOp) String() string {
	cs := "_"
	if len(o.codes) > 0 {
		cs = strings.Join(o.codes, "+")
	}
	if o.global {
		return "G:" + cs
	}
	return fmt.Sprintf("A:%s:%d:%d", cs, o.start, o.end)
}

type isetAnn struct {
	codes      []string
	start, end token.Pos
}

func (a isetAnn) GetCodes() []string     { return a.codes }
func (a isetAnn) GetStartPos() token.Pos { return a.start }
func (a isetAnn) GetEndPos() token.Pos   { return a.end }

type isetQuery struct {
	code string
	pos  int
}

func isetRunImpl(ops []isetOp, qs []isetQuery) (out string) {
	return isetRunImplMode(ops, qs, false)
}

// isetRunImplMode: with interleaved, every query is also asked after every operation of the history (on the same
// set); the answers returned are those after the last one. What was asked before must not matter.
func isetRunImplMode(ops []isetOp, qs []isetQuery, interleaved bool) (out string) {
	defer func() {
		if r := recover(); r != nil {
			out = fmt.Sprintf("panic:%v", r)
		}
	}()
	s := &util.IgnoreSet{}
	for _, o := range ops {
		if interleaved {
			for _, q := range qs {
				s.Contains(q.code, token.Pos(q.pos))
			}
		}
		if o.global {
			s.AddModuleIgnore(o.codes)
		} else {
			s.Add(isetAnn{o.codes, token.Pos(o.start), token.Pos(o.end)})
		}
	}
	b := make([]byte, len(qs))
	for i, q := range qs {
		if s.Contains(q.code, token.Pos(q.pos)) {
			b[i] = '1'
		} else {
			b[i] = '0'
		}
	}
	return string(b)
}

// isetSpec is the history specification of C16 evaluated directly (independent of both the
// implementation and the Lean model; used to label a disagreement, never to accept one).
func isetSpec(ops []isetOp, q isetQuery, hier func(string) []string) bool {
	for _, t := range hier(q.code) {
		for _, o := range ops {
			has := false
			for _, c := range o.codes {
				if c == t {
					has = true
				}
			}
			if !has {
				continue
			}
			if o.global || (o.start <= q.pos && q.pos <= o.end) {
				return true
			}
		}
	}
	return false
}

func isetLine(ops []isetOp, qs []isetQuery) string {
	os := "-"
	if len(ops) > 0 {
		parts := make([]string, len(ops))
		for i, o := range ops {
			parts[i] = o.String()
		}
		os = strings.Join(parts, "|")
	}
	qp := make([]string, len(qs))
	for i, q := range qs {
		qp[i] = fmt.Sprintf("%s:%d", q.code, q.pos)
	}
	return "iset hist " + os + " " + strings.Join(qp, ",")
}

func corrISet(tier string, seed uint64, replay string) *res.Summary {
	sum := &res.Summary{Suite: "iset", Tier: tier, Seed: seed}
	alphabet := []string{"ALL", "IMM", "IMM01", "IMM02", "CTOR01", "UNKNOWN"}
	qcodes := []string{"ALL", "IMM", "IMM01", "IMM02", "CTOR01", "UNKNOWN", "CTOR", "CTOR02"}
	var baseOps []isetOp
	for _, c := range alphabet {
		baseOps = append(baseOps, isetOp{global: true, codes: []string{c}})
		for a := 1; a <= 5; a++ {
			for b := a; b <= 5; b++ {
				baseOps = append(baseOps, isetOp{codes: []string{c}, start: a, end: b})
			}
		}
	}
	var qs []isetQuery
	for _, c := range qcodes {
		for p := 0; p <= 6; p++ {
			qs = append(qs, isetQuery{c, p})
		}
	}
	// hierarchy as the model sees it (regenerated table), fetched from the model itself
	hierCache := map[string][]string{}
	hier := func(c string) []string {
		if h, ok := hierCache[c]; ok {
			return h
		}
		r, err := mdl.Ask([]string{"iset hier " + c})
		if err != nil {
			panic(err)
		}
		hierCache[c] = strings.Split(r[0], "+")
		return hierCache[c]
	}

	type hcase struct {
		ops []isetOp
		qs  []isetQuery
		tag string
	}
	var cases []hcase
	if replay != "" {
		// replay: one protocol line "iset hist <ops> <qs>"
		ops, rqs, err := isetParse(replay)
		if err != nil {
			panic(err)
		}
		cases = append(cases, hcase{ops, rqs, "replay"})
	} else {
		exhaustLen := 2
		if tier == "thorough" {
			exhaustLen = 3
		}
		var rec func(prefix []isetOp, depth int)
		rec = func(prefix []isetOp, depth int) {
			cp := append([]isetOp(nil), prefix...)
			cases = append(cases, hcase{cp, qs, fmt.Sprintf("exhaustive-len%d", len(cp))})
			if depth == exhaustLen {
				return
			}
			for _, o := range baseOps {
				rec(append(prefix, o), depth+1)
			}
		}
		rec(nil, 0)
		sum.Exhaustive = false // the property's bound is 4; longer lengths are sampled below
		r := rng.New(seed)
		nSample := 20000
		if tier == "thorough" {
			nSample = 400000
		}
		for i := 0; i < nSample; i++ {
			var ops []isetOp
			var tag string
			var myqs []isetQuery = qs
			switch {
			case i%4 == 0: // length 3..4 over the exhaustive alphabet (the property's bound)
				n := 3 + r.Intn(2)
				for j := 0; j < n; j++ {
					ops = append(ops, rng.Pick(r, baseOps))
				}
				tag = fmt.Sprintf("sampled-len%d", n)
			case i%4 == 1: // longer histories, wider ranges, multi-code markers
				n := 5 + r.Intn(12)
				for j := 0; j < n; j++ {
					var cs []string
					for k := 0; k <= r.Intn(3); k++ {
						cs = append(cs, rng.Pick(r, append(alphabet, "CTOR", "TONL01", "PKGO", "imm01", "")))
					}
					if r.Chance(1, 5) {
						ops = append(ops, isetOp{global: true, codes: cs})
					} else {
						a := 1 + r.Intn(40)
						ops = append(ops, isetOp{codes: cs, start: a, end: a + r.Intn(12)})
					}
				}
				myqs = nil
				for k := 0; k < 56; k++ {
					myqs = append(myqs, isetQuery{rng.Pick(r, append(qcodes, "TONL01", "TONL", "PKGO01", "x", "")), r.Intn(56)})
				}
				tag = "long-wide"
			case i%4 == 2: // malformed stream: empty code lists, inverted ranges, duplicates
				n := 1 + r.Intn(5)
				for j := 0; j < n; j++ {
					var cs []string
					if r.Chance(2, 3) {
						cs = []string{rng.Pick(r, alphabet)}
					}
					a, b := 1+r.Intn(6), 1+r.Intn(6)
					if r.Chance(1, 4) {
						ops = append(ops, isetOp{global: true, codes: cs})
					} else {
						ops = append(ops, isetOp{codes: cs, start: a, end: b})
					}
					if r.Chance(1, 3) {
						ops = append(ops, ops[len(ops)-1])
					}
				}
				tag = "malformed"
			default: // only globals / only scoped
				n := 1 + r.Intn(4)
				g := r.Bool()
				for j := 0; j < n; j++ {
					o := rng.Pick(r, baseOps)
					for o.global != g {
						o = rng.Pick(r, baseOps)
					}
					ops = append(ops, o)
				}
				tag = "one-kind"
			}
			cases = append(cases, hcase{ops, myqs, tag})
		}
		// every number of scoped suppressions from 1 to 70 (and some more), each queried inside and outside its range
		for n := 1; n <= 70 || (tier == "thorough" && n <= 300); n++ {
			var ops []isetOp
			var myqs []isetQuery
			code := alphabet[1+n%4]
			for j := 0; j < n; j++ {
				ops = append(ops, isetOp{codes: []string{code}, start: 3*j + 1, end: 3*j + 2})
				myqs = append(myqs, isetQuery{code, 3*j + 1}, isetQuery{code, 3*j + 3})
			}
			cases = append(cases, hcase{ops, myqs, "many-markers"})
		}
		// boundary outside the theorem's hypothesis (start = 0): run and log, never judged
		cases = append(cases, hcase{[]isetOp{{codes: []string{"IMM01"}, start: 0, end: 2}, {codes: []string{"IMM01"}, start: 3, end: 4}}, qs, "boundary-start0"})
	}

	const batch = 100000
	seen := map[string]bool{}
	for lo := 0; lo < len(cases); lo += batch {
		hi := lo + batch
		if hi > len(cases) {
			hi = len(cases)
		}
		reqs := make([]string, hi-lo)
		for i := lo; i < hi; i++ {
			reqs[i-lo] = isetLine(cases[i].ops, cases[i].qs)
		}
		reps, err := mdl.Ask(reqs)
		if err != nil {
			panic(err)
		}
		for i := lo; i < hi; i++ {
			c := cases[i]
			impl := isetRunImpl(c.ops, c.qs)
			model := reps[i-lo]
			// the same history with every query also asked after every step: same final answers
			if impl == model && len(c.ops) <= 6 && (len(c.ops) <= 2 || i%3 == 0) {
				if il := isetRunImplMode(c.ops, c.qs, true); il != impl {
					sum.Count("interleaved-queries")
					k := 0
					for k < len(il) && k < len(impl) && il[k] == impl[k] {
						k++
					}
					q := isetQuery{}
					if k < len(c.qs) {
						q = c.qs[k]
					}
					sum.Disagree(res.Disagreement{Kind: "impl-vs-spec", Input: reqs[i-lo] + " (every query also asked after every operation)", Impl: il, Model: model,
						Clause:  "C16: the answer depends on the history of suppressions only (GGV.Props.C16.contains_iff)",
						Details: fmt.Sprintf("query %s@%d answers differently when the same queries were already asked while the history was being built", q.code, q.pos)})
					continue
				}
				sum.Count("interleaved-queries")
			}
			sum.Evaluations++
			sum.Count(c.tag)
			if strings.Contains(impl, "1") && strings.Contains(impl, "0") {
				if !seen[reqs[i-lo]] {
					seen[reqs[i-lo]] = true
					sum.DistinctNontrivial++
				}
			}
			if i%(len(cases)/6+1) == 0 {
				sum.Sample(reqs[i-lo]+" => "+impl, 8)
			}
			if c.tag == "boundary-start0" {
				sum.Notes = append(sum.Notes, fmt.Sprintf("boundary start=0 (outside hypothesis StartsValid): impl=%s model=%s", impl, model))
				continue
			}
			startsValid := true
			for _, o := range c.ops {
				if !o.global && o.start < 1 {
					startsValid = false
				}
			}
			if impl == model {
				continue
			}
			// disagreement: label it with the independently evaluated history spec
			specBits := make([]byte, len(c.qs))
			firstBad := -1
			for k, q := range c.qs {
				if isetSpec(c.ops, q, hier) {
					specBits[k] = '1'
				} else {
					specBits[k] = '0'
				}
				if firstBad < 0 && k < len(impl) && impl[k] != specBits[k] {
					firstBad = k
				}
			}
			d := res.Disagreement{Kind: "impl-vs-model", Input: reqs[i-lo], Impl: impl, Model: model, Clause: "GGV.Props.C16.contains_iff"}
			if firstBad >= 0 && startsValid {
				d.Kind = "impl-vs-spec"
				// shrink: drop ops while the first bad query stays bad
				ops := c.ops
				q := c.qs[firstBad]
				for changed := true; changed; {
					changed = false
					for k := range ops {
						cand := append(append([]isetOp(nil), ops[:k]...), ops[k+1:]...)
						im := isetRunImpl(cand, []isetQuery{q})
						sp := isetSpec(cand, q, hier)
						if (im == "1") != sp {
							ops = cand
							changed = true
							break
						}
					}
				}
				d.Input = isetLine(ops, []isetQuery{q})
				d.Impl = isetRunImpl(ops, []isetQuery{q})
				d.Model = map[bool]string{true: "1", false: "0"}[isetSpec(ops, q, hier)]
				d.Shrunk = true
				d.Details = fmt.Sprintf("query %s@%d: implementation answers %s, the history specification (some token of %v global or with start<=pos<=end) says %s", q.code, q.pos, d.Impl, hier(q.code), d.Model)
			}
			sum.Disagree(d)
		}
	}
	sum.Rule = "histories over {ALL,IMM,IMM01,IMM02,CTOR01,UNKNOWN} x (15 ranges in 1..5 | global), all of length <= 2 (quick) / <= 3 (thorough) enumerated, lengths 3-4 and longer/wider/multi-code/malformed histories sampled from VERIF_SEED; each history answers 56 queries (8 codes x positions 0..6, or 56 random ones); non-trivial = answers contain both suppressed and unsuppressed queries; distinct = distinct protocol line"
	return sum
}

func isetParse(line string) ([]isetOp, []isetQuery, error) {
	f := strings.Fields(line)
	if len(f) >= 2 && f[0] == "iset" && f[1] == "hist" {
		f = f[2:]
	}
	if len(f) != 2 {
		return nil, nil, fmt.Errorf("bad iset replay line %q", line)
	}
	var ops []isetOp
	if f[0] != "-" {
		for _, s := range strings.Split(f[0], "|") {
			p := strings.Split(s, ":")
			var cs []string
			if len(p) > 1 && p[1] != "_" {
				cs = strings.Split(p[1], "+")
			}
			switch {
			case p[0] == "G" && len(p) == 2:
				ops = append(ops, isetOp{global: true, codes: cs})
			case p[0] == "A" && len(p) == 4:
				var a, b int
				fmt.Sscan(p[2], &a)
				fmt.Sscan(p[3], &b)
				ops = append(ops, isetOp{codes: cs, start: a, end: b})
			default:
				return nil, nil, fmt.Errorf("bad op %q", s)
			}
		}
	}
	var qs []isetQuery
	for _, s := range strings.Split(f[1], ",") {
		i := strings.LastIndexByte(s, ':')
		var p int
		fmt.Sscan(s[i+1:], &p)
		qs = append(qs, isetQuery{s[:i], p})
	}
	return ops, qs, nil
}
