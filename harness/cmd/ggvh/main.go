package main

import (
	"fmt"
	"os"
	"strconv"

	"ggvh/internal/mdl"
	"ggvh/internal/res"
)

// ggvh: translator + correspondence harness. It links /repo's current source (go.mod replace).
//
//	ggvh tables [--repo DIR] [--out FILE]
//	ggvh corr <suite> [--tier quick|thorough] [--seed N] [--model PATH] [--replay LINE] [--out FILE]
func main() {
	if len(os.Args) < 2 {
		fmt.Fprintln(os.Stderr, "usage: ggvh <tables|corr> ...")
		os.Exit(2)
	}
	switch os.Args[1] {
	case "tables":
		os.Exit(runTables(os.Args[2:]))
	case "corr":
		os.Exit(runCorr(os.Args[2:]))
	case "gen":
		// ggvh gen <dir> <seed> <optsBits> [<n>]: write generated programs (for debugging / replay by hand)
		var seed uint64
		var bits, n int
		fmt.Sscan(os.Args[3], &seed)
		fmt.Sscan(os.Args[4], &bits)
		n = 1
		if len(os.Args) > 5 {
			fmt.Sscan(os.Args[5], &n)
		}
		var specs []genSpec
		for i := 0; i < n; i++ {
			o := optsFromBits(bits)
			o.Root = fmt.Sprintf("k%d", i)
			specs = append(specs, genSpec{seed: seed + uint64(i), o: o})
		}
		if _, err := writeModule(os.Args[2], specs); err != nil {
			fmt.Fprintln(os.Stderr, err)
			os.Exit(1)
		}
	default:
		fmt.Fprintln(os.Stderr, "unknown subcommand", os.Args[1])
		os.Exit(2)
	}
}

type corrOpts struct {
	tier   string
	seed   uint64
	replay string
	out    string
	extra  map[string]string
}

var suites = map[string]func(o corrOpts) *res.Summary{
	"iset":    func(o corrOpts) *res.Summary { return corrISet(o.tier, o.seed, o.replay) },
	"excerpt": corrExcerpt,
	"shift":   corrShift,
	"cfg":     corrCfg,
	"std":     corrStd,
	"gram":    corrGram,
	"progdir": corrProgDir,
	"prog":    corrProg,
	"layout":  corrLayout,
	"ignore":  corrIgnore,
	"bin":     corrBin,
	"excl":    corrExcl,
}

func runCorr(args []string) int {
	if len(args) < 1 {
		fmt.Fprintln(os.Stderr, "usage: ggvh corr <suite> ...")
		return 2
	}
	suite := args[0]
	o := corrOpts{tier: "quick", seed: 1, extra: map[string]string{}}
	if v := os.Getenv("GGV_MODEL"); v != "" {
		mdl.Path = v
	}
	for i := 1; i < len(args); i++ {
		switch args[i] {
		case "--tier":
			i++
			o.tier = args[i]
		case "--seed":
			i++
			o.seed, _ = strconv.ParseUint(args[i], 10, 64)
		case "--model":
			i++
			mdl.Path = args[i]
		case "--replay":
			i++
			o.replay = args[i]
		case "--out":
			i++
			o.out = args[i]
		default:
			if len(args[i]) > 2 && args[i][:2] == "--" && i+1 < len(args) {
				o.extra[args[i][2:]] = args[i+1]
				i++
			}
		}
	}
	f, ok := suites[suite]
	if !ok {
		fmt.Fprintln(os.Stderr, "unknown suite", suite)
		return 2
	}
	s := f(o)
	s.Emit(o.out)
	return 0
}
