package main

// corr layout (C12) / spelling (C13): metamorphic comparison of the REAL analyzers on variants of the same
// generated program. The keyed diagnostic sets — (package, statement tag, code), and for the once-per-file codes
// (package, code, type) — must be equal between the base rendering and every variant; every variant is also
// compared with the Lean model like any other program.

import (
	"fmt"
	"os"
	"path/filepath"
	"regexp"
	"sort"
	"strings"

	"ggvh/internal/gen"
	"ggvh/internal/res"
	"ggvh/internal/rng"
	"ggvh/internal/run"

	"golang.org/x/tools/go/packages"
)

var tagRe = regexp.MustCompile(`/\*#(\d+)\*/`)
var tonlTypeRe = regexp.MustCompile(`type (\S+) is marked @testonly`)
var pkgoTypeRe = regexp.MustCompile(`\] (\S+) type is @packageonly`)
var localRe = regexp.MustCompile(`\b([a-z]+\d+)R\b`)

// keyedDiags maps the diagnostics of one program (root dir prefix kN/) to layout-independent keys.
func keyedDiags(dir, root string, results map[string]*run.PkgResult, roots []*packages.Package) []string {
	src := map[string][]string{}
	lineOf := func(file string, line int) string {
		ls, ok := src[file]
		if !ok {
			b, _ := os.ReadFile(file)
			ls = strings.Split(string(b), "\n")
			src[file] = ls
		}
		if line >= 1 && line <= len(ls) {
			return ls[line-1]
		}
		return ""
	}
	set := map[string]bool{}
	for _, p := range roots {
		if !strings.HasPrefix(p.PkgPath, "exp/"+root+"/") || strings.Contains(p.ID, "[") {
			continue
		}
		r := results[p.ID]
		if r == nil {
			continue
		}
		pk := strings.TrimPrefix(p.PkgPath, "exp/"+root+"/")
		for _, e := range r.Errors {
			set[pk+"|ERROR|"+e] = true
		}
		for _, d := range r.Diags {
			if strings.HasPrefix(d.Code, "IMPL") {
				continue
			}
			switch d.Code {
			case "TONL01":
				if m := tonlTypeRe.FindStringSubmatch(d.Message); m != nil {
					set[pk+"|TONL01|"+m[1]] = true
					continue
				}
			case "PKGO01":
				if m := pkgoTypeRe.FindStringSubmatch(d.Message); m != nil {
					// the first allowed package is the declaring one: same-named types of different packages stay apart
					decl := ""
					if i := strings.Index(d.Message, "Allowed packages: ["); i >= 0 {
						decl = strings.TrimPrefix(strings.Fields(d.Message[i+19:] + " ")[0], "exp/"+root+"/")
						decl = strings.TrimSuffix(decl, "]")
					}
					set[pk+"|PKGO01|"+decl+"."+m[1]] = true
					continue
				}
			}
			text := lineOf(d.File, d.Line)
			if m := probeRe.FindStringSubmatch(text); m != nil {
				// probe statements are labelled by (declaring package, type, index): drop the program's root
				set[pk+"|"+d.Code+"|@"+strings.TrimPrefix(m[1], "exp/"+root+"/")+":"+m[2]] = true
			} else if m := tagRe.FindStringSubmatch(text); m != nil {
				set[pk+"|"+d.Code+"|#"+m[1]] = true
			} else {
				set[pk+"|"+d.Code+"|"+localRe.ReplaceAllString(strings.TrimSpace(text), "$1")] = true
			}
		}
	}
	var l []string
	for k := range set {
		l = append(l, k)
	}
	sort.Strings(l)
	return l
}

func corrLayout(o corrOpts) *res.Summary {
	kind := o.extra["kind"] // "layout" (C12) or "spelling" (C13)
	if kind == "" {
		kind = "layout"
	}
	sum := &res.Summary{Suite: kind, Tier: o.tier, Seed: o.seed}
	setFocus(o.extra["focus"])
	r := rng.New(o.seed ^ 0x5EED)
	n := 40
	if o.tier == "thorough" {
		n = 500
	}
	if v := o.extra["n"]; v != "" {
		fmt.Sscan(v, &n)
	}
	type variant struct {
		name string
		o    gen.Options
	}
	variantsFor := func(base gen.Options) []variant {
		var vs []variant
		if kind == "layout" {
			mk := func(name string, f func(*gen.Options)) {
				v := base
				v.LayoutSeed = r.U64() % 1000
				f(&v)
				vs = append(vs, variant{name, v})
			}
			mk("permute", func(v *gen.Options) { v.PermuteDecls = true })
			mk("blanklines", func(v *gen.Options) { v.BlankLines = true })
			mk("rename", func(v *gen.Options) { v.RenameLocals = true })
			if !base.Ignores {
				mk("reassign", func(v *gen.Options) { v.Reassign = true })
				mk("all", func(v *gen.Options) {
					v.PermuteDecls, v.Reassign, v.BlankLines, v.RenameLocals = true, true, true, true
				})
			} else {
				mk("permute+blank+rename", func(v *gen.Options) { v.PermuteDecls, v.BlankLines, v.RenameLocals = true, true, true })
			}
		} else {
			for _, sp := range []int{1, 2, 3, 4, 5} {
				v := base
				v.Spelling = sp
				vs = append(vs, variant{fmt.Sprintf("spelling%d", sp), v})
			}
		}
		return vs
	}
	const perLoad = 25
	cfg := defaultProgCfg()
	for lo := 0; lo < n; lo += perLoad {
		hi := min(lo+perLoad, n)
		dir := scratchDir(kind)
		var specs []genSpec
		type group struct {
			seed     uint64
			base     string
			variants []string
			names    []string
		}
		var groups []group
		for i := lo; i < hi; i++ {
			seed := r.U64() % 1000000007
			base := gen.Options{Root: fmt.Sprintf("k%db", i), Ignores: kind == "layout" && i%2 == 0, TestFiles: i%5 == 1}
			g := group{seed: seed, base: base.Root}
			specs = append(specs, genSpec{seed: seed, o: base})
			for j, v := range variantsFor(base) {
				v.o.Root = fmt.Sprintf("k%dv%d", i, j)
				specs = append(specs, genSpec{seed: seed, o: v.o})
				g.variants = append(g.variants, v.o.Root)
				g.names = append(g.names, v.name)
			}
			groups = append(groups, g)
		}
		if _, err := writeModule(dir, specs); err != nil {
			panic(err)
		}
		// gofmt variant: reformat the files of the "blanklines" variant in place is not needed: gofmt -l shows the
		// generator's output is not canonical, so additionally check every base program gofmt'ed as variant "gofmt"
		pkgs, err := run.Load(dir, true)
		if err != nil {
			sum.Notes = append(sum.Notes, "batch failed to load: "+err.Error()[:min(len(err.Error()), 500)])
			sum.OutsideFragment += len(groups)
			os.RemoveAll(dir)
			continue
		}
		var roots []*packages.Package
		for _, p := range pkgs {
			if !strings.HasSuffix(p.ID, ".test") {
				roots = append(roots, p)
			}
		}
		results, err := run.Analyze(roots, false, false)
		if err != nil {
			panic(err)
		}
		for _, g := range groups {
			baseKeys := keyedDiags(dir, g.base, results, roots)
			sum.Evaluations++
			if len(baseKeys) > 0 {
				sum.DistinctNontrivial++
			}
			for vi, vr := range g.variants {
				vk := keyedDiags(dir, vr, results, roots)
				sum.Count("variant-" + g.names[vi])
				a, b := diffSets(focusKeys(baseKeys), focusKeys(vk))
				if len(a) == 0 && len(b) == 0 {
					continue
				}
				sum.Disagree(res.Disagreement{Kind: "impl-vs-spec", Input: fmt.Sprintf("%s seed=%d variant=%s", kind, g.seed, g.names[vi]),
					Impl: strings.Join(vk, " "), Model: strings.Join(baseKeys, " "),
					Clause:  map[string]string{"layout": "C12: reported statements and codes invariant under layout transformations", "spelling": "C13: same statements, same codes however the type is written"}[kind],
					Details: fmt.Sprintf("keyed diagnostics (package|code|statement tag or type) differ between the base rendering and variant %s: only in base %v; only in variant %v", g.names[vi], a, b)})
			}
			if len(baseKeys) > 3 {
				sum.Sample(fmt.Sprintf("seed=%d base keys=%v", g.seed, baseKeys[:4]), 5)
			}
		}
		// every variant also against the model
		outs, err := runModuleLoaded(dir, cfg, pkgs, roots, results)
		if err == nil {
			compareModule(sum, kind+"-variants", dir, cfg, outs, srcLine(dir))
		}
		os.RemoveAll(dir)
	}
	_ = filepath.Join
	sum.Rule = "per seed one base program and its variants (layout: declaration permutation, file reassignment, blank lines + comments, local renaming, composed; spelling: package-level alias, alias of an alias, renamed import, parenthesised types, function-local aliases of one name) rendered into one module; the real analyzers run on all of them; keyed sets (package|code|statement tag, and package|code|type for TONL01/PKGO01) of each variant must equal the base's; every variant is also compared with the model; non-trivial = base program with diagnostics"
	return sum
}

func focusKeys(keys []string) []string {
	if focus.all {
		return keys
	}
	var out []string
	for _, k := range keys {
		p := strings.Split(k, "|")
		if len(p) >= 2 && focus.code(":"+p[1]) {
			out = append(out, k)
		}
	}
	return out
}
