package main

// corr prog (L1): whole programs. Multi-package modules (generated, corpus, or a given directory) are loaded
// with go/packages; the REAL analyzers run in-process through x/tools' checker; independently the
// abstract program is extracted from the same syntax + types and sent to the Lean model, which runs the
// whole modelled pipeline and returns the expected (position, code) set per package.

import (
	"fmt"
	"os"
	"path/filepath"
	"regexp"
	"sort"
	"strings"

	"ggvh/internal/gen"
	"ggvh/internal/mdl"
	"ggvh/internal/res"
	"ggvh/internal/rng"
	"ggvh/internal/run"

	"golang.org/x/tools/go/packages"
)

type progCfg struct {
	scanTests     bool
	excludePaths  []string
	excludeChecks []string
}

func defaultProgCfg() progCfg { return progCfg{excludePaths: []string{"testdata"}} }

func (c progCfg) proto() string {
	enc := func(l []string) string {
		if len(l) == 0 {
			return "_"
		}
		p := make([]string, len(l))
		for i, x := range l {
			p[i] = mdl.Hex(x)
		}
		return strings.Join(p, ",")
	}
	s := "0"
	if c.scanTests {
		s = "1"
	}
	return fmt.Sprintf("apf cfg %s %s %s", s, enc(c.excludePaths), enc(c.excludeChecks))
}

func (c progCfg) String() string {
	return fmt.Sprintf("scan-tests=%v exclude-paths=%q exclude-checks=%q", c.scanTests, c.excludePaths, c.excludeChecks)
}

// parseModelDiags: "diags=<pos:code,...> wf=.. ..." -> sorted "pos:code" list
func parseModelReply(rep string) (diags []string, fields map[string]string) {
	fields = map[string]string{}
	for _, f := range strings.Fields(rep) {
		if i := strings.IndexByte(f, '='); i > 0 {
			fields[f[:i]] = f[i+1:]
		}
	}
	if d := fields["diags"]; d != "" && d != "_" {
		diags = strings.Split(d, ",")
	}
	sort.Strings(diags)
	return
}

type progOutcome struct {
	pkgID                         string
	impl                          []string // "pos:code" (IMPL codes excluded: modelled by the impl suite)
	implLoc                       map[string]string
	model                         []string
	errors                        []string
	wf                            string
	reply                         string
	missing                       string
	apfBytes                      int
	implAnn, modelAnn             []string
	implMarkers, modelMarkers     []string
	implImpl, modelImpl, specImpl []string // @implements diagnostics: implementation, model, go/types oracle
}

// runModule loads dir, analyses it with the real analyzers and with the model, returns one outcome per root package.
func runModule(dir string, cfg progCfg, tests bool, sequential bool) ([]progOutcome, error) {
	pkgs, err := run.Load(dir, tests)
	if err != nil {
		return nil, err
	}
	var roots []*packages.Package
	for _, p := range pkgs {
		if strings.HasSuffix(p.ID, ".test") {
			continue // generated test main
		}
		roots = append(roots, p)
	}
	results, err := run.Analyze(roots, sequential, false)
	if err != nil {
		return nil, err
	}
	return runModuleLoaded(dir, cfg, pkgs, roots, results)
}

// runModuleLoaded: the model side for already loaded and analysed packages.
func runModuleLoaded(dir string, cfg progCfg, pkgs []*packages.Package, roots []*packages.Package, results map[string]*run.PkgResult) ([]progOutcome, error) {
	absDir, _ := filepath.Abs(dir)
	inModule := func(p *packages.Package) bool {
		for _, f := range p.CompiledGoFiles {
			if strings.HasPrefix(f, absDir+string(os.PathSeparator)) {
				return true
			}
		}
		return len(p.CompiledGoFiles) == 0 && p.Module != nil && p.Module.Main
	}
	order := run.Order(roots)
	reqs := []string{"apf reset", cfg.proto()}
	for _, p := range order {
		reqs = append(reqs, "apf pkg "+run.APF(p, inModule))
	}
	reps, err := mdl.Ask(reqs)
	if err != nil {
		return nil, err
	}
	isRoot := map[string]bool{}
	for _, p := range roots {
		isRoot[p.ID] = true
	}
	var out []progOutcome
	for i, p := range order {
		if !isRoot[p.ID] {
			continue
		}
		rep := reps[i+2]
		o := progOutcome{pkgID: p.ID, reply: rep, implLoc: map[string]string{}, apfBytes: len(reqs[i+2])}
		var fields map[string]string
		o.model, fields = parseModelReply(rep)
		o.wf = fields["wf"]
		o.missing = fields["missingfacts"]
		splitSorted := func(v string) []string {
			if v == "" || v == "_" {
				return nil
			}
			l := strings.Split(v, ",")
			sort.Strings(l)
			return l
		}
		o.modelAnn = splitSorted(fields["ann"])
		o.modelMarkers = splitSorted(fields["ign"])
		o.modelImpl = uniqSorted(splitSorted(fields["impl"]))
		o.specImpl = uniqSorted(splitSorted(fields["implspec"]))
		if r := results[p.ID]; r != nil {
			o.implAnn = r.Ann
			o.implMarkers = r.Markers
			o.errors = r.Errors
			seen := map[string]bool{}
			for _, d := range r.Diags {
				if strings.HasPrefix(d.Code, "IMPL") {
					o.implImpl = append(o.implImpl, implKey(d))
					rel, _ := filepath.Rel(absDir, d.File)
					o.implLoc[implKey(d)] = fmt.Sprintf("%s:%d:%d", rel, d.Line, d.Col)
					continue
				}
				k := fmt.Sprintf("%d:%s", int(d.Pos), d.Code)
				if !seen[k] {
					seen[k] = true
					o.impl = append(o.impl, k)
				}
				rel, _ := filepath.Rel(absDir, d.File)
				o.implLoc[k] = fmt.Sprintf("%s:%d:%d", rel, d.Line, d.Col)
			}
		}
		sort.Strings(o.impl)
		o.implImpl = uniqSorted(o.implImpl)
		out = append(out, o)
	}
	return out, nil
}

func diffSets(a, b []string) (onlyA, onlyB []string) {
	m := map[string]bool{}
	for _, x := range b {
		m[x] = true
	}
	ma := map[string]bool{}
	for _, x := range a {
		ma[x] = true
		if !m[x] {
			onlyA = append(onlyA, x)
		}
	}
	for _, x := range b {
		if !ma[x] {
			onlyB = append(onlyB, x)
		}
	}
	return
}

// focus restricts which differences a property's check reports (a TONL-only discrepancy is not a C01 violation).
// Tokens: code prefixes (IMM, CTOR, TONL, PKGO), ANN:<kinds> (annotation kinds I K T M P), IGN (markers), PANIC, ALL.
type focusSet struct {
	all     bool
	codes   []string
	annKind string
	ign     bool
	panics  bool
}

var focus = focusSet{all: true}

func setFocus(spec string) {
	if spec == "" || spec == "ALL" {
		focus = focusSet{all: true}
		return
	}
	focus = focusSet{}
	for _, t := range strings.Split(spec, ",") {
		switch {
		case t == "ALL":
			focus.all = true
		case t == "IGN":
			focus.ign = true
		case t == "PANIC":
			focus.panics = true
		case strings.HasPrefix(t, "ANN:"):
			focus.annKind += t[4:]
		default:
			focus.codes = append(focus.codes, t)
		}
	}
}

func (f focusSet) code(k string) bool {
	if f.all {
		return true
	}
	c := k[strings.IndexByte(k, ':')+1:]
	for _, p := range f.codes {
		if strings.HasPrefix(c, p) {
			return true
		}
	}
	return false
}

func (f focusSet) filterCodes(l []string) []string {
	var out []string
	for _, k := range l {
		if f.code(k) {
			out = append(out, k)
		}
	}
	return out
}

func (f focusSet) filterAnn(l []string) []string {
	if f.all {
		return l
	}
	var out []string
	for _, a := range l {
		if len(a) > 0 && strings.ContainsRune(f.annKind, rune(a[0])) {
			out = append(out, a)
		}
	}
	return out
}

func (f focusSet) panicRelevant(e string) bool {
	if f.all || f.panics {
		return true
	}
	an := map[string]string{"IMM": "immutabilitychecker", "CTOR": "constructorchecker", "TONL": "testonlychecker", "PKGO": "packageonlychecker"}
	for _, c := range f.codes {
		if a := an[c]; a != "" && strings.Contains(e, a) {
			return true
		}
	}
	return strings.Contains(e, "annotationreader") && f.annKind != "" || strings.Contains(e, "ignorereader") && f.ign
}

// compareModule records agreement / disagreement of every root package of a module run.
func compareModule(sum *res.Summary, label string, dir string, cfg progCfg, outs []progOutcome, srcOf func(loc string) string) {
	for _, o := range outs {
		sum.Evaluations++
		if len(o.impl) > 0 {
			sum.DistinctNontrivial++
			for _, k := range o.impl {
				sum.Count("code-" + k[strings.IndexByte(k, ':')+1:])
			}
		}
		if strings.HasPrefix(o.reply, "parse-error") || o.wf != "ok" {
			sum.OutsideFragment++
			sum.Disagree(res.Disagreement{Kind: "impl-vs-model", Input: label + " " + o.pkgID, Impl: strings.Join(o.impl, ","), Model: o.reply[:min(len(o.reply), 300)],
				Clause: "abstract program not well-formed / not readable by the model (extractor or APF reader out of step with the source)"})
			continue
		}
		for _, e := range o.errors {
			if !focus.panicRelevant(e) {
				continue
			}
			d := res.Disagreement{Kind: "panic", Input: label + " " + o.pkgID + " [" + cfg.String() + "]", Impl: e, Model: strings.Join(o.model, ","), Clause: "C10: every analyzer terminates normally"}
			sum.Disagree(d)
		}
		if a, b := strings.Join(focus.filterAnn(o.implAnn), ","), strings.Join(focus.filterAnn(o.modelAnn), ","); a != b && len(o.errors) == 0 {
			sum.Disagree(res.Disagreement{Kind: "impl-vs-spec", Input: label + " " + o.pkgID + " [" + cfg.String() + "]", Impl: a, Model: b,
				Clause:  "annotations read (ReadAllAnnotations vs GGV.Model.Prog.readAnnotations: grammar C15 + attachment sites)",
				Details: "the set of annotations the package exports as facts differs (I=immutable K=constructor T=testonly M=mutable P=packageonly; hex names)"})
		}
		if a, b := strings.Join(o.implMarkers, ","), strings.Join(o.modelMarkers, ","); a != b && len(o.errors) == 0 && (focus.all || focus.ign) {
			sum.Disagree(res.Disagreement{Kind: "impl-vs-spec", Input: label + " " + o.pkgID + " [" + cfg.String() + "]", Impl: a, Model: b,
				Clause:  "@ignore markers (ReadIgnoreAnnotations vs GGV.Model.Prog.ignoreOps: scopes C07)",
				Details: "the (start-end:codes) ranges of the package's @ignore comments differ"})
		}
		if focus.all || focus.code(":IMPL") {
			sum.AddN("impl-diagnostics", len(o.implImpl))
			if a, b := strings.Join(o.implImpl, ","), strings.Join(o.specImpl, ","); a != b && len(o.errors) == 0 {
				oi, om := diffSets(o.implImpl, o.specImpl)
				sum.Disagree(res.Disagreement{Kind: "impl-vs-spec", Input: label + " " + o.pkgID + " [" + cfg.String() + "]", Impl: a, Model: b,
					Clause:  "C05: @implements verdicts agree with Go's own type checker (oracle: go/types method sets, types.Identical, types.Implements)",
					Details: fmt.Sprintf("reported but Go disagrees: %v; Go says but not reported: %v (pos:code:hex(interface)[:missing methods])", decodeImplKeys(oi), decodeImplKeys(om))})
			} else if a, b := strings.Join(o.implImpl, ","), strings.Join(o.modelImpl, ","); a != b && len(o.errors) == 0 {
				sum.Disagree(res.Disagreement{Kind: "impl-vs-model", Input: label + " " + o.pkgID + " [" + cfg.String() + "]", Impl: a, Model: b,
					Clause: "GGV.Model.Prog.checkImplements (model of the @implements pipeline)"})
			}
		}
		sum.AddN("annotations-read", len(o.implAnn))
		sum.AddN("ignore-markers", len(o.implMarkers))
		onlyImpl, onlyModel := diffSets(focus.filterCodes(o.impl), focus.filterCodes(o.model))
		if len(onlyImpl) == 0 && len(onlyModel) == 0 {
			continue
		}
		if len(o.errors) > 0 && !focus.all && !focus.panics {
			// an analyzer of another category crashed: this category's own result is still judged, a crashed one is not
			crashedMine := false
			for _, e := range o.errors {
				if focus.panicRelevant(e) {
					crashedMine = true
				}
			}
			if crashedMine {
				continue // already reported as panic
			}
		}
		var det []string
		for _, k := range onlyImpl {
			det = append(det, fmt.Sprintf("reported but not expected: %s at %s %s", k, o.implLoc[k], srcOf(o.implLoc[k])))
		}
		for _, k := range onlyModel {
			det = append(det, fmt.Sprintf("expected but not reported: %s", k))
		}
		sum.Disagree(res.Disagreement{Kind: "impl-vs-spec", Input: label + " " + o.pkgID + " [" + cfg.String() + "]", Impl: strings.Join(o.impl, ","), Model: strings.Join(o.model, ","),
			Clause: "whole-program model (GGV.Model.Prog.analyze), proven exact against the specifications in Props/C01-C04, C07", Details: strings.Join(det, "; ")})
	}
}

// cfgFromExtra reads --scan 0|1, --paths a,b|- , --checks X,Y|- and installs the configuration for this process
// (one configuration per process: analyzer.configOnce).
func cfgFromExtra(o corrOpts) progCfg {
	cfg := defaultProgCfg()
	var paths, checks *string
	if v, ok := o.extra["paths"]; ok {
		cfg.excludePaths = nil
		if v != "-" {
			cfg.excludePaths = strings.Split(v, ",")
		}
		j := strings.Join(cfg.excludePaths, ",")
		paths = &j
	}
	if v, ok := o.extra["checks"]; ok {
		cfg.excludeChecks = nil
		if v != "-" {
			for _, c := range strings.Split(v, ",") {
				cfg.excludeChecks = append(cfg.excludeChecks, strings.ToUpper(c))
			}
		}
		checks = &v
		if v == "-" {
			e := ""
			checks = &e
		}
	}
	cfg.scanTests = o.extra["scan"] == "1"
	run.SetConfig(cfg.scanTests, paths, checks)
	return cfg
}

func corrProgDir(o corrOpts) *res.Summary {
	sum := &res.Summary{Suite: "progdir", Tier: o.tier, Seed: o.seed}
	dir := o.extra["dir"]
	cfg := cfgFromExtra(o)
	outs, err := runModule(dir, cfg, true, false)
	if err != nil {
		sum.Notes = append(sum.Notes, "load/analyse failed: "+err.Error())
		return sum
	}
	compareModule(sum, dir, dir, cfg, outs, func(string) string { return "" })
	for _, oc := range outs {
		sum.Sample(fmt.Sprintf("%s impl=%v model=%v apf=%dB", oc.pkgID, oc.impl, oc.model, oc.apfBytes), 40)
	}
	return sum
}

// checkExpectations: a corpus module may state, in a file EXPECT, the diagnostics the properties demand of it
// (file:line:code), independently of the model. A demanded diagnostic the real analyzers do not produce is a
// disagreement with the property; when the line names an entry of KNOWN_FINDINGS.json it is tagged
// with it — the driver then prints the KNOWN-FINDING line instead of a violation, for exactly these inputs.
func checkExpectations(sum *res.Summary, dir string, outs []progOutcome) {
	b, err := os.ReadFile(filepath.Join(dir, "EXPECT"))
	if err != nil {
		return
	}
	got := map[string]bool{}
	for _, o := range outs {
		for _, k := range o.impl {
			loc := o.implLoc[k] // file:line:col
			if i := strings.LastIndexByte(loc, ':'); i > 0 {
				got[loc[:i]+":"+k[strings.IndexByte(k, ':')+1:]] = true
			}
		}
	}
	for _, line := range strings.Split(string(b), "\n") {
		line = strings.TrimSpace(line)
		if line == "" || strings.HasPrefix(line, "#") {
			continue
		}
		// "file:line:CODE" or "file:line:CODE <known finding id>": only the lines that name a finding are tagged with it
		lineKnown := ""
		if f := strings.Fields(line); len(f) == 2 {
			line, lineKnown = f[0], f[1]
		}
		code := line[strings.LastIndexByte(line, ':')+1:]
		if !focus.all && !focus.code(code) {
			continue
		}
		sum.Evaluations++
		sum.Count("expectation-" + code)
		if !got[line] {
			sum.Disagree(res.Disagreement{Kind: "impl-vs-spec", Known: lineKnown, Input: "corpus:" + filepath.Base(dir) + " " + line, Impl: "not reported", Model: "reported (EXPECT)",
				Clause: "the property demands this diagnostic of the witness module (annotated method declared with an alias / parenthesised receiver)"})
		}
	}
}

// ---- generated programs

type genSpec struct {
	seed uint64
	o    gen.Options
	impl bool // an @implements scenario (gen.GenerateImpl) instead of a statement program
}

func writeModule(dir string, specs []genSpec) (map[string]*gen.Module, error) {
	mods := map[string]*gen.Module{}
	if err := os.MkdirAll(dir, 0o755); err != nil {
		return nil, err
	}
	if err := os.WriteFile(filepath.Join(dir, "go.mod"), []byte("module exp\n\ngo 1.25\n"), 0o644); err != nil {
		return nil, err
	}
	for _, sp := range specs {
		var m *gen.Module
		if sp.impl {
			m = gen.GenerateImpl(sp.seed, sp.o.Root)
		} else {
			m = gen.Generate(sp.seed, sp.o)
		}
		mods[sp.o.Root] = m
		for name, content := range m.Files {
			if name == "go.mod" {
				continue
			}
			path := filepath.Join(dir, name)
			if err := os.MkdirAll(filepath.Dir(path), 0o755); err != nil {
				return nil, err
			}
			if err := os.WriteFile(path, []byte(content), 0o644); err != nil {
				return nil, err
			}
		}
	}
	return mods, nil
}

func scratchDir(prefix string) string {
	base := os.Getenv("GGV_CACHE")
	if base == "" {
		base = os.TempDir()
	}
	os.MkdirAll(base, 0o755)
	d, err := os.MkdirTemp(base, prefix)
	if err != nil {
		panic(err)
	}
	return d
}

func srcLine(dir string) func(loc string) string {
	cache := map[string][]string{}
	return func(loc string) string {
		parts := strings.Split(loc, ":")
		if len(parts) < 2 {
			return ""
		}
		lines, ok := cache[parts[0]]
		if !ok {
			b, err := os.ReadFile(filepath.Join(dir, parts[0]))
			if err != nil {
				return ""
			}
			lines = strings.Split(string(b), "\n")
			cache[parts[0]] = lines
		}
		var ln int
		fmt.Sscan(parts[1], &ln)
		if ln >= 1 && ln <= len(lines) {
			return "`" + strings.TrimSpace(lines[ln-1]) + "`"
		}
		return ""
	}
}

func corrProg(o corrOpts) *res.Summary {
	sum := &res.Summary{Suite: "prog", Tier: o.tier, Seed: o.seed}
	setFocus(o.extra["focus"])
	r := rng.New(o.seed)
	n := 200
	if o.tier == "thorough" {
		n = 3000
	}
	if v := o.extra["n"]; v != "" {
		fmt.Sscan(v, &n)
	}
	cfg := cfgFromExtra(o)
	var seeds []uint64
	if o.replay != "" {
		// replay: "prog seed=<n> opts=<bits>"
		var s uint64
		var bits int
		fmt.Sscanf(o.replay, "prog seed=%d opts=%d", &s, &bits)
		seeds = []uint64{s}
		n = 1
		_ = bits
	}
	// corpus first: witnesses of past findings, the repository's own fixtures
	if o.replay == "" && o.extra["nocorpus"] == "" {
		croot, cdirs := corpusModules()
		for _, d := range cdirs {
			outs, err := runModule(d, cfg, true, false)
			if err != nil {
				sum.Notes = append(sum.Notes, "corpus module "+filepath.Base(d)+" not analysed: "+err.Error()[:min(len(err.Error()), 300)])
				continue
			}
			compareModule(sum, "corpus:"+filepath.Base(d), d, cfg, outs, srcLine(d))
			checkExpectations(sum, d, outs)
			sum.AddN("corpus-packages", len(outs))
		}
		os.RemoveAll(croot)
	}
	const perLoad = 150
	for lo := 0; lo < n; lo += perLoad {
		hi := min(lo+perLoad, n)
		var specs []genSpec
		for i := lo; i < hi; i++ {
			seed := r.U64() % 1000000007
			if o.replay != "" {
				seed = seeds[0]
			}
			opt := gen.Options{Root: fmt.Sprintf("k%d", i), Ignores: i%3 != 0, TestFiles: i%4 == 1, NearMiss: i%5 == 2, Spelling: []int{0, 0, 0, 1, 3, 4, 5, 2}[i%8]}
			if o.extra["testfiles"] == "1" {
				opt.TestFiles = true
			}
			if o.extra["noann"] == "1" {
				opt.NoAnnotations, opt.NearMiss = true, true
			}
			if o.replay != "" {
				var s uint64
				var bits int
				fmt.Sscanf(o.replay, "prog seed=%d opts=%d", &s, &bits)
				opt = optsFromBits(bits)
				opt.Root = "k0"
			}
			specs = append(specs, genSpec{seed: seed, o: opt, impl: o.extra["impl"] == "1" || (o.extra["impl"] == "" && o.extra["noann"] == "" && o.replay == "" && i%7 == 3)})
		}
		dir := scratchDir("prog")
		_, err := writeModule(dir, specs)
		if err != nil {
			panic(err)
		}
		outs, err := runModule(dir, cfg, true, false)
		if err != nil {
			// a program that does not compile is a generator bug: find it, report as note, never as agreement
			sum.Notes = append(sum.Notes, "batch failed to load: "+err.Error()[:min(len(err.Error()), 600)])
			sum.OutsideFragment += len(specs)
			os.RemoveAll(dir)
			continue
		}
		// group outcomes by program root for labels
		bySpec := map[string]genSpec{}
		for _, sp := range specs {
			bySpec[sp.o.Root] = sp
		}
		src := srcLine(dir)
		if o.extra["xpkg"] == "1" {
			noIgnore := map[string]bool{}
			for _, sp := range specs {
				if !sp.impl && !sp.o.Ignores {
					noIgnore[sp.o.Root] = true
				}
			}
			xpkgCheck(sum, dir, outs, noIgnore, cfg)
		}
		for _, oc := range outs {
			root := ""
			if parts := strings.Split(oc.pkgID, "/"); len(parts) > 1 {
				root = parts[1]
			}
			sp := bySpec[root]
			label := fmt.Sprintf("prog seed=%d opts=%d", sp.seed, optsBits(sp.o))
			if sp.impl {
				label = fmt.Sprintf("prog impl seed=%d", sp.seed)
			}
			compareModule(sum, label, dir, cfg, []progOutcome{oc}, src)
			if o.extra["noann"] == "1" {
				sum.Count("annotation-free-packages")
				sum.DistinctNontrivial++ // every package here is salted with near-miss comments at all attachment sites
				if len(oc.impl) > 0 || len(oc.implAnn) > 0 {
					var det []string
					for _, k := range oc.impl {
						det = append(det, k+" at "+oc.implLoc[k]+" "+src(oc.implLoc[k]))
					}
					sum.Disagree(res.Disagreement{Kind: "impl-vs-spec", Input: label + " " + oc.pkgID + " [" + cfg.String() + "]", Impl: strings.Join(oc.impl, ",") + " annotations=" + strings.Join(oc.implAnn, ","), Model: "no diagnostics, no annotations",
						Clause: "C09: a program without annotations (near-miss comments only) produces no diagnostic", Details: strings.Join(det, "; ")})
				}
			}
			if len(oc.impl) > 2 {
				sum.Sample(fmt.Sprintf("%s %s => %v", label, oc.pkgID, oc.impl), 6)
			}
		}
		os.RemoveAll(dir)
	}
	sum.Rule = "seeded multi-package modules (declaring packages with random subsets of the five annotations on types/functions/methods, user packages allowed by name/path/not at all, candidate statements of C01-C04 under random nests of if/for/switch/select/closure/defer/go, package-level initialisers, several files, optional @ignore comments in the four placements, _test.go and excluded-token files, near-miss comments, type spellings direct/alias/renamed import/parenthesised); per package the real analyzers' (position, code) set, the annotations read and the @ignore markers are compared with the Lean model's; non-trivial = package with at least one diagnostic"
	return sum
}

func optsBits(o gen.Options) int {
	b := o.Spelling
	if o.Ignores {
		b |= 8
	}
	if o.TestFiles {
		b |= 16
	}
	if o.NearMiss {
		b |= 32
	}
	if o.PermuteDecls {
		b |= 64
	}
	if o.Reassign {
		b |= 128
	}
	if o.BlankLines {
		b |= 256
	}
	if o.RenameLocals {
		b |= 512
	}
	return b
}

func optsFromBits(b int) gen.Options {
	return gen.Options{Spelling: b & 7, Ignores: b&8 != 0, TestFiles: b&16 != 0, NearMiss: b&32 != 0, PermuteDecls: b&64 != 0, Reassign: b&128 != 0, BlankLines: b&256 != 0, RenameLocals: b&512 != 0}
}

var implHeadRe = regexp.MustCompile(`interface "([^"]+)"`)
var implPkgRe = regexp.MustCompile(`package "([^"]*)" referenced`)
var implMethodRe = regexp.MustCompile(`(?m)^  ([A-Za-z_]\w*)\(`)

// implKey renders an IMPL diagnostic of the implementation in the model's encoding
func implKey(d run.Diag) string {
	switch d.Code {
	case "IMPL01":
		q := ""
		if m := implPkgRe.FindStringSubmatch(d.Message); m != nil {
			q = m[1]
		}
		return fmt.Sprintf("%d:IMPL01:%s", int(d.Pos), mdl.Hex(q))
	case "IMPL02":
		i := ""
		if m := implHeadRe.FindStringSubmatch(d.Message); m != nil {
			i = m[1]
		}
		return fmt.Sprintf("%d:IMPL02:%s", int(d.Pos), mdl.Hex(i))
	default:
		i := ""
		if m := implHeadRe.FindStringSubmatch(d.Message); m != nil {
			i = m[1]
		}
		var ms []string
		body := d.Message
		if k := strings.Index(body, "missing methods:"); k >= 0 {
			body = body[k:]
			if e := strings.Index(body, "\n  |"); e >= 0 {
				body = body[:e]
			}
			for _, m := range implMethodRe.FindAllStringSubmatch(body, -1) {
				ms = append(ms, mdl.Hex(m[1]))
			}
		}
		return fmt.Sprintf("%d:IMPL03:%s:%s", int(d.Pos), mdl.Hex(i), strings.Join(ms, "+"))
	}
}

func decodeImplKeys(keys []string) []string {
	var out []string
	for _, k := range keys {
		p := strings.Split(k, ":")
		for i := 2; i < len(p); i++ {
			var names []string
			for _, h := range strings.Split(p[i], "+") {
				if s, err := mdl.Unhex(h); err == nil {
					names = append(names, s)
				}
			}
			p[i] = strings.Join(names, "+")
		}
		out = append(out, strings.Join(p, ":"))
	}
	return out
}

var probeRe = regexp.MustCompile(`/\*@probe:([^:*]+):(\d+)\*/`)

// xpkgCheck (C06): the labelled probe statements over a type get the same IMM / CTOR / TONL02 / TONL03 codes in the
// declaring package and in every package that imports it directly (implementation against itself; programs without
// @ignore comments only, where nothing but the annotations decides).
func xpkgCheck(sum *res.Summary, dir string, outs []progOutcome, roots map[string]bool, cfg progCfg) {
	// labels per package directory, from the sources
	type site struct {
		file string
		line int
	}
	labels := map[string]map[string]site{} // pkg dir -> label -> site
	filepath.Walk(dir, func(path string, info os.FileInfo, err error) error {
		if err != nil || info.IsDir() || !strings.HasSuffix(path, ".go") || strings.HasSuffix(path, "_test.go") || strings.Contains(filepath.Base(path), "testdata") {
			return nil
		}
		rel, _ := filepath.Rel(dir, path)
		if !roots[strings.SplitN(rel, string(os.PathSeparator), 2)[0]] {
			return nil
		}
		b, _ := os.ReadFile(path)
		for i, l := range strings.Split(string(b), "\n") {
			if m := probeRe.FindStringSubmatch(l); m != nil {
				d := filepath.Dir(rel)
				if labels[d] == nil {
					labels[d] = map[string]site{}
				}
				labels[d][m[1]+":"+m[2]] = site{rel, i + 1}
			}
		}
		return nil
	})
	// codes per (file, line)
	codesAt := map[string][]string{}
	for _, oc := range outs {
		if strings.Contains(oc.pkgID, "[") {
			continue
		}
		for _, k := range oc.impl {
			loc := strings.Split(oc.implLoc[k], ":")
			code := k[strings.IndexByte(k, ':')+1:]
			if len(loc) >= 2 && (strings.HasPrefix(code, "IMM") || strings.HasPrefix(code, "CTOR") || code == "TONL02" || code == "TONL03") {
				key := loc[0] + ":" + loc[1]
				codesAt[key] = append(codesAt[key], code)
			}
		}
	}
	src := srcLine(dir)
	get := func(s site) string {
		l := append([]string(nil), codesAt[fmt.Sprintf("%s:%d", s.file, s.line)]...)
		sort.Strings(l)
		return strings.Join(l, "+")
	}
	for d, ls := range labels {
		for lab, s := range ls {
			declPath := lab[:strings.LastIndex(lab[:strings.LastIndexByte(lab, ':')], ".")]
			declDir := strings.TrimPrefix(declPath, "exp/")
			if declDir == d {
				continue
			}
			ds, ok := labels[declDir][lab]
			if !ok {
				continue
			}
			sum.Count("probe-comparisons")
			if a, b := get(ds), get(s); a != b {
				sum.Disagree(res.Disagreement{Kind: "impl-vs-spec", Input: fmt.Sprintf("prog xpkg %s in %s vs %s [%s]", lab, declDir, d, cfg.String()), Impl: fmt.Sprintf("importer %s:%d => [%s]", s.file, s.line, b), Model: fmt.Sprintf("declaring package %s:%d => [%s]", ds.file, ds.line, a),
					Clause:  "C06: every kind of annotation takes effect in importers exactly as in the declaring package (GGV.Props.C06.importer_as_declarer)",
					Details: "the same statement over the same type, outside constructors and @testonly functions, without @ignore comments: `" + strings.TrimSpace(src(fmt.Sprintf("%s:%d", s.file, s.line))) + "`"})
			}
		}
	}
}
