package main

// corr shift (C11): the diagnostics of a package do not depend on where its files lie in the run-wide position
// space (token.FileSet), which is decided by whatever else was loaded before them — other listed packages,
// dependencies, the order of the loader's goroutines. Every generated program is analysed by the real analyzers once
// as loaded and then again with one of its files moved so that a chosen byte inside an @ignore scope falls on a
// position that is a multiple of 2^k (k = 20, 16, 12: the page sizes a position-based filter or cache would use).
// The sets of (file, line, column, code) and the markers relative to their files must be the same.
// Proved counterpart: GGV.Props.C11.base_shift_invariant (a shift of positions is a re-layout).

import (
	"fmt"
	"go/token"
	"os"
	"path/filepath"
	"sort"
	"strings"

	"ggvh/internal/gen"
	"ggvh/internal/res"
	"ggvh/internal/rng"
	"ggvh/internal/run"

	"golang.org/x/tools/go/packages"
)

func corrShift(o corrOpts) *res.Summary {
	sum := &res.Summary{Suite: "shift", Tier: o.tier, Seed: o.seed}
	r := rng.New(o.seed ^ 0x5F17)
	n, trials := 12, 240
	if o.tier == "thorough" {
		n, trials = 60, 3000
	}
	if v := o.extra["n"]; v != "" {
		fmt.Sscan(v, &n)
	}
	if v := o.extra["trials"]; v != "" {
		fmt.Sscan(v, &trials)
	}
	cfgFromExtra(o)
	dir := scratchDir("shift")
	defer os.RemoveAll(dir)
	genModule(dir, r, n, func(i int) gen.Options {
		return gen.Options{Ignores: true, NearMiss: i%4 == 0, Spelling: []int{0, 1}[i%2]}
	})
	// @implements scenarios too (import declarations in source order, not in path order)
	for i := 0; i < 4; i++ {
		m := gen.GenerateImpl(r.U64()%1000000007, fmt.Sprintf("i%d", i))
		for name, content := range m.Files {
			if name == "go.mod" {
				continue
			}
			os.MkdirAll(filepath.Dir(filepath.Join(dir, name)), 0o755)
			os.WriteFile(filepath.Join(dir, name), []byte(content), 0o644)
		}
	}

	keysOf := func(pkgs []*packages.Package, prog string) (map[string][]string, []string, error) {
		var roots []*packages.Package
		for _, p := range pkgs {
			roots = append(roots, p)
		}
		out, err := run.Analyze(roots, false, false)
		if err != nil {
			return nil, nil, err
		}
		keys := map[string][]string{}
		var errs []string
		for id, pr := range out {
			if !strings.HasPrefix(id, "exp/"+prog+"/") {
				continue
			}
			errs = append(errs, pr.Errors...)
			var l []string
			for _, d := range pr.Diags {
				rel, _ := filepath.Rel(dir, d.File)
				l = append(l, fmt.Sprintf("%s:%d:%d:%s", rel, d.Line, d.Col, d.Code))
			}
			sort.Strings(l)
			keys[id] = l
		}
		return keys, errs, nil
	}
	type scope struct {
		prog, file string
		start, end int // byte offsets in the file
		codes      string
	}
	// baseline: the whole module as loaded, and the @ignore scopes of every package (file, offsets)
	basePkgs, err := run.Load(dir, false)
	if err != nil {
		sum.Notes = append(sum.Notes, "load failed: "+err.Error()[:min(300, len(err.Error()))])
		return sum
	}
	var roots []*packages.Package
	for _, p := range basePkgs {
		roots = append(roots, p)
	}
	baseOut, err := run.Analyze(roots, false, false)
	if err != nil {
		sum.Notes = append(sum.Notes, "analysis failed: "+err.Error())
		return sum
	}
	// the analysis reads what it is given: the import list of the type-checked package and the syntax trees are shared
	// by all analyzers of a package, which run concurrently
	for _, p := range basePkgs {
		if pr := baseOut[p.ID]; pr != nil && pr.Mutated != "" {
			sum.Evaluations++
			sum.Disagree(res.Disagreement{Kind: "impl-vs-spec", Input: fmt.Sprintf("shift seed=%d package=%s (whole module, parallel analysis)", o.seed, p.ID), Impl: pr.Mutated, Model: "inputs unchanged",
				Clause: "C11: concurrent analysis of packages has no data races — an analyzer changed an input that its sibling analyzers read at the same time"})
		}
	}
	sum.AddN("packages-checked-for-modified-inputs", len(basePkgs))
	baseKeys := map[string][]string{}
	var scopes []scope
	for _, p := range basePkgs {
		pr := baseOut[p.ID]
		if pr == nil {
			continue
		}
		var l []string
		for _, d := range pr.Diags {
			rel, _ := filepath.Rel(dir, d.File)
			l = append(l, fmt.Sprintf("%s:%d:%d:%s", rel, d.Line, d.Col, d.Code))
		}
		sort.Strings(l)
		baseKeys[p.ID] = l
		parts := strings.SplitN(p.ID, "/", 3)
		for _, m := range pr.Markers {
			var s, e int
			i := strings.IndexByte(m, ':')
			fmt.Sscanf(m[:i], "%d-%d", &s, &e)
			ps, pe := p.Fset.PositionFor(token.Pos(s), false), p.Fset.PositionFor(token.Pos(e), false)
			if ps.Filename == "" || ps.Filename != pe.Filename || pe.Offset <= ps.Offset || len(parts) < 2 {
				continue
			}
			scopes = append(scopes, scope{parts[1], ps.Filename, ps.Offset, pe.Offset, m[i+1:]})
		}
	}
	sort.Slice(scopes, func(i, j int) bool {
		if scopes[i].file != scopes[j].file {
			return scopes[i].file < scopes[j].file
		}
		return scopes[i].start < scopes[j].start
	})
	sum.AddN("ignore-scopes", len(scopes))
	if len(scopes) == 0 {
		sum.Notes = append(sum.Notes, "no @ignore scope in the generated programs")
		return sum
	}
	// half of the trials take the LAST scope of a file (nothing of the package starts behind it on the same page: the file
	// is followed by a page of padding), half any scope
	lastOf := map[string]scope{}
	var files []string
	for _, sc := range scopes {
		if l, ok := lastOf[sc.file]; !ok || sc.start > l.start {
			if !ok {
				files = append(files, sc.file)
			}
			lastOf[sc.file] = sc
		}
	}
	sort.Strings(files)
	for t := 0; t < trials; t++ {
		sc := scopes[r.Intn(len(scopes))]
		if t%2 == 0 {
			sc = lastOf[files[r.Intn(len(files))]]
		}
		// the boundary right behind the first byte of the scope (everything else of the scope lies beyond it), or anywhere inside
		off := sc.start + 1
		if r.Chance(1, 3) {
			off = sc.start + 1 + r.Intn(sc.end-sc.start)
		}
		bits := []uint{20, 20, 16, 12}[r.Intn(4)]
		pkgs, err := run.LoadShifted(dir, false, sc.file, off, bits, "./"+sc.prog+"/...")
		if err != nil {
			sum.Notes = append(sum.Notes, "shifted load failed: "+err.Error()[:min(200, len(err.Error()))])
			continue
		}
		got, errs, err := keysOf(pkgs, sc.prog)
		if err != nil {
			sum.Notes = append(sum.Notes, "shifted analysis failed: "+err.Error())
			continue
		}
		sum.Evaluations++
		sum.Count(fmt.Sprintf("boundary-2^%d", bits))
		rel, _ := filepath.Rel(dir, sc.file)
		label := fmt.Sprintf("shift seed=%d program=%s file=%s byte %d of the file placed on a multiple of 2^%d (@ignore %s scope = bytes %d..%d)", o.seed, sc.prog, rel, off, bits, sc.codes, sc.start, sc.end)
		for _, e := range errs {
			sum.Disagree(res.Disagreement{Kind: "panic", Input: label, Impl: e, Clause: "C10 / C11"})
		}
		nontrivial := false
		for id, g := range got {
			w := baseKeys[id]
			if len(w) > 0 {
				nontrivial = true
			}
			a, b := diffSets(w, g)
			if len(a)+len(b) > 0 {
				sum.Disagree(res.Disagreement{Kind: "impl-vs-spec", Input: label + " package=" + id, Impl: strings.Join(g, " ")[:min(500, len(strings.Join(g, " ")))], Model: "the diagnostics of the same package as loaded with the whole module",
					Clause:  "C11: identical diagnostics whether or not unrelated packages are analysed in the same run (GGV.Props.C11.base_shift_invariant)",
					Details: fmt.Sprintf("only with the module-wide layout: %v; only with the shifted file: %v", a[:min(len(a), 5)], b[:min(len(b), 5)])})
			}
		}
		if nontrivial {
			sum.DistinctNontrivial++
		}
	}
	sum.Rule = "generated multi-package programs with @ignore comments: analysed by the real analyzers as loaded with the whole module, then program by program with one file re-based in a fresh FileSet so that a byte inside one of its @ignore scopes (just behind the scope's start, or anywhere in it) lies on a position that is a multiple of 2^20 / 2^16 / 2^12; (file, line, column, code) sets per package must be equal; non-trivial = program with diagnostics"
	return sum
}
