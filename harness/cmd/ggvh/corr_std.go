package main

// corr std (C10): the real analyzers, in-process, on standard-library packages whose sources are overlaid with
// injected annotations and @ignore comments (go/packages Overlay: the files on disk are not touched). Real-world
// code — generics, embedded types, method values, labelled statements, huge literals, build-constrained files —
// next to every annotation kind; whatever the annotations say, every analyzer must terminate normally.

import (
	"fmt"
	"go/ast"
	"go/parser"
	"go/token"
	"os"
	"os/exec"
	"sort"
	"strings"
	"time"

	"ggvh/internal/res"
	"ggvh/internal/rng"
	"ggvh/internal/run"

	"golang.org/x/tools/go/packages"
)

var stdQuick = []string{"strings", "bytes", "sort", "container/list", "container/ring", "text/tabwriter", "path", "bufio", "errors", "encoding/csv", "strconv", "container/heap", "io", "math/bits", "net/url", "slices", "maps", "sync", "text/scanner"}
var stdThorough = []string{"go/ast", "go/scanner", "go/token", "go/printer", "encoding/json", "encoding/xml", "text/template", "text/template/parse", "regexp", "regexp/syntax", "math/big", "time", "fmt", "flag", "os", "io/fs", "path/filepath", "compress/flate", "archive/tar", "html/template", "database/sql", "log/slog", "net/netip", "mime/multipart", "image/png", "crypto/sha256", "testing", "reflect", "unicode", "context"}

func injectAnnotations(r *rng.R, fset *token.FileSet, path string, src []byte) []byte {
	f, err := parser.ParseFile(fset, path, src, parser.ParseComments)
	if err != nil {
		return src
	}
	lines := strings.Split(string(src), "\n")
	before := map[int][]string{} // 1-based line -> lines to insert before it
	firstOnLine := func(p token.Pos) (int, bool) {
		pos := fset.Position(p)
		if pos.Line < 1 || pos.Line > len(lines) {
			return 0, false
		}
		return pos.Line, strings.TrimSpace(lines[pos.Line-1][:min(len(lines[pos.Line-1]), pos.Column-1)]) == ""
	}
	codes := []string{"IMM01", "IMM", "ALL", "CTOR", "TONL01", "PKGO", "imm03", "CTOR01, TONL02", "IMPL03", "XYZ"}
	for _, d := range f.Decls {
		switch d := d.(type) {
		case *ast.GenDecl:
			if d.Tok != token.TYPE {
				continue
			}
			for _, s := range d.Specs {
				ts := s.(*ast.TypeSpec)
				at := ts.Pos()
				if !d.Lparen.IsValid() {
					at = d.Pos()
				}
				ln, ok := firstOnLine(at)
				if !ok || r.Chance(1, 3) {
					continue
				}
				var ann []string
				if r.Chance(2, 3) {
					ann = append(ann, "// @immutable")
				}
				if r.Chance(1, 2) {
					ann = append(ann, "// @constructor New"+ts.Name.Name+", new"+ts.Name.Name+", New")
				}
				if r.Chance(1, 4) {
					ann = append(ann, "// @testonly")
				}
				if r.Chance(1, 4) {
					ann = append(ann, "// @packageonly "+rng.Pick(r, []string{"", "strings", "bytes, io", "nosuch/pkg"}))
				}
				if r.Chance(1, 3) {
					ann = append(ann, "// @implements "+rng.Pick(r, []string{"io.Writer", "&io.Reader", "fmt.Stringer", "&sort.Interface", "error", "NoSuch", "nosuch.Iface", "&" + ts.Name.Name}))
				}
				before[ln] = append(before[ln], ann...)
				if st, ok := ts.Type.(*ast.StructType); ok && st.Fields != nil {
					for _, fld := range st.Fields.List {
						if fl, ok := firstOnLine(fld.Pos()); ok && r.Chance(1, 5) {
							before[fl] = append(before[fl], "// @mutable")
						}
					}
				}
			}
		case *ast.FuncDecl:
			ln, ok := firstOnLine(d.Pos())
			if ok && r.Chance(1, 4) {
				before[ln] = append(before[ln], rng.Pick(r, []string{"// @testonly", "// @packageonly", "// @packageonly strings, bytes", "// @ignore " + rng.Pick(r, codes)}))
			}
			if d.Body == nil {
				continue
			}
			ast.Inspect(d.Body, func(n ast.Node) bool {
				st, ok := n.(ast.Stmt)
				if !ok {
					return true
				}
				if _, isBlock := st.(*ast.BlockStmt); isBlock {
					return true
				}
				if sl, ok := firstOnLine(st.Pos()); ok && r.Chance(1, 12) {
					before[sl] = append(before[sl], "// @ignore "+rng.Pick(r, codes))
				}
				return true
			})
		}
	}
	if r.Chance(1, 6) {
		if ln, ok := firstOnLine(f.Package); ok {
			before[ln] = append(before[ln], "// @ignore "+rng.Pick(r, codes), "")
		}
	}
	var out []string
	for i, l := range lines {
		out = append(out, before[i+1]...)
		out = append(out, l)
	}
	return []byte(strings.Join(out, "\n"))
}

func corrStd(o corrOpts) *res.Summary {
	sum := &res.Summary{Suite: "std", Tier: o.tier, Seed: o.seed}
	setFocus(o.extra["focus"])
	r := rng.New(o.seed ^ 0x57D)
	pats := append([]string{}, stdQuick...)
	if o.tier == "thorough" {
		pats = append(pats, stdThorough...)
	}
	dir := scratchDir("std")
	defer func() { exec.Command("chmod", "-R", "u+w", dir).Run(); os.RemoveAll(dir) }()
	os.WriteFile(dir+"/go.mod", []byte("module stdprobe\n\ngo 1.25\n"), 0o644)
	// The toolchain this module selects may live in the module cache, and cmd/go refuses overlays of files beneath
	// GOMODCACHE: call that toolchain's go command directly (GOTOOLCHAIN=local) with an empty module cache of its own
	// (standard-library packages have no module dependencies).
	env := append(os.Environ(), "GOFLAGS=-mod=mod", "GOPROXY=off", "GOWORK=off")
	{
		c := exec.Command("go", "env", "GOROOT")
		c.Dir = dir
		c.Env = env
		if out, err := c.Output(); err == nil {
			goroot := strings.TrimSpace(string(out))
			os.MkdirAll(dir+"/modcache", 0o755)
			newPath := goroot + "/bin" + string(os.PathListSeparator) + os.Getenv("PATH")
			env = append(env, "PATH="+newPath, "GOTOOLCHAIN=local", "GOMODCACHE="+dir+"/modcache", "GOROOT="+goroot)
			// go/packages looks the go command up in this process's PATH
			oldPath := os.Getenv("PATH")
			os.Setenv("PATH", newPath)
			defer os.Setenv("PATH", oldPath)
		}
	}
	list, err := packages.Load(&packages.Config{Mode: packages.NeedName | packages.NeedFiles, Dir: dir, Env: env}, pats...)
	if err != nil {
		sum.Notes = append(sum.Notes, "go list failed: "+err.Error())
		return sum
	}
	overlay := map[string][]byte{}
	fset := token.NewFileSet()
	injected := 0
	for _, p := range list {
		for _, fn := range p.GoFiles {
			src, err := os.ReadFile(fn)
			if err != nil {
				continue
			}
			ns := injectAnnotations(r, fset, fn, src)
			if len(ns) != len(src) {
				overlay[fn] = ns
				injected += strings.Count(string(ns), "\n") - strings.Count(string(src), "\n")
			}
		}
	}
	sum.AddN("injected-comment-lines", injected)
	sum.AddN("overlaid-files", len(overlay))
	pkgs, err := packages.Load(&packages.Config{Mode: packages.LoadAllSyntax, Dir: dir, Env: env, Overlay: overlay}, pats...)
	if err != nil {
		sum.Notes = append(sum.Notes, "load failed: "+err.Error())
		return sum
	}
	var bad []string
	packages.Visit(pkgs, nil, func(p *packages.Package) {
		for _, e := range p.Errors {
			bad = append(bad, p.ID+": "+e.Error())
		}
	})
	if len(bad) > 0 {
		// an injected comment broke the source: the input is outside the quantifier (it must compile)
		sort.Strings(bad)
		sum.Notes = append(sum.Notes, "overlaid packages do not compile (generator problem): "+strings.Join(bad[:min(3, len(bad))], "; "))
		sum.OutsideFragment = len(bad)
		return sum
	}
	type outcome struct {
		res map[string]*run.PkgResult
		err error
	}
	ch := make(chan outcome, 1)
	go func() {
		rs, err := run.Analyze(pkgs, false, false)
		ch <- outcome{rs, err}
	}()
	limit := 10 * time.Minute
	var out outcome
	select {
	case out = <-ch:
	case <-time.After(limit):
		sum.Evaluations++
		sum.Disagree(res.Disagreement{Kind: "panic", Input: fmt.Sprintf("std seed=%d %v", o.seed, pats), Impl: fmt.Sprintf("the analysis did not terminate within %s", limit), Model: "normal termination", Clause: "C10: every analyzer terminates normally"})
		return sum
	}
	if out.err != nil {
		sum.Notes = append(sum.Notes, "checker.Analyze: "+out.err.Error())
		return sum
	}
	codesSeen := map[string]int{}
	for id, pr := range out.res {
		sum.Evaluations++
		for _, e := range pr.Errors {
			sum.Disagree(res.Disagreement{Kind: "panic", Input: fmt.Sprintf("std seed=%d package %s (with injected annotations)", o.seed, id), Impl: e[:min(len(e), 600)], Model: "normal termination",
				Clause: "C10: analysis is total: no panic or internal error on any compilable package"})
		}
		if len(pr.Diags) > 0 {
			sum.DistinctNontrivial++
		}
		for _, d := range pr.Diags {
			codesSeen[d.Code]++
		}
	}
	for c, n := range codesSeen {
		sum.AddN("code-"+c, n)
	}
	if o.extra["withmodel"] == "1" {
		// the Lean model on real-world code: same comparison as the prog suite (diagnostics, annotations read, markers)
		goroot := ""
		for _, kv := range env {
			if strings.HasPrefix(kv, "GOROOT=") {
				goroot = strings.TrimPrefix(kv, "GOROOT=")
			}
		}
		cfg := defaultProgCfg()
		outs, err := runModuleLoaded(goroot+"/src", cfg, pkgs, pkgs, out.res)
		if err != nil {
			sum.Notes = append(sum.Notes, "model comparison failed: "+err.Error())
		} else {
			sum.AddN("model-compared-packages", len(outs))
			compareModule(sum, "std", goroot+"/src", cfg, outs, srcLine(goroot+"/src"))
		}
	}
	sum.Sample(fmt.Sprintf("%d packages analysed (roots %d), %d files overlaid, %d comment lines injected, diagnostics by code %v", len(out.res), len(pkgs), len(overlay), injected, codesSeen), 2)
	sum.Rule = "standard-library packages (quick: 19 small ones; thorough: 49 incl. go/*, encoding/*, text/template, reflect, time, fmt) loaded with their dependencies, the roots' sources overlaid with injected annotations of every kind on types / fields / functions and @ignore comments before statements, declarations and package clauses; the real analyzers in-process with a time limit; a panic, analyzer error or hang is a violation; with withmodel=1 the root packages are also sent to the Lean model and compared like generated programs (diagnostics, annotations read, @ignore markers, @implements vs go/types); non-trivial = package with diagnostics"
	return sum
}
