module ggvh

go 1.25

require (
	github.com/a14e/gogreement v0.0.0
	golang.org/x/tools v0.38.0
)

require (
	github.com/cloudflare/ahocorasick v0.0.0-20240916140611-054963ec9396 // indirect
	golang.org/x/mod v0.29.0 // indirect
	golang.org/x/sync v0.17.0 // indirect
)

replace github.com/a14e/gogreement => /repo
