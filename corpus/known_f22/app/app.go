package app

import "exp/store"

func Run() {
	st := store.Open()
	st.Seed()
	st.Wipe()
	st.Reset()
}
