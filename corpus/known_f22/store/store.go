// Package store declares annotated methods whose receiver is written through an alias of the type and in parentheses.
package store

type Store struct{ N int }

// S is another name for Store.
type S = Store

func Open() *Store { return &Store{} }

// Seed is for tests only; its receiver is written through the alias.
// @testonly
func (s *S) Seed() {}

// Wipe is for package store only; its receiver type is written in parentheses.
// @packageonly
func (s (*Store)) Wipe() {}

// Reset is for tests only, declared the ordinary way (control).
// @testonly
func (s *Store) Reset() {}
