module exp

go 1.25
