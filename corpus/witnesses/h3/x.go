package h3

// @testonly
type Mock struct{}
