package h2

// @testonly
type Mock struct{}
