package b

import "exp/a"

// F6: a function of ANOTHER package named like the constructor. Pinned tree: silent. Spec: CTOR01 + IMM01.
func NewP() *a.P {
	p := &a.P{}
	p.X = 7
	return p
}

func F() {
	_ = a.P{}    // CTOR01
	_ = new(a.P) // CTOR02
}
