package h

import (
	"exp/h2"
	"exp/h3"
)

type I interface{ M() }

type Inner struct{}

func (*Inner) M() {}

// F10: pinned tree: false IMPL03 although the assignment below compiles.
// @implements I
type T struct{ *Inner }

var _ I = T{}

// @immutable
type C int

func (c *C) Dec()  { (*c)-- } // F13: unreported on the pinned tree (the documentation's own example)
func (c *C) Dec2() { *c-- }   // IMM03

func F() {
	_ = h2.Mock{} // TONL01
	_ = h3.Mock{} // F11: unreported on the pinned tree (dedup by bare name)
}
