package d

// @packageonly
type OnlyD struct{}

// @packageonly okname
type H struct{ V int }
