package user

import "exp/po/d"

type S struct {
	h d.H     // PKGO01 (H)
	d.OnlyD   // F16: unreported on the pinned tree (embedded field: ObjectOf returns the field)
}
