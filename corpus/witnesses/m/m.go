package m

// @immutable
// @constructor NewT
type T struct{ X int }

func NewT() T { return T{} }

var zero T // @ignore CTOR03   (F15: the inline marker is attributed to the NEXT declaration; with F2 repaired the CTOR03 shows)

func g(p *T) { p.X = 1 } // IMM01

func f() {
} // @ignore IMM01
func h(p *T) { p.X = 2 } // F15: pinned tree suppresses this IMM01 (whole following declaration covered)
