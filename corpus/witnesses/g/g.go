package g

// F12: pinned tree PANICS ("invalid line number 1000") in ignore.findInlineNode.

// @immutable
type P struct{ X int }

func F(p *P) {
//line gen.y:1000
	p.X = 1 // @ignore IMM01
}
