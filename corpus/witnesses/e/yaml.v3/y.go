package yaml

var X = 1

type M interface {
	Marshal(x interface{}, b uint8, f func(b int))
}
