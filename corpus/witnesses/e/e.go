package e

import (
	"exp/a"
	yml "exp/e/yaml.v3"
)

// @testonly
func Helper() {}

// @testonly
type Mock struct{}

func (m *Mock) Get() {} // receiver use of a @testonly type: TONL01 today; Unspecified in the spec

func Prod() {
	Helper := func() {}
	Helper() // F8: pinned tree reports TONL02 for the local closure
	var p a.P // CTOR03
	(p.X) = 3 // F13: unreported on the pinned tree
	_ = yml.X
}

// F7: pinned tree: IMPL01 (declared name `yaml` not found). F9: after F7, false IMPL03 (any/byte/param names).
// @implements yaml.M
type T struct{}

func (T) Marshal(x any, b byte, f func(a int)) {}

// F9: pinned tree: silent although **int is not *int. Spec: IMPL03.
// @implements &Deep
type U struct{}

func (*U) D(x **int) {}

type Deep interface{ D(x *int) }
