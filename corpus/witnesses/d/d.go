package d

// F1: first declarations of the first file; pinned tree PANICS (nil *ctx.currentFunction). Spec: IMM01.

// @immutable
type P struct{ X int }

var G = func() int { var q P; q.X = 2; return q.X }()
