package a

// @immutable
// @constructor NewP
type P struct {
	X int
	// @mutable
	M     int
	Items []int
}

func NewP() *P {
	p := &P{}
	p.X = 1
	return p
}

// F2: package-level initialiser after the constructor. Pinned tree: silent. Spec: CTOR01 + IMM01 here.
var G = func() *P { q := &P{}; q.X = 2; return q }()

func Other(p *P) {
	p.X = 3      // IMM01
	p.M = 4      // @mutable: nothing
	p.X += 1     // IMM02
	p.X++        // IMM03
	p.Items[0] = 1 // IMM04
	// @ignore CTOR01
	z := P{} // F4: pinned tree still reports CTOR01 (marker ends at the start of `z`)
	_ = z
	// @ignore CTOR03
	var w P // F4: pinned tree still reports CTOR03
	_ = w
	// @ignore IMM01
	if true {
		p.X = 9 // F4: pinned tree still reports IMM01
	}
}

type A = P

// F3: all three unreported on the pinned tree
func Alias(a *A) {
	a.X = 5
	var v A
	_ = v
	_ = A{}
}
