package k

// @constructor NewT
type T struct{ A int }

func NewT() T { return T{} }

func F() []T {
	return []T{
		{ // @ignore CTOR01   (F14: pinned tree still reports CTOR01 on this line)
			A: 1,
		},
		{A: 2}, // @ignore CTOR01
	}
}
