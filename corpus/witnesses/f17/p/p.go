package p

import "exp/f17/d"

var _ d.Reader

// T has methods Name and seal, but p.seal is not d.seal: Go says T does NOT implement d.Sealed.
// F17 (repaired): the pinned tree reported nothing; expected IMPL03 listing seal.
// @implements d.Sealed
type T struct{}

func (T) Name() string { return "" }
func (T) seal()        {}

// RC is a defined interface type that implements d.Reader by embedding it.
// F18 (repaired): the pinned tree reported a false IMPL03; expected nothing.
// @implements d.Reader
type RC interface {
	d.Reader
	Close()
}
