package d

// Sealed has an unexported method: only types of package d can implement it (F17).
type Sealed interface {
	Name() string
	seal()
}

type Reader interface{ Read() int }
