package impl

import "io"

var _ io.Reader

type Shape interface {
	Area() float64
	Name() string
}

// A names a package that is not imported.
// @implements nosuch.Iface
type A struct{}

// B names an interface that does not exist.
// @implements io.NoSuchInterface
type B struct{}

// C misses a method.
// @implements Shape
type C struct{}

func (C) Area() float64 { return 0 }

// D is correct.
// @implements Shape
// @implements &io.Reader
type D struct{}

func (D) Area() float64               { return 1 }
func (D) Name() string                { return "d" }
func (*D) Read(p []byte) (int, error) { return 0, nil }

// E carries two annotations that fail differently: both diagnostics sit on the type name.
// @implements Shape
// @implements nosuchpkg.Iface
type E struct{}

func (E) Name() string { return "e" }
