package impl

import "io"

var _ io.Reader

type Shape interface {
	Area() float64
	Name() string
}

// A names a package that is not imported.
// @implements nosuch.Iface
type A struct{}

// B names an interface that does not exist.
// @implements io.NoSuchInterface
type B struct{}

// C misses a method.
// @implements Shape
type C struct{}

func (C) Area() float64 { return 0 }

// D is correct.
// @implements Shape
// @implements &io.Reader
type D struct{}

func (D) Area() float64               { return 1 }
func (D) Name() string                { return "d" }
func (*D) Read(p []byte) (int, error) { return 0, nil }

// E carries two annotations that fail differently: both diagnostics sit on the type name.
// @implements Shape
// @implements nosuchpkg.Iface
type E struct{}

func (E) Name() string { return "e" }

// Wide has thirty methods; a type that claims it and has none gets one long diagnostic.
type Wide interface {
	OperationNumber01WithALongDescriptiveName(argument1 string, more ...int) (result map[string][]int, err error)
	OperationNumber02WithALongDescriptiveName(argument2 string, more ...int) (result map[string][]int, err error)
	OperationNumber03WithALongDescriptiveName(argument3 string, more ...int) (result map[string][]int, err error)
	OperationNumber04WithALongDescriptiveName(argument4 string, more ...int) (result map[string][]int, err error)
	OperationNumber05WithALongDescriptiveName(argument5 string, more ...int) (result map[string][]int, err error)
	OperationNumber06WithALongDescriptiveName(argument6 string, more ...int) (result map[string][]int, err error)
	OperationNumber07WithALongDescriptiveName(argument7 string, more ...int) (result map[string][]int, err error)
	OperationNumber08WithALongDescriptiveName(argument8 string, more ...int) (result map[string][]int, err error)
	OperationNumber09WithALongDescriptiveName(argument9 string, more ...int) (result map[string][]int, err error)
	OperationNumber10WithALongDescriptiveName(argument10 string, more ...int) (result map[string][]int, err error)
	OperationNumber11WithALongDescriptiveName(argument11 string, more ...int) (result map[string][]int, err error)
	OperationNumber12WithALongDescriptiveName(argument12 string, more ...int) (result map[string][]int, err error)
	OperationNumber13WithALongDescriptiveName(argument13 string, more ...int) (result map[string][]int, err error)
	OperationNumber14WithALongDescriptiveName(argument14 string, more ...int) (result map[string][]int, err error)
	OperationNumber15WithALongDescriptiveName(argument15 string, more ...int) (result map[string][]int, err error)
	OperationNumber16WithALongDescriptiveName(argument16 string, more ...int) (result map[string][]int, err error)
	OperationNumber17WithALongDescriptiveName(argument17 string, more ...int) (result map[string][]int, err error)
	OperationNumber18WithALongDescriptiveName(argument18 string, more ...int) (result map[string][]int, err error)
	OperationNumber19WithALongDescriptiveName(argument19 string, more ...int) (result map[string][]int, err error)
	OperationNumber20WithALongDescriptiveName(argument20 string, more ...int) (result map[string][]int, err error)
	OperationNumber21WithALongDescriptiveName(argument21 string, more ...int) (result map[string][]int, err error)
	OperationNumber22WithALongDescriptiveName(argument22 string, more ...int) (result map[string][]int, err error)
	OperationNumber23WithALongDescriptiveName(argument23 string, more ...int) (result map[string][]int, err error)
	OperationNumber24WithALongDescriptiveName(argument24 string, more ...int) (result map[string][]int, err error)
	OperationNumber25WithALongDescriptiveName(argument25 string, more ...int) (result map[string][]int, err error)
	OperationNumber26WithALongDescriptiveName(argument26 string, more ...int) (result map[string][]int, err error)
	OperationNumber27WithALongDescriptiveName(argument27 string, more ...int) (result map[string][]int, err error)
	OperationNumber28WithALongDescriptiveName(argument28 string, more ...int) (result map[string][]int, err error)
	OperationNumber29WithALongDescriptiveName(argument29 string, more ...int) (result map[string][]int, err error)
	OperationNumber30WithALongDescriptiveName(argument30 string, more ...int) (result map[string][]int, err error)
}

// F misses every method of Wide: the message is several kilobytes long and still complete.
// @implements Wide
type F struct{}
