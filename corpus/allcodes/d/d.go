// Package d declares one item per annotation kind; package u (not allowed) violates every rule once.
package d

// T is immutable, constructed only by NewT.
// @immutable
// @constructor NewT
type T struct {
	X     int
	Items []int
}

func NewT() *T { return &T{X: 1} }

// Mock is for tests only.
// @testonly
type Mock struct{ N int }

// Helper is for tests only.
// @testonly
func Helper() int { return 1 }

// Reset is for tests only.
// @testonly
func (t *T) Reset() {}

// Only is visible to package d only.
// @packageonly
type Only struct{ V int }

// OnlyFunc is visible to package d only.
// @packageonly
func OnlyFunc() int { return 2 }

// OnlyMethod is visible to package d only.
// @packageonly
func (t *T) OnlyMethod() {}

// Install is for tests only; it takes what a test helper made.
// @testonly
func (t *T) Install(n int) {}
