package nc

import "exp/d"

func Quiet(t *d.T) {
	t.X = 1
	t.X += 2
	t.X++
	t.Items[0] = 4
	t.X, t.Items[1] = 5, 6
	_ = d.T{}
	_ = new(d.T)
	var z d.T
	_ = z
	_ = d.Mock{}
	_ = d.Helper()
	t.Reset()
	_ = d.Only{}
	_ = d.OnlyFunc()
	t.OnlyMethod()
}
