package u

import "exp/d"

func Violations(t *d.T) {
	t.X = 1          // IMM01
	t.X += 2         // IMM02
	t.X++            // IMM03
	t.Items[0] = 4   // IMM04
	_ = d.T{}        // CTOR01
	_ = new(d.T)     // CTOR02
	var z d.T        // CTOR03
	_ = z
	_ = d.Mock{}     // TONL01
	_ = d.Helper()   // TONL02
	t.Reset()        // TONL03
	_ = d.Only{}     // PKGO01
	_ = d.OnlyFunc() // PKGO02
	t.OnlyMethod()   // PKGO03
}
