package u

import "exp/d"

func Violations(t *d.T) {
	t.X = 1
	t.X += 2
	t.X++
	t.Items[0] = 4
	_ = d.T{}
	_ = new(d.T)
	var z d.T
	_ = z
	_ = d.Mock{}
	_ = d.Helper()
	t.Reset()
	_ = d.Only{}
	_ = d.OnlyFunc()
	t.OnlyMethod()
}
