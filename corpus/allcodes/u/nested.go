package u

import "exp/d"

func pair(a, b d.T) {}

// Nested: reported expressions inside other reported expressions, and statements spanning several lines.
func Nested(t *d.T) {
	_ = d.Mock{N: d.Helper()}
	_ = &d.Only{V: d.OnlyFunc()}
	d.NewT().OnlyMethod()
	d.NewT().Reset()
	(&d.T{X: d.Helper()}).OnlyMethod()
	_ = []*d.T{{X: d.OnlyFunc()}}
	d.NewT().X = d.Helper()
	_ = d.Mock{N: func() int { return d.Helper() }()}
	d.NewT().
		OnlyMethod()
	d.NewT().
		Reset()
	pair(d.T{X: 1},
		d.T{X: 2})
	t.Items[d.Helper()] = d.OnlyFunc()
	_ = map[string]*d.T{"a": {X: 1},
		"b": {X: d.Helper()}}
}

func triple(a, b, c d.T) {}

// Interior: diagnostics on interior lines of expressions that span several lines.
func Interior() {
	triple(d.T{X: 1},
		d.T{X: 2},
		d.T{X: 3})
	_ = map[string]d.T{
		"a": d.T{X: 1},
		"b": d.T{X: d.Helper()},
	}
	_ = []int{
		d.Helper(),
		d.OnlyFunc(),
		0,
	}
}

// InstallFromHelper: a @testonly call as the argument of a @testonly method call.
func InstallFromHelper(t *d.T) {
	t.Install(d.Helper())
	t.Install(
		d.Helper())
}
