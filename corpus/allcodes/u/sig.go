package u

import "exp/d"

// wideSignature: reported type uses on interior lines of a signature broken over several lines.
func wideSignature(
	m d.Mock,
	o *d.Only,
	n int,
) (
	r d.Only,
) {
	return r
}
