package u

import "exp/d"

func first(t *d.T) int { return t.X }

func second(t *d.T) int { return t.X + 1 }

func third(t *d.T) {
	t.X = 7 // @ignore IMM01
	// @ignore IMM03
	t.X++
	t.X = 8
}
