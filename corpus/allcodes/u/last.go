package u

import "exp/d"

func (w *wrap) reset() { w.t.X = 0 }

type wrap struct{ t *d.T }

var Last = d.T{}