/-! Prototype for C15: recogniser for `@immutable`-style (no-argument) annotations vs a relational spec. -/
abbrev Bytes := List UInt8

def isWs (b : UInt8) : Bool := b == 9 || b == 10 || b == 12 || b == 13 || b == 32   -- RE2 \s

def dropWs : Bytes → Bytes
  | [] => []
  | b :: r => if isWs b then dropWs r else b :: r

def stripPrefix : Bytes → Bytes → Option Bytes
  | [], s => some s
  | _ :: _, [] => none
  | p :: ps, b :: s => if p = b then stripPrefix ps s else none

def slashes : Bytes := [47, 47]

/-- tail after the keyword is acceptable: end of line, or whitespace then anything -/
def tailOk : Bytes → Bool
  | [] => true
  | b :: _ => isWs b

/-- model of `^\s*//\s*@kw(?:\s+.*)?$` (kw given with its leading '@') -/
def recogniseBare (kw : Bytes) (line : Bytes) : Bool :=
  match stripPrefix slashes (dropWs line) with
  | none => false
  | some r => match stripPrefix kw (dropWs r) with
    | none => false
    | some t => tailOk t

/-- documented grammar, relationally -/
def RecognisedBare (kw line : Bytes) : Prop :=
  ∃ w1 w2 t : Bytes, (∀ b ∈ w1, isWs b) ∧ (∀ b ∈ w2, isWs b) ∧
    line = w1 ++ slashes ++ w2 ++ kw ++ t ∧ (t = [] ∨ ∃ b t', t = b :: t' ∧ isWs b)

theorem dropWs_append_of_ws (w s : Bytes) (hw : ∀ b ∈ w, isWs b) : dropWs (w ++ s) = dropWs s := by
  induction w with
  | nil => rfl
  | cons b r ih =>
    have hb : isWs b = true := hw b (by simp)
    simp only [List.cons_append, dropWs, hb, if_true]
    exact ih (fun x hx => hw x (by simp [hx]))

theorem dropWs_spec (s : Bytes) : ∃ w, (∀ b ∈ w, isWs b) ∧ s = w ++ dropWs s ∧
    (∀ b r, dropWs s = b :: r → isWs b = false) := by
  induction s with
  | nil => exact ⟨[], by simp, by simp [dropWs], by simp [dropWs]⟩
  | cons b r ih =>
    obtain ⟨w, h1, h2, h3⟩ := ih
    by_cases hb : isWs b = true
    · refine ⟨b :: w, ?_, ?_, ?_⟩
      · intro x hx; simp at hx; rcases hx with rfl | hx; exact hb; exact h1 x hx
      · simp [dropWs, hb]; exact h2
      · simpa [dropWs, hb] using h3
    · refine ⟨[], by simp, by simp [dropWs, hb], ?_⟩
      intro b' r' h
      simp [dropWs, hb] at h
      obtain ⟨rfl, _⟩ := h
      simpa using hb

theorem stripPrefix_eq_some (p s t : Bytes) : stripPrefix p s = some t ↔ s = p ++ t := by
  induction p generalizing s with
  | nil => simp [stripPrefix, eq_comm]
  | cons a ps ih =>
    cases s with
    | nil => simp [stripPrefix]
    | cons b s =>
      by_cases h : a = b
      · subst h; simp [stripPrefix, ih]
      · simp [stripPrefix, h]; intro h'; exact absurd h'.symm h

theorem dropWs_of_nonws_head (b : UInt8) (r : Bytes) (h : isWs b = false) : dropWs (b :: r) = b :: r := by
  simp [dropWs, h]

theorem recogniseBare_iff (kw line : Bytes) (hkw : ∃ k ks, kw = k :: ks ∧ isWs k = false) :
    recogniseBare kw line = true ↔ RecognisedBare kw line := by
  obtain ⟨k, ks, rfl, hk⟩ := hkw
  constructor
  · intro h
    unfold recogniseBare at h
    obtain ⟨w1, hw1, e1, _⟩ := dropWs_spec line
    split at h
    · simp at h
    · rename_i r hr
      rw [stripPrefix_eq_some] at hr
      obtain ⟨w2, hw2, e2, _⟩ := dropWs_spec r
      split at h
      · simp at h
      · rename_i t ht
        rw [stripPrefix_eq_some] at ht
        refine ⟨w1, w2, t, hw1, hw2, ?_, ?_⟩
        · rw [e1, hr, e2, ht]; simp [List.append_assoc]
        · cases t with
          | nil => left; rfl
          | cons b t' => right; exact ⟨b, t', rfl, by simpa [tailOk] using h⟩
  · rintro ⟨w1, w2, t, hw1, hw2, rfl, ht⟩
    unfold recogniseBare
    have e1 : dropWs (w1 ++ slashes ++ w2 ++ (k :: ks) ++ t) = slashes ++ (w2 ++ (k :: ks) ++ t) := by
      simp only [List.append_assoc]
      rw [dropWs_append_of_ws _ _ hw1]
      simp [slashes, dropWs, isWs]
    rw [e1]
    have e2 : stripPrefix slashes (slashes ++ (w2 ++ (k :: ks) ++ t)) = some (w2 ++ (k :: ks) ++ t) := by
      rw [stripPrefix_eq_some]
    rw [e2]
    simp only
    have e3 : dropWs (w2 ++ (k :: ks) ++ t) = (k :: ks) ++ t := by
      rw [List.append_assoc, dropWs_append_of_ws _ _ hw2]
      exact dropWs_of_nonws_head k _ hk
    rw [e3]
    have e4 : stripPrefix (k :: ks) ((k :: ks) ++ t) = some t := by rw [stripPrefix_eq_some]
    rw [e4]
    rcases ht with rfl | ⟨b, t', rfl, hb⟩
    · rfl
    · simpa [tailOk] using hb

#print axioms recogniseBare_iff
