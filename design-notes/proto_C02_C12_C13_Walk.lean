/-! Prototype for C02/C12: constructor walk over flattened declarations (post-repair model),
    exactness against a positional spec, and invariance under permutation of declarations. -/

structure TypeId where
  pkg : String
  name : String
deriving DecidableEq, Repr

inductive Ty where
  | named (id : TypeId)
  | ptr (t : Ty)
  | alias (id : TypeId) (rhs : Ty)
  | other

def Ty.unalias : Ty → Ty
  | .alias _ r => r.unalias
  | t => t

/-- pointer stripped once, aliases always: the defined type a literal / new / var denotes -/
def Ty.defined (t : Ty) : Option TypeId :=
  match t.unalias with
  | .named id => some id
  | .ptr e => match e.unalias with
    | .named id => some id
    | _ => none
  | _ => none

inductive Code | ctor01 | ctor02 | ctor03
deriving DecidableEq, Repr

inductive Kind where
  | funcDecl (name : String)
  | compositeLit (ty : Ty)
  | newCall (ty : Ty)
  | other

structure Node where
  kind : Kind
  pos : Nat

structure Decl where
  nodes : List Node      -- preorder of the declaration, the declaration's own node first

structure Diag where
  pos : Nat
  code : Code
deriving DecidableEq, Repr

structure Ctx where
  curPkg : String
  ctors : TypeId → List String

def siteOf (n : Node) : Option (Ty × Code) :=
  match n.kind with
  | .compositeLit t => some (t, .ctor01)
  | .newCall t => some (t, .ctor02)
  | _ => none

def verdict (c : Ctx) (cur : String) (n : Node) : Option Diag :=
  match siteOf n with
  | none => none
  | some (t, code) =>
    match t.defined with
    | none => none
    | some id =>
      if c.ctors id = [] then none
      else if id.pkg = c.curPkg ∧ cur ∈ c.ctors id then none
      else some ⟨n.pos, code⟩

/-- the walk as the code does it: state updated at FuncDecl nodes, scoped to one declaration -/
def walkNodes (c : Ctx) : String → List Node → List Diag
  | _, [] => []
  | cur, n :: r =>
    match n.kind with
    | .funcDecl name => walkNodes c name r
    | _ => (verdict c cur n).toList ++ walkNodes c cur r

def checkDecl (c : Ctx) (d : Decl) : List Diag := walkNodes c "" d.nodes
def checkFile (c : Ctx) (ds : List Decl) : List Diag := ds.flatMap (checkDecl c)

/-- FuncDecl nodes occur only as the head of a declaration (go/ast: FuncDecl is top-level only) -/
def Decl.WF (d : Decl) : Prop :=
  ∀ n ∈ d.nodes.tail, ∀ name, n.kind ≠ .funcDecl name

def Decl.enclosing (d : Decl) : String :=
  match d.nodes.head? with
  | some ⟨.funcDecl name, _⟩ => name
  | _ => ""

theorem walk_no_funcDecl (c : Ctx) (cur : String) (ns : List Node)
    (h : ∀ n ∈ ns, ∀ name, n.kind ≠ .funcDecl name) :
    walkNodes c cur ns = ns.flatMap (fun n => (verdict c cur n).toList) := by
  induction ns with
  | nil => rfl
  | cons n r ih =>
    have hn := h n (by simp)
    have hr := ih (fun m hm => h m (by simp [hm]))
    cases hk : n.kind with
    | funcDecl name => exact absurd hk (hn name)
    | _ => simp [walkNodes, hk, hr]

theorem verdict_funcDecl (c : Ctx) (cur : String) (n : Node) (name : String)
    (h : n.kind = .funcDecl name) : verdict c cur n = none := by
  simp [verdict, siteOf, h]

/-- the stateful walk of a declaration is a stateless map with the enclosing function's name -/
theorem checkDecl_eq (c : Ctx) (d : Decl) (hwf : d.WF) :
    checkDecl c d = d.nodes.flatMap (fun n => (verdict c d.enclosing n).toList) := by
  unfold checkDecl Decl.enclosing
  cases hns : d.nodes with
  | nil => rfl
  | cons n r =>
    have hr : ∀ m ∈ r, ∀ name, m.kind ≠ .funcDecl name := by
      intro m hm; have := hwf m; simp [hns] at this; exact this hm
    cases hk : n.kind with
    | funcDecl name =>
      have : n = ⟨.funcDecl name, n.pos⟩ := by cases n; simp_all
      rw [this]
      simp only [walkNodes, walk_no_funcDecl c name r hr, List.head?_cons, List.flatMap_cons,
        verdict_funcDecl c name ⟨.funcDecl name, n.pos⟩ name rfl, Option.toList_none, List.nil_append]
    | compositeLit t =>
      have : n = ⟨.compositeLit t, n.pos⟩ := by cases n; simp_all
      rw [this]; simp [walkNodes, walk_no_funcDecl c "" r hr]
    | newCall t =>
      have : n = ⟨.newCall t, n.pos⟩ := by cases n; simp_all
      rw [this]; simp [walkNodes, walk_no_funcDecl c "" r hr]
    | other =>
      have : n = ⟨.other, n.pos⟩ := by cases n; simp_all
      rw [this]; simp [walkNodes, walk_no_funcDecl c "" r hr]

/-- positional specification of C02 (literal and new sites) -/
def Reported (c : Ctx) (ds : List Decl) (dg : Diag) : Prop :=
  ∃ d ∈ ds, ∃ n ∈ d.nodes, ∃ t code id, siteOf n = some (t, code) ∧ t.defined = some id ∧
    c.ctors id ≠ [] ∧ ¬ (id.pkg = c.curPkg ∧ d.enclosing ∈ c.ctors id) ∧ dg = ⟨n.pos, code⟩

theorem constructor_exact (c : Ctx) (ds : List Decl) (hwf : ∀ d ∈ ds, d.WF) (dg : Diag) :
    dg ∈ checkFile c ds ↔ Reported c ds dg := by
  unfold checkFile Reported
  simp only [List.mem_flatMap]
  constructor
  · rintro ⟨d, hd, hmem⟩
    rw [checkDecl_eq c d (hwf d hd)] at hmem
    simp only [List.mem_flatMap, Option.mem_toList] at hmem
    obtain ⟨n, hn, hv⟩ := hmem
    refine ⟨d, hd, n, hn, ?_⟩
    unfold verdict at hv
    split at hv
    · simp at hv
    · rename_i t code hs
      split at hv
      · simp at hv
      · rename_i id hid
        split at hv
        · simp at hv
        · rename_i hne
          split at hv
          · simp at hv
          · rename_i hnot
            simp at hv
            exact ⟨t, code, id, hs, hid, hne, hnot, hv.symm⟩
  · rintro ⟨d, hd, n, hn, t, code, id, hs, hid, hne, hnot, rfl⟩
    refine ⟨d, hd, ?_⟩
    rw [checkDecl_eq c d (hwf d hd)]
    simp only [List.mem_flatMap, Option.mem_toList]
    refine ⟨n, hn, ?_⟩
    simp [verdict, hs, hid, hne, hnot]

/-- C12 (declaration order): the multiset of diagnostics is invariant under permutation -/
theorem perm_decls (c : Ctx) (ds ds' : List Decl) (h : ds.Perm ds') :
    (checkFile c ds).Perm (checkFile c ds') :=
  List.Perm.flatMap_right _ h

/-- C13 (spelling): identical types (here: same `defined`) get the same verdict -/
theorem verdict_respects_identity (c : Ctx) (cur : String) (p : Nat) (t₁ t₂ : Ty)
    (h : t₁.defined = t₂.defined) :
    verdict c cur ⟨.compositeLit t₁, p⟩ = verdict c cur ⟨.compositeLit t₂, p⟩ := by
  simp [verdict, siteOf, h]

#print axioms constructor_exact
#print axioms perm_decls
