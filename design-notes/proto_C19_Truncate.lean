abbrev Bytes := List UInt8

def dots : Bytes := [46, 46, 46]

/-- model of reporting.truncateString after the `<` fix; `fixd = false` gives the current `<=` -/
def truncate (fixd : Bool) (s : Bytes) (M : Nat) (pos : Int) : Bytes :=
  if s.length ≤ M then s
  else if M ≤ 3 then s.take M
  else
    let pos0 : Int := if pos - 1 < 0 then 0 else if pos - 1 ≥ s.length then s.length - 1 else pos - 1
    if (if fixd then pos0 < M - 3 else pos0 ≤ M - 3) then s.take (M - 3) ++ dots
    else if pos0 ≥ (s.length : Int) - M + 3 then dots ++ s.drop (s.length - M + 3)
    else
      let before := (M - 3) / 2
      let after := (M - 3) - before
      let start := (pos0 - before).toNat
      let stop := min (pos0 + after).toNat s.length
      dots ++ (s.drop start).take (stop - start) ++ dots

def displayCol (fixd : Bool) (s : Bytes) (pos : Int) (M : Nat) : Int :=
  if s.length ≤ M then pos
  else if pos - 1 < 0 then 1
  else
    let pos0 : Int := if pos - 1 ≥ s.length then s.length - 1 else pos - 1
    if (if fixd then pos0 < M - 3 else pos0 ≤ M - 3) then pos
    else if pos0 ≥ (s.length : Int) - M + 3 then 4 + (pos0 - ((s.length : Int) - M + 3))
    else 4 + ((M - 3) / 2 : Nat)

theorem caret_under_char (s : Bytes) (M : Nat) (col : Nat) (hM : 4 ≤ M)
    (h1 : 1 ≤ col) (h2 : col ≤ s.length) :
    (truncate true s M col)[(displayCol true s col M - 1).toNat]? = s[col - 1]? := by
  unfold truncate displayCol
  by_cases hs : s.length ≤ M
  · simp [hs]
  · have hM3 : ¬ M ≤ 3 := by omega
    have hneg : ¬ ((col : Int) - 1 < 0) := by omega
    have hge : ¬ ((col : Int) - 1 ≥ s.length) := by omega
    simp only [hs, hM3, hneg, hge, if_false, if_true]
    by_cases r1 : ((col : Int) - 1 < M - 3)
    · simp only [r1, if_true]
      have : (col:Int) - 1 = ((col - 1 : Nat) : Int) := by omega
      rw [show ((col : Int) - 1).toNat = col - 1 by omega]
      rw [List.getElem?_append_left (by simp; omega)]
      simp [List.getElem?_take]; omega
    · simp only [r1, if_false]
      by_cases r2 : ((col : Int) - 1 ≥ (s.length : Int) - M + 3)
      · simp only [r2, if_true]
        rw [List.getElem?_append_right (by simp [dots]; omega)]
        simp [dots, List.getElem?_drop]
        congr 1; omega
      · simp only [r2, if_false]
        rw [List.append_assoc, List.getElem?_append_right (by simp [dots]; omega)]
        rw [List.getElem?_append_left (by simp [dots]; omega)]
        simp [dots, List.getElem?_take, List.getElem?_drop]
        rw [if_pos (by omega)]
        congr 1; omega
