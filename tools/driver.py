"""Orchestration of the checks: build, proof audit, correspondence suites, verdict, evidence, replay.

See DESIGN.md §2/§6. Nothing here proves anything: the proofs are Lean theorems (lean/GGV/Props),
the ties are `ggvh tables` (regenerated tables) and `ggvh corr` (behavioural correspondence).
"""
import fcntl
import glob
import hashlib
import json
import os
import re
import subprocess
import sys
import time

VERIF = os.path.dirname(os.path.dirname(os.path.abspath(__file__)))
LEAN = os.path.join(VERIF, "lean")
HARNESS = os.path.join(VERIF, "harness")
REPO = os.environ.get("GGV_REPO", "/repo")
CACHE = os.path.join(VERIF, ".cache")
GGVH = os.path.join(HARNESS, "bin", "ggvh")
GGMODEL = os.path.join(LEAN, ".lake", "build", "bin", "ggmodel")
ALLOWED_AXIOMS = {"propext", "Classical.choice", "Quot.sound"}
FORBIDDEN = re.compile(r"\bsorry\b|\badmit\b|^\s*axiom\s|native_decide|bv_decide|implemented_by|\bunsafe\s|maxHeartbeats\s+0")

sys.path.insert(0, os.path.dirname(os.path.abspath(__file__)))
from registry import PROPS  # noqa: E402


def go_env():
    env = dict(os.environ)
    env["GOFLAGS"] = "-mod=mod"
    env["GOPROXY"] = "off"
    # GOSUMDB=off / GOTOOLCHAIN=local break the cached go1.25 toolchain switch /repo's go.mod needs
    env.pop("GOSUMDB", None)
    env.pop("GOTOOLCHAIN", None)
    env.setdefault("GOCACHE", os.path.expanduser("~/.cache/go-build"))
    return env


def sh(cmd, cwd=None, env=None, timeout=None, stdin=None):
    p = subprocess.run(cmd, cwd=cwd, env=env, stdout=subprocess.PIPE, stderr=subprocess.STDOUT,
                       timeout=timeout, text=True, input=stdin)
    return p.returncode, p.stdout


class Lock:
    """serialises lake / go builds when checks run concurrently"""

    def __enter__(self):
        os.makedirs(CACHE, exist_ok=True)
        self.f = open(os.path.join(CACHE, "build.lock"), "w")
        fcntl.flock(self.f, fcntl.LOCK_EX)
        return self

    def __exit__(self, *a):
        fcntl.flock(self.f, fcntl.LOCK_UN)
        self.f.close()


def repo_hash():
    h = hashlib.sha256()
    files = []
    for root in ("src", "cmd", "book"):
        for dp, dn, fn in os.walk(os.path.join(REPO, root)):
            dn.sort()
            for f in sorted(fn):
                files.append(os.path.join(dp, f))
    files.append(os.path.join(REPO, "go.mod"))
    for f in files:
        try:
            with open(f, "rb") as fh:
                h.update(f.encode())
                h.update(fh.read())
        except OSError:
            pass
    return h.hexdigest()[:16]


# ------------------------------------------------------------------------------------------- build

def build_harness():
    """compiles the harness, and with it /repo's current working tree (go.mod replace)"""
    os.makedirs(os.path.join(HARNESS, "bin"), exist_ok=True)
    gosum = os.path.join(REPO, "go.sum")
    if os.path.exists(gosum):
        with open(gosum) as f, open(os.path.join(HARNESS, "go.sum"), "w") as g:
            g.write(f.read())
    rc, out = sh(["go", "build", "-o", GGVH, "./cmd/ggvh"], cwd=HARNESS, env=go_env(), timeout=600)
    return rc == 0, out


def build_tool_binary():
    """the real gogreement binary, rebuilt from /repo on every check that needs it"""
    os.makedirs(os.path.join(CACHE, "bin"), exist_ok=True)
    out_bin = os.path.join(CACHE, "bin", "gogreement")
    rc, out = sh(["go", "build", "-o", out_bin, "./cmd/gogreement"], cwd=REPO, env=go_env(), timeout=600)
    return (out_bin if rc == 0 else None), out


def gen_tables():
    tables = os.path.join(LEAN, "GGV", "Gen", "Tables.lean")
    rc, out = sh([GGVH, "tables", "--repo", REPO, "--out", tables], env=go_env(), timeout=300)
    return rc == 0, out


def lake_build(targets):
    rc, out = sh(["lake", "build"] + targets, cwd=LEAN, timeout=3000)
    return rc == 0, out


def ensure_build(modules, need_binary=False):
    """returns dict with per-stage status; stages that fail leave the others usable where possible"""
    st = {"log": []}
    with Lock():
        ok, out = build_harness()
        st["harness"] = ok
        if not ok:
            st["log"].append("go build (harness + /repo) failed:\n" + out[-4000:])
        if ok:
            ok2, out2 = gen_tables()
            st["tables"] = ok2
            if not ok2:
                st["log"].append("ggvh tables failed:\n" + out2[-4000:])
        else:
            st["tables"] = False
        okm, outm = lake_build(["ggmodel"])
        st["model"] = okm
        if not okm:
            st["log"].append("lake build ggmodel failed:\n" + outm[-4000:])
        okp, outp = lake_build(modules)
        st["props"] = okp
        st["props_out"] = outp
        if not okp:
            st["log"].append("lake build %s failed:\n%s" % (" ".join(modules), outp[-6000:]))
        if need_binary:
            b, outb = build_tool_binary()
            st["binary"] = b
            if not b:
                st["log"].append("go build ./cmd/gogreement failed:\n" + outb[-4000:])
    return st


# ------------------------------------------------------------------------------------- proof audit

def lean_source_scan():
    """forbidden tokens outside comments in every committed Lean source"""
    hits = []
    for path in sorted(glob.glob(os.path.join(LEAN, "**", "*.lean"), recursive=True)):
        if "/.lake/" in path:
            continue
        depth = 0
        for ln, line in enumerate(open(path, encoding="utf-8"), 1):
            # strip block comments (nesting-aware, line granular) and line comments
            out = []
            i = 0
            while i < len(line):
                if line.startswith("/-", i):
                    depth += 1
                    i += 2
                elif line.startswith("-/", i) and depth > 0:
                    depth -= 1
                    i += 2
                elif depth == 0 and line.startswith("--", i):
                    break
                else:
                    if depth == 0:
                        out.append(line[i])
                    i += 1
            code = "".join(out)
            if FORBIDDEN.search(code):
                hits.append("%s:%d: %s" % (os.path.relpath(path, VERIF), ln, code.strip()))
    return hits


def audit(pid, theorems, module):
    """#print axioms for every registered theorem of the property; returns (results, log)"""
    os.makedirs(CACHE, exist_ok=True)
    src = os.path.join(CACHE, "audit_%s.lean" % pid)
    with open(src, "w") as f:
        f.write("import %s\n" % module)
        for t in theorems:
            f.write("#print axioms %s\n" % t)
    rc, out = sh(["lake", "env", "lean", src], cwd=LEAN, timeout=1200)
    results = {}
    # '#print axioms' output may wrap over several lines
    flat = re.sub(r"\s+", " ", out)
    for t in theorems:
        m = re.search(r"'%s' depends on axioms: \[([^\]]*)\]" % re.escape(t), flat)
        if m:
            axs = [a.strip() for a in m.group(1).split(",") if a.strip()]
            bad = [a for a in axs if a not in ALLOWED_AXIOMS]
            results[t] = {"ok": not bad, "axioms": axs, "why": ("disallowed axioms %s" % bad) if bad else ""}
        elif re.search(r"'%s' does not depend on any axioms" % re.escape(t), flat):
            results[t] = {"ok": True, "axioms": [], "why": ""}
        else:
            results[t] = {"ok": False, "axioms": [], "why": "theorem missing from the build (unknown constant or module failed)"}
    return results, out


# ------------------------------------------------------------------------------------------ suites

def run_suite(suite, tier, seed, extra=None, replay=None, timeout=7200):
    cmd = [GGVH, "corr", suite, "--tier", tier, "--seed", str(seed), "--model", GGMODEL]
    for k, v in (extra or {}).items():
        cmd += ["--" + k, str(v)]
    if replay is not None:
        cmd += ["--replay", replay]
    env = go_env()
    env["GGV_REPO"] = REPO
    env["GGV_VERIF"] = VERIF
    env["GGV_CACHE"] = CACHE
    if tier != "thorough":
        timeout = min(timeout, 2400)
    # own process group: on a timeout everything the suite started (the tool, go vet and its per-package tool
    # processes) is killed with it
    proc = subprocess.Popen(cmd, stdout=subprocess.PIPE, stderr=subprocess.PIPE, text=True, env=env, cwd=VERIF, start_new_session=True)
    try:
        so, se = proc.communicate(timeout=timeout)
    except subprocess.TimeoutExpired:
        # the suite is a session leader; the tool runs it starts get process groups of their own inside that session
        subprocess.run(["pkill", "-9", "-s", str(proc.pid)], stdout=subprocess.DEVNULL, stderr=subprocess.DEVNULL)
        try:
            os.killpg(proc.pid, 9)
        except OSError:
            pass
        proc.communicate()
        return None, "suite %s did not terminate within %d s (the analysis, run in-process, hangs or is far too slow)" % (suite, timeout)
    p = subprocess.CompletedProcess(cmd, proc.returncode, so, se)
    if p.returncode != 0:
        return None, "suite %s exited %d:\n%s" % (suite, p.returncode, (p.stderr or "")[-4000:])
    try:
        return json.loads(p.stdout), p.stderr
    except json.JSONDecodeError as e:
        return None, "suite %s printed invalid JSON (%s):\n%s" % (suite, e, p.stdout[-2000:])


# ---------------------------------------------------------------------------------- known findings

def load_known():
    path = os.path.join(VERIF, "KNOWN_FINDINGS.json")
    if not os.path.exists(path):
        return {"findings": [], "fixed": []}
    return json.load(open(path))


# ----------------------------------------------------------------------------------------- verdict

def write_replay(pid, seed, n, payload):
    os.makedirs(os.path.join(VERIF, "replays"), exist_ok=True)
    path = os.path.join(VERIF, "replays", "%s-seed%s-%d.json" % (pid, seed, n))
    with open(path, "w") as f:
        json.dump(payload, f, indent=1)
    return path


def run_property(pid, tier, seed):
    t0 = time.time()
    spec = PROPS[pid]
    # replay files of earlier runs of this property and seed are stale once the check runs again
    import glob
    for old in glob.glob(os.path.join(VERIF, "replays", "%s-seed%s-*.json" % (pid, seed))):
        try:
            os.remove(old)
        except OSError:
            pass
    module = spec.get("module", "GGV.Props.%s" % pid)
    theorems = spec["theorems"]
    suites = spec["suites"]
    known = load_known()
    my_known = [k for k in known.get("findings", []) if k["property"] == pid]

    st = ensure_build([module], need_binary=spec.get("binary", False))
    log = list(st["log"])

    # 1. proof obligations
    scan_hits = lean_source_scan()
    if st["props"]:
        ares, aout = audit(pid, theorems, module)
    else:
        ares = {t: {"ok": False, "axioms": [], "why": "module %s does not build" % module} for t in theorems}
        # find which declarations failed from the build output
        aout = st.get("props_out", "")
    failed_theorems = [t for t in theorems if not ares[t]["ok"]]
    obligations = len(theorems)
    discharged = obligations - len(failed_theorems)
    leanchecker = None
    if tier == "thorough" and st["props"]:
        rc, out = sh(["lake", "env", "leanchecker", module], cwd=LEAN, timeout=3000)
        leanchecker = (rc == 0)
        if rc != 0:
            log.append("leanchecker %s failed:\n%s" % (module, out[-3000:]))

    # 2. correspondence suites
    summaries = []
    suite_errors = []
    if st["harness"] and st["model"]:
        for s in suites:
            name, extra = (s, {}) if isinstance(s, str) else (s[0], s[1])
            if st.get("binary"):
                extra = dict(extra, binary=st["binary"])
            elif spec.get("binary", False):
                suite_errors.append("suite %s: the gogreement binary does not build" % name)
                continue
            sm, err = run_suite(name, tier, seed, extra)
            if sm is None:
                suite_errors.append(err)
            else:
                summaries.append(sm)
                if not sm.get("evaluations") and not sm.get("disagreements"):
                    # a suite that compared nothing decides nothing (e.g. its generated programs did not load)
                    suite_errors.append("suite %s %s evaluated nothing: %s" % (name, extra if not isinstance(extra, dict) else {k: v for k, v in extra.items() if k != "binary"},
                                                                            "; ".join(sm.get("notes") or [])[:1500]))
    else:
        if not st["harness"]:
            suite_errors.append("correspondence harness does not build against /repo (go build failed)")
        if not st["model"]:
            suite_errors.append("ggmodel does not build")

    # 3. decision
    violations = []   # (replay payload, concrete?)
    known_hits = {}
    for sm in summaries:
        for d in sm.get("disagreements", []):
            kid = d.get("known")
            if kid and any(k["id"] == kid for k in my_known):
                known_hits[kid] = known_hits.get(kid, 0) + 1
                continue
            concrete = d.get("kind") != "impl-vs-model"
            violations.append(({"property": pid, "suite": sm["suite"], "kind": d.get("kind"), "input": d.get("input"),
                                "impl": d.get("impl"), "model_or_spec": d.get("model"), "clause": d.get("clause"),
                                "details": d.get("details", ""), "shrunk": d.get("shrunk", False),
                                "replay_cmd": "./check %s --replay <this file>" % pid}, concrete))
    table_witness = None
    if failed_theorems or scan_hits:
        # a proof obligation no longer checks: look for a concrete witness in the regenerated tables
        if st["model"] and spec.get("table_diag"):
            rc, out = sh([GGMODEL], stdin="0 tables diag %s\n" % pid, timeout=120)
            m = re.match(r"0 (.*)", out.strip())
            if m and m.group(1) not in ("ok", "bad-suite", "bad-op"):
                table_witness = m.group(1)
    for e in suite_errors:
        log.append(e)

    out_lines = []
    exit_code = 0
    nrep = 0
    for k in my_known:
        out_lines.append("KNOWN-FINDING: property=%s %s" % (pid, k["what"]))
    concrete = [v for v, c in violations if c]
    abstract = [v for v, c in violations if not c]
    if concrete:
        for v in concrete[:5]:
            path = write_replay(pid, seed, nrep, v)
            nrep += 1
            out_lines.append("VIOLATION property=%s replay=%s" % (pid, path))
        exit_code = 1
    elif table_witness:
        path = write_replay(pid, seed, nrep, {"property": pid, "kind": "table", "input": table_witness,
                                              "failed_theorems": failed_theorems,
                                              "details": "entries of the tables regenerated from /repo that falsify the theorem(s)"})
        out_lines.append("VIOLATION property=%s replay=%s" % (pid, path))
        exit_code = 1
    elif failed_theorems or scan_hits or abstract or suite_errors:
        payload = {"property": pid, "kind": "no-failing-input-found",
                   "failed_theorems": [{"theorem": t, "why": ares[t]["why"]} for t in failed_theorems],
                   "forbidden_tokens": scan_hits,
                   "broken_correspondence": abstract[:5],
                   "suite_errors": suite_errors,
                   "build_log": "\n".join(log)[-8000:],
                   "searched": [{"suite": sm["suite"], "evaluations": sm["evaluations"]} for sm in summaries]}
        path = write_replay(pid, seed, nrep, payload)
        out_lines.append("VIOLATION property=%s replay=%s no-failing-input-found" % (pid, path))
        exit_code = 1

    # 4. evidence
    evaluations = sum(sm["evaluations"] for sm in summaries)
    distinct = sum(sm["distinct_nontrivial"] for sm in summaries)
    samples = []
    for sm in summaries:
        samples += [{"suite": sm["suite"], "case": x} for x in sm.get("samples", [])[:6]]
    samples += [{"obligation": t, "axioms": ares[t]["axioms"]} for t in theorems[:4]]
    ev = {
        "property_id": pid,
        "tier": tier,
        "seed": seed,
        "level": "proof",
        "coverage": {
            "obligations": obligations,
            "discharged": discharged,
            "checker_cmd": "cd lean && lake build %s && lake env lean <#print axioms of the %d registered theorems>%s" % (
                module, obligations, " && lake env leanchecker %s" % module if tier == "thorough" else ""),
            "trusted_base": spec.get("trusted_base", []) + [
                "Lean 4.33.0 kernel; axioms allowed: propext, Classical.choice, Quot.sound (audited by #print axioms on this run)",
                "ggvh tables (go/ast+go/types translator of /repo's tables) and ggvh corr (correspondence harness)",
            ],
            "theorems": {t: ares[t] for t in theorems},
            "leanchecker": leanchecker,
            "evaluations": evaluations,
            "distinct_nontrivial": distinct,
            "rule": " || ".join("%s: %s" % (sm["suite"], sm.get("rule", "")) for sm in summaries),
            "samples": samples,
            "exhaustive": False,
            "suites": [{k: sm.get(k) for k in ("suite", "evaluations", "distinct_nontrivial", "exhaustive", "distribution", "notes", "outside_fragment", "extra")} for sm in summaries],
            "disagreements": sum(len(sm.get("disagreements", [])) for sm in summaries),
            "known_finding_hits": known_hits,
            "repo_tree_hash": repo_hash(),
        },
        "assumptions": spec.get("assumptions", []),
        "wall_s": round(time.time() - t0, 2),
        "violations": 0 if exit_code == 0 else max(1, len(concrete)),
    }
    os.makedirs(os.path.join(VERIF, "evidence"), exist_ok=True)
    with open(os.path.join(VERIF, "evidence", "%s.json" % pid), "w") as f:
        json.dump(ev, f, indent=1)
    for line in out_lines:
        print(line)
    if exit_code != 0 and log:
        sys.stderr.write("\n".join(log)[-6000:] + "\n")
    print("%s %s tier=%s seed=%s obligations=%d/%d evaluations=%d wall=%.1fs" % (
        "OK" if exit_code == 0 else "FAIL", pid, tier, seed, discharged, obligations, evaluations, time.time() - t0))
    return exit_code


def replay(pid, path):
    payload = json.load(open(path))
    if payload.get("kind") in ("no-failing-input-found", "table"):
        print("replay file names proof obligations / tables; re-running the quick check")
        return run_property(pid, "quick", 1)
    st = ensure_build([PROPS[pid].get("module", "GGV.Props.%s" % pid)], need_binary=PROPS[pid].get("binary", False))
    if not (st["harness"] and st["model"]):
        print("\n".join(st["log"]))
        return 1
    extra = {}
    if st.get("binary"):
        extra["binary"] = st["binary"]
    sm, err = run_suite(payload["suite"], "quick", 1, extra, replay=payload["input"])
    if sm is None:
        print(err)
        return 1
    if sm["disagreements"]:
        d = sm["disagreements"][0]
        print("still failing: %s impl=%s expected=%s %s" % (d.get("input"), d.get("impl"), d.get("model"), d.get("details", "")))
        print("VIOLATION property=%s replay=%s" % (pid, path))
        return 1
    print("replay passes: implementation agrees with model and specification on the recorded input")
    return 0


def setup():
    t0 = time.time()
    st = ensure_build(["GGV"], need_binary=True)
    if st["log"]:
        print("\n".join(st["log"]))
    ok = st["harness"] and st["tables"] and st["model"] and st["props"] and st.get("binary")
    print("setup %s in %.1fs" % ("ok" if ok else "FAILED", time.time() - t0))
    return 0 if ok else 1


def main(argv):
    tier = os.environ.get("VERIF_TIER", "quick")
    seed = int(os.environ.get("VERIF_SEED", "1") or "1")
    args = list(argv)
    if "--tier" in args:
        i = args.index("--tier")
        tier = args[i + 1]
        del args[i:i + 2]
    rp = None
    if "--replay" in args:
        i = args.index("--replay")
        rp = args[i + 1]
        del args[i:i + 2]
    if not args:
        print(__doc__)
        return 2
    if args[0] == "--setup":
        return setup()
    if args[0] == "--all":
        rc = 0
        for pid in sorted(PROPS):
            rc |= run_property(pid, tier, seed)
        return rc
    pid = args[0]
    if pid not in PROPS:
        print("unknown or unclaimed property", pid)
        return 2
    if rp:
        return replay(pid, rp)
    return run_property(pid, tier, seed)
