"""Per-property texts for MANIFEST.json."""

TB = ("Trusted: Lean 4.33.0 kernel (axioms propext / Classical.choice / Quot.sound only, audited each run; no sorry, native_decide, "
      "bv_decide or added axioms); the hand-written Lean model and spec as a reading of the code and of the property; the Go "
      "translator `ggvh tables` and the correspondence harness `ggvh corr`; go/types, go/parser, regexp as oracles where the property names them. ")

TEXT = {
    "C16": {
        "level": "Theorem contains_iff: for every history of Add / AddModuleIgnore operations (any length, any order) the modelled "
                 "IgnoreSet.Contains equals the history specification 'some token of {ALL, category, code} is global or has start<=pos<=end'; "
                 "corollaries: permutation invariance, empty/zero value never suppress, foreign tokens never suppress; the hierarchy facts are "
                 "decided over the code table regenerated from /repo. The model is tied to util.IgnoreSet by running both on all histories of "
                 "length <=2 (quick) / <=3 (thorough) over the property's alphabet plus seeded longer/wider/malformed histories.",
        "note": TB + "Modelled rather than verified: util/ignoreset.go (hand model, differential tie through the public API). Hypothesis: scoped ranges start at >= 1.",
        "technique": "Lean 4 refinement proof (representation invariant by induction over the op history) + exhaustive/seeded differential correspondence",
    },
    "C19": {
        "level": "Theorems for every byte string, every display limit M >= 4 (instantiated at the regenerated MaxLineLength) and every column: "
                 "caret_under_char (the byte under the caret is the byte at the reported column, in all three truncation regimes), "
                 "truncate_len_le (<= M+3), truncate_short, caret_prefix_len/_tabs (tab-for-tab prefix), window_sound/_complete/_has_reported_line "
                 "(excerpt lines are the numbered source lines L-2..L+1 clamped), truncateG_total (no slice expression can be out of range), "
                 "no_excerpt (unreadable / short file => header only). The model's whole message is compared byte for byte with "
                 "Reporter.ReportViolation over the length x column x byte-pattern x file-shape grid.",
        "note": TB + "Modelled rather than verified: reporter.go (hand model, byte-exact differential tie). Byte columns, not visual columns.",
        "technique": "Lean 4 proofs (index arithmetic over List UInt8, case split on the three truncation regimes) + byte-exact differential correspondence on a boundary grid",
    },
    "C18": {
        "level": "Theorems for every input string: resolve_precedence (per option: the flag if given, else the environment value if set - even empty - else the "
                 "regenerated default), resting on parseList_join_idem (parse . join . parse = parse: the environment value survives its trip through the flag default), "
                 "parseList_char (items = trimmed non-empty comma parts, upper-cased for checks), parseBool_iff, items_wellformed. Tied in-process over the full "
                 "3x3 grid per option, all boolean spellings, list shapes and fuzzed byte strings, and through the real binary on a probe module.",
        "note": TB + "Modelled rather than verified: config.go. unicode.ToUpper enters as a parameter with three stated facts, checked exhaustively against Go's tables each run.",
        "technique": "Lean 4 proofs (list algebra: split/join/trim, idempotence) + grid/fuzz differential correspondence in-process and via the real binary",
    },
    "C15": {
        "level": "Theorems for all byte strings: recogniseBare_iff (no-argument keywords are recognised iff the line is blanks // blanks @keyword then end-of-line "
                 "or blank + LF-free text), keyword_exact_* (any recognition by any of the seven recognisers implies the line begins with the exact lowercase keyword "
                 "followed by end or blank: other case, longer words, mid-sentence, block comments are inert), list_names_valid / constructor_names / ignore_codes_upper "
                 "(captured arguments are well-formed identifiers / paths / upper-cased codes, non-empty where required), prefilter_complete (the pre-filter only drops "
                 "lines the grammar rejects). The regexes are tied to the recognisers by comparing all seven verdicts on every token sequence up to a bound and on seeded byte mutations, "
                 "through the real ReadAllAnnotations / ReadIgnoreAnnotations. Attachment sites are covered by the whole-program suites (C01-C04, C09).",
        "note": TB + "Modelled rather than verified: the regexes (closed-form recognisers + bounded-exhaustive differential tie); maximal-munch completeness of list arguments is tied by correspondence, not proved.",
        "technique": "Lean 4 proofs (recogniser = relational grammar for bare keywords; soundness/exactness for argument keywords) + bounded-exhaustive and fuzz differential correspondence against the regexes",
    },
    "C01": {
        "level": "Theorem immutable_exact: for every abstract program (any nesting, declaration order, number of files, package-level initialisers) the diagnostics of the modelled "
                 "CheckImmutable are exactly the positional specification ImmReported: a plain/compound/incdec/index write site (or receiver overwrite) whose defined type (aliases always, "
                 "pointer once) is @immutable in its own package or a direct import, field not @mutable, enclosing top-level declaration not a constructor of the type declared in the type's own "
                 "package. Core lemma immDecl_eq: the stateful walk equals a stateless map with the enclosing top-level function/receiver. The model is tied to the real analyzers on generated "
                 "multi-package programs (all placements of the quantifier) and corpus modules, comparing (position, code) sets, annotations read and @ignore markers.",
        "note": TB + "Modelled rather than verified: the checkers (hand model, differential tie in-process through x/tools' checker).",
        "technique": "Lean 4 proof (stateful tree walk = positional specification, by list induction over the preorder) + whole-program differential correspondence",
    },
    "C02": {
        "level": "Theorem constructor_exact: the modelled CheckConstructor reports exactly CtorReported - every composite literal (incl. &T{} and elided), new(T), and value-less non-blank var name "
                 "whose defined type has a non-empty constructor list, unless the enclosing top-level declaration is a listed function of the type's own package; pointer vars, blank identifiers, "
                 "initialised vars and unannotated types offer no site; a same-named function of another package is not exempt. Tied as C01.",
        "note": TB + "Modelled rather than verified: the checkers (hand model, differential tie).",
        "technique": "Lean 4 proof (walk = positional specification) + whole-program differential correspondence",
    },
    "C03": {
        "level": "Theorem testonly_exact: per non-test, non-excluded file, over the uses in preorder outside @testonly declarations, exactly the unsuppressed calls of @testonly functions/methods and, "
                 "per @testonly type, its first unsuppressed use are reported (generic fold lemma mem_runEvs: suppression test before deduplication = first unsuppressed occurrence per key); test files "
                 "and @testonly declarations contribute nothing; identifiers that merely share a name are not calls. Tied as C01.",
        "note": TB + "Modelled rather than verified: the checkers (hand model, differential tie).",
        "technique": "Lean 4 proof (pruned walk + dedup fold = declarative first-unsuppressed-use specification) + whole-program differential correspondence",
    },
    "C04": {
        "level": "Theorem packageonly_exact with allow_union: a reference from P to an item of D != P is reported iff the item carries @packageonly and neither P's path nor P's name is in the union of all "
                 "its lists (membership independent of line order and duplicates); PKGO01 exactly at the first unsuppressed reference per file and type; the declaring package is always allowed; "
                 "a bare annotation allows only D; unannotated items are silent. Tied as C01.",
        "note": TB + "Modelled rather than verified: the checkers and util.AttachmentsMap (hand model, differential tie).",
        "technique": "Lean 4 proof (dedup fold = first-unsuppressed-reference specification; allow-list = union) + whole-program differential correspondence",
    },
}

# properties not (yet) claimed, with the reason; anything claimed in registry.PROPS is dropped from this list automatically
NOT_APPLICABLE = {
    "C01": "not yet built in this round: whole-program Lean model + correspondence harness pending (DESIGN.md §7/C01); not a limit of the technique",
    "C02": "not yet built in this round (DESIGN.md §7/C02)",
    "C03": "not yet built in this round (DESIGN.md §7/C03)",
    "C04": "not yet built in this round (DESIGN.md §7/C04)",
    "C05": "not yet built in this round (DESIGN.md §7/C05)",
    "C06": "not yet built in this round (DESIGN.md §7/C06)",
    "C07": "not yet built in this round (DESIGN.md §7/C07)",
    "C08": "not yet built in this round (DESIGN.md §7/C08)",
    "C09": "not yet built in this round (DESIGN.md §7/C09)",
    "C10": "not yet built in this round (DESIGN.md §7/C10)",
    "C11": "not yet built in this round (DESIGN.md §7/C11)",
    "C12": "not yet built in this round (DESIGN.md §7/C12)",
    "C13": "not yet built in this round (DESIGN.md §7/C13)",
    "C14": "not yet built in this round (DESIGN.md §7/C14)",
    "C15": "not yet built in this round (DESIGN.md §7/C15)",
    "C17": "not yet built in this round (DESIGN.md §7/C17)",
    "C18": "not yet built in this round (DESIGN.md §7/C18)",
    "C19": "not yet built in this round (DESIGN.md §7/C19)",
}

NOTES = ("Machine-checked proof in Lean 4 over executable models of gogreement's decision cores; models tied to /repo on every run by regenerated "
         "tables and behavioural correspondence (DESIGN.md). No hooks in /repo.")

FIX_COMMITS = ['3280e36 fix: caret one column off when the reported column is the last one before the ellipsis', '35c9f1f fix: walk state of the immutable and constructor checkers leaked across declarations', '7f49659 fix: constructor exemption applied to same-named functions of other packages', '7021aae fix: uses of an annotated type through a type alias were not recognised', '38a6642 fix: parenthesised left-hand sides escaped the immutable checker', 'a8a7bf0 fix: standalone @ignore inside a body covered only the start of the next statement', '9fb907e fix: //line directive made an inline @ignore crash the analysis', '9bf6233 fix: @ignore trailing the last token of a declaration was applied to the next declaration', 'd39a5a2 fix: @ignore trailing a line that only opens a node was not treated as inline', "624ef86 fix: @implements qualifier was not resolved by the imported package's declared name", "f3928c9 fix: TONL02 reported for identifiers that merely share a @testonly function's name", '7e84306 fix: second @testonly type of the same name in one file was never reported', '175a664 fix: @implements compared parameter types by a lossy name/flag model instead of type identity', 'fd1c701 fix: value @implements rejected methods promoted through an embedded pointer', '21ad3b0 fix: @packageonly type embedded in a struct of another package was not reported']
