"""Per-property texts for MANIFEST.json."""

TB = ("Trusted: Lean 4.33.0 kernel (axioms propext / Classical.choice / Quot.sound only, audited each run; no sorry, native_decide, "
      "bv_decide or added axioms); the hand-written Lean model and spec as a reading of the code and of the property; the Go "
      "translator `ggvh tables` and the correspondence harness `ggvh corr`; go/types, go/parser, regexp as oracles where the property names them. ")

TEXT = {
    "C16": {
        "level": "Theorem contains_iff: for every history of Add / AddModuleIgnore operations (any length, any order) the modelled "
                 "IgnoreSet.Contains equals the history specification 'some token of {ALL, category, code} is global or has start<=pos<=end'; "
                 "corollaries: permutation invariance, empty/zero value never suppress, foreign tokens never suppress; the hierarchy facts are "
                 "decided over the code table regenerated from /repo. The model is tied to util.IgnoreSet by running both on all histories of "
                 "length <=2 (quick) / <=3 (thorough) over the property's alphabet plus seeded longer/wider/malformed histories.",
        "note": TB + "Modelled rather than verified: util/ignoreset.go (hand model, differential tie through the public API). Hypothesis: scoped ranges start at >= 1.",
        "technique": "Lean 4 refinement proof (representation invariant by induction over the op history) + exhaustive/seeded differential correspondence",
    },
    "C19": {
        "level": "Theorems for every byte string, every display limit M >= 4 (instantiated at the regenerated MaxLineLength) and every column: "
                 "caret_under_char (the byte under the caret is the byte at the reported column, in all three truncation regimes), "
                 "truncate_len_le (<= M+3), truncate_short, caret_prefix_len/_tabs (tab-for-tab prefix), window_sound/_complete/_has_reported_line "
                 "(excerpt lines are the numbered source lines L-2..L+1 clamped), truncateG_total (no slice expression can be out of range), "
                 "no_excerpt (unreadable / short file => header only). The model's whole message is compared byte for byte with "
                 "Reporter.ReportViolation over the length x column x byte-pattern x file-shape grid. gutter_aligned: numbered rows and the caret row start the text at the same offset for all line numbers (digit-count monotonicity of a structural %d); render_help_link: every message ends with the documentation link.",
        "note": TB + "Modelled rather than verified: reporter.go (hand model, byte-exact differential tie). Byte columns, not visual columns.",
        "technique": "Lean 4 proofs (index arithmetic over List UInt8, case split on the three truncation regimes) + byte-exact differential correspondence on a boundary grid",
    },
    "C18": {
        "level": "Theorems for every input string: resolve_precedence (per option: the flag if given, else the environment value if set - even empty - else the "
                 "regenerated default), resting on parseList_join_idem (parse . join . parse = parse: the environment value survives its trip through the flag default), "
                 "parseList_char (items = trimmed non-empty comma parts, upper-cased for checks), parseBool_iff, items_wellformed. Tied in-process over the full "
                 "3x3 grid per option, all boolean spellings, list shapes and fuzzed byte strings, and through the real binary on a probe module.",
        "note": TB + "Modelled rather than verified: config.go. unicode.ToUpper enters as a parameter with three stated facts, checked exhaustively against Go's tables each run.",
        "technique": "Lean 4 proofs (list algebra: split/join/trim, idempotence) + grid/fuzz differential correspondence in-process and via the real binary",
    },
    "C15": {
        "level": "Theorems for all byte strings: recogniseBare_iff (no-argument keywords are recognised iff the line is blanks // blanks @keyword then end-of-line "
                 "or blank + LF-free text), keyword_exact_* (any recognition by any of the seven recognisers implies the line begins with the exact lowercase keyword "
                 "followed by end or blank: other case, longer words, mid-sentence, block comments are inert), list_names_valid / constructor_names / ignore_codes_upper "
                 "(captured arguments are well-formed identifiers / paths / upper-cased codes, non-empty where required), prefilter_complete (the pre-filter only drops "
                 "lines the grammar rejects). The regexes are tied to the recognisers by comparing all seven verdicts on every token sequence up to a bound and on seeded byte mutations, "
                 "through the real ReadAllAnnotations / ReadIgnoreAnnotations. Attachment sites are covered by the whole-program suites (C01-C04, C09). List arguments in both directions: list_complete (documented shape => recognised with exactly its items) and list_sound (recognised => the line decomposes in exactly that way). Attachment inside `type ( ... )` groups: spec_doc_wins / group_doc_fallback (a spec's own doc comment speaks for it alone, the group's only for undocumented specs) and type_decl_by_spec / documented_spec_local (each spec contributes independently of its siblings).",
        "note": TB + "Modelled rather than verified: the regexes (closed-form recognisers + bounded-exhaustive differential tie); maximal-munch completeness of list arguments is tied by correspondence, not proved.",
        "technique": "Lean 4 proofs (recogniser = relational grammar for bare keywords; soundness/exactness for argument keywords) + bounded-exhaustive and fuzz differential correspondence against the regexes",
    },
    "C01": {
        "level": "Theorem immutable_exact: for every abstract program (any nesting, declaration order, number of files, package-level initialisers) the diagnostics of the modelled "
                 "CheckImmutable are exactly the positional specification ImmReported: a plain/compound/incdec/index write site (or receiver overwrite) whose defined type (aliases always, "
                 "pointer once) is @immutable in its own package or a direct import, field not @mutable, enclosing top-level declaration not a constructor of the type declared in the type's own "
                 "package. Core lemma immDecl_eq: the stateful walk equals a stateless map with the enclosing top-level function/receiver. The model is tied to the real analyzers on generated "
                 "multi-package programs (all placements of the quantifier) and corpus modules, comparing (position, code) sets, annotations read and @ignore markers.",
        "note": TB + "Modelled rather than verified: the checkers (hand model, differential tie in-process through x/tools' checker).",
        "technique": "Lean 4 proof (stateful tree walk = positional specification, by list induction over the preorder) + whole-program differential correspondence",
    },
    "C02": {
        "level": "Theorem constructor_exact: the modelled CheckConstructor reports exactly CtorReported - every composite literal (incl. &T{} and elided), new(T), and value-less non-blank var name "
                 "whose defined type has a non-empty constructor list, unless the enclosing top-level declaration is a listed function of the type's own package; pointer vars, blank identifiers, "
                 "initialised vars and unannotated types offer no site; a same-named function of another package is not exempt. Tied as C01.",
        "note": TB + "Modelled rather than verified: the checkers (hand model, differential tie).",
        "technique": "Lean 4 proof (walk = positional specification) + whole-program differential correspondence",
    },
    "C03": {
        "level": "Theorem testonly_exact: per non-test, non-excluded file, over the uses in preorder outside @testonly declarations, exactly the unsuppressed calls of @testonly functions/methods and, "
                 "per @testonly type, its first unsuppressed use are reported (generic fold lemma mem_runEvs: suppression test before deduplication = first unsuppressed occurrence per key); test files "
                 "and @testonly declarations contribute nothing; identifiers that merely share a name are not calls. Tied as C01.",
        "note": TB + "Modelled rather than verified: the checkers (hand model, differential tie).",
        "technique": "Lean 4 proof (pruned walk + dedup fold = declarative first-unsuppressed-use specification) + whole-program differential correspondence",
    },
    "C04": {
        "level": "Theorem packageonly_exact with allow_union: a reference from P to an item of D != P is reported iff the item carries @packageonly and neither P's path nor P's name is in the union of all "
                 "its lists (membership independent of line order and duplicates); PKGO01 exactly at the first unsuppressed reference per file and type; the declaring package is always allowed; "
                 "a bare annotation allows only D; unannotated items are silent. Tied as C01.",
        "note": TB + "Modelled rather than verified: the checkers and util.AttachmentsMap (hand model, differential tie).",
        "technique": "Lean 4 proof (dedup fold = first-unsuppressed-reference specification; allow-list = union) + whole-program differential correspondence",
    },
    "C06": {
        "level": 'PARTIAL proof: table theorems decided over the regenerated T3/T4 (every fact field exported and gob-transmissible; one distinct fact type per analyzer; T3 is measured on the linked analyzers: run on a package without declarations every analyzer still exports exactly the facts it declares) plus import_uniform / depends_only_on_direct_imports over the model; what the model cannot exhibit (gob bytes, vetx files, the drivers) is exercised: standalone ./..., go vet -vettool, leaf-only, random subsets / orders, in-process with the gob sanity check must all report the same. importer_as_declarer: two analysed packages whose environments hold the same entries about package P give, outside P\'s constructors, the same verdicts on writes / instantiations / @testonly calls over P\'s types; tied by the probe comparison (the same labelled statements in the declaring package and in every direct importer) and by driver runs under scan-tests-by-environment, excluded directories, and module boundaries (a declaring package, and a user package, moved into a module of its own).',
        "note": TB + "Modelled rather than verified: see DESIGN.md §9 / §11.",
        "technique": 'Lean 4 decide over regenerated tables + index lemmas; driver-differential correspondence (standalone vs go vet vs in-process)',
    },
    "C07": {
        "level": "Theorems: the modelled range computation equals the four scopes (scope_file, scope_decl, scope_stmt: [comment, END of the first node starting after it], scope_line: [line start, comment end] iff code precedes the comment on its line), and ignore_exact_report / ignore_exact_detect: reported = raised and not Suppressed (C16) - with C03/C04 FirstUnsuppressed this is the once-per-file re-reporting. Tied by analysing every generated program with and without its @ignore comments (neutralised in place): markers = model's, removed set = covered-and-matching set, nothing else changes.",
        "note": TB + "Modelled rather than verified: see DESIGN.md §9 / §11.",
        "technique": 'Lean 4 proofs (pruned preorder walks under a decidable cut hypothesis; filter = C16 relation) + with/without-comment metamorphic correspondence',
    },
    "C08": {
        "level": 'Theorems: exclude_filter_report (report-time filter with exclusions = unrestricted filter minus matched codes), exclude_commutes_with_dedup (detection-time: excluding a code commutes with the once-per-file deduplication), exclude_all_empty, junk_excludes_nothing (only ALL, the code, its category can match - decided on the regenerated table). Tied through the real binary: exclusion sets over {ALL, categories, codes, junk incl. proper prefixes} by flag and env on programs producing all 16 codes.',
        "note": TB + "Modelled rather than verified: see DESIGN.md §9 / §11.",
        "technique": 'Lean 4 proofs (filter commutation) + binary-level differential correspondence against the filtered baseline',
    },
    "C09": {
        "level": 'Theorem no_annotations_no_diagnostics: if no doc line of a scanned top-level declaration begins (after // and blanks) with a lowercase keyword and the direct imports carry no annotations, every walk returns nothing - for every configuration and whatever @ignore comments exist; near_miss_inert bridges to C15. Tied by annotation-free generated programs salted with near-misses at every site and by the real binary over standard-library packages.',
        "note": TB + "Modelled rather than verified: see DESIGN.md §9 / §11.",
        "technique": 'Lean 4 proof (emptiness of annotation reading + early returns) + corpus runs of the real binary',
    },
    "C10": {
        "level": 'PARTIAL proof: the partial operations of the modelled code are proven safe (IgnoreSet index lookups in range along every history; no slice of the renderer out of range; line-window indices inside the file); all model functions are total. Crashes are outcomes in the correspondence: both drivers x configurations on generated programs (package-level initialisers first, //line directives, all placements) and the witness corpus; in-process runs wrap every analyzer in recover. Also: the real analyzers in-process on 19 / 49 standard-library packages overlaid with injected annotations of every kind (std suite), the excerpt suite for panics, self-referential and generic declarations under both drivers with a time limit per run.',
        "note": TB + "Modelled rather than verified: see DESIGN.md §9 / §11.",
        "technique": 'Lean 4 safety lemmas for the modelled partial operations + crash-outcome correspondence (in-process recover, binary exit status / stderr)',
    },
    "C11": {
        "level": "PARTIAL proof: shared_state_justified decided over the regenerated inventory of package-level variables and write sites (only cachedConfig is assigned after init, under configOnce.Do); once_deterministic: for every schedule of N workers doing Once.Do(init); read, every read returns init's value; index and reported-key order independence (C12). The real binary's normalised output is byte-compared across repeated, sequential, permuted, differently scheduled runs; a -race build is search support. shared_lookups_read_only (T9, regenerated): of the methods the concurrently running checkers call on reader / utility types only the per-pass index builders write their receiver's state. The race-detector build runs in every tier. base_shift_invariant: moving every position of a package by a constant (what other packages loaded into the run-wide FileSet do) leaves annotations and diagnostics unchanged - a corollary of C12's relayout_invariant; tied by the shift suite (files re-based so that @ignore scopes straddle multiples of 2^20 / 2^16 / 2^12).",
        "note": TB + "Modelled rather than verified: see DESIGN.md §9 / §11.",
        "technique": 'Lean 4: decide over regenerated table + invariant over all interleavings of a small transition system; run-to-run differential correspondence',
    },
    "C12": {
        "level": "Theorems: move_decl / perm_decls (permuting or moving declarations between scanned files permutes the IMM/CTOR diagnostics: each declaration's verdict is local), annotations_order_free and index_order_free (indices depend only on the set of annotations), reported_keys_order_free (a once-per-file key is reported iff it has an unsuppressed use, whatever the order). Blank lines / comments / renaming are tied by the metamorphic layout suite on the real analyzers. relayout_invariant: for every strictly increasing position map fixing 0 and injective line map (blank lines, comments, gofmt), analyze of the re-laid-out package has the same annotations and the image diagnostics - proved through all four walks, the @ignore reader and the suppression decision.",
        "note": TB + "Modelled rather than verified: see DESIGN.md §9 / §11.",
        "technique": 'Lean 4 proofs (List.Perm invariance, order-free characterisations) + metamorphic correspondence on layout variants',
    },
    "C13": {
        "level": 'Theorems: classify_respects_identity (typeInfo / varTypeInfo / typeName depend only on the alias-free normal form) and respell_invariant (every per-node verdict of the four checkers is equal for identical types), paren_invariant. Tied by the metamorphic spelling suite: alias, renamed import, parenthesised spellings of every use site must give the same keyed diagnostics as the direct spelling. respell_program_invariant: re-spelling every use-site type of a package by an identical one changes neither annotations nor diagnostics of the whole analysis.',
        "note": TB + "Modelled rather than verified: see DESIGN.md §9 / §11.",
        "technique": 'Lean 4 proofs (normal form of alias/pointer/named types) + metamorphic correspondence on spelling variants',
    },
    "C14": {
        "level": "Theorems: no_diag_in_excluded (every reported position is a position of a node of a non-skipped file), excluded_inert (analyze is a function of the files the configuration selects), shouldSkip_char, tonl_never_in_tests. Tied under four configurations (one per process): no reported position in an excluded file; a twin whose excluded files' annotations are neutralised reports the same elsewhere; no TONL in test files.",
        "note": TB + "Modelled rather than verified: see DESIGN.md §9 / §11.",
        "technique": 'Lean 4 proofs (position provenance through the exactness theorems; congruence over the selected files) + configuration-matrix self-relative correspondence',
    },
    "C17": {
        "level": 'Theorems decided over regenerated tables: codes_documented (emitted codes = documented table), doc_url_by_category (page per category exists in the book), analyzer_owns_category; over the model: render_header, inline_ignore_removes / keeps_others, diag_in_pkg_file. Tied through the real binary: every diagnostic parsed (code, analyzer, file, help link), text-mode exit status, and for a sample incl. all 16 codes the source line gets // @ignore CODE appended and the package is re-analysed; the same below a file-level @ignore of a sibling code and, under scan-tests, inside test files.',
        "note": TB + "Modelled rather than verified: see DESIGN.md §9 / §11.",
        "technique": 'Lean 4: decide over regenerated tables + model theorems; binary-level parsing and inline-ignore metamorphic correspondence',
    },
    "C05": {
        "level": "Theorems: importFind_none_iff (IMPL01 iff no import of the file binds the qualifier by alias / declared name / the path fallbacks), cascade_exclusive (IMPL01 > IMPL02 > IMPL03, a correct annotation yields nothing), "
                 "missing_exact (the methods IMPL03 lists are exactly the interface methods absent from the method set of T resp. *T with an identical signature; method identity = go/types Func.Id; pointer to an interface type has no methods). "
                 "Tied by generated scenarios over basic/named/pointer-depth/slice/map/func/chan/variadic/alias types, value and pointer receivers, promotion through embedded T / *T, embedded and sealed interfaces, interface-typed T, local / imported / aliased / differently named packages: the real tool's diagnostics must equal go/types' own verdicts and the model's.",
        "note": TB + "Modelled rather than verified: the implements pipeline (hand model). go/types is the oracle.",
        "technique": "Lean 4 proofs (resolution and cascade characterisation, missing-method set = Go's method-set rule) + differential correspondence against go/types on generated scenarios",
    },
}

# properties not (yet) claimed, with the reason; anything claimed in registry.PROPS is dropped from this list automatically
NOT_APPLICABLE = {
    "C01": "not yet built in this round: whole-program Lean model + correspondence harness pending (DESIGN.md §7/C01); not a limit of the technique",
    "C02": "not yet built in this round (DESIGN.md §7/C02)",
    "C03": "not yet built in this round (DESIGN.md §7/C03)",
    "C04": "not yet built in this round (DESIGN.md §7/C04)",
    "C05": "not yet built in this round (DESIGN.md §7/C05)",
    "C06": "not yet built in this round (DESIGN.md §7/C06)",
    "C07": "not yet built in this round (DESIGN.md §7/C07)",
    "C08": "not yet built in this round (DESIGN.md §7/C08)",
    "C09": "not yet built in this round (DESIGN.md §7/C09)",
    "C10": "not yet built in this round (DESIGN.md §7/C10)",
    "C11": "not yet built in this round (DESIGN.md §7/C11)",
    "C12": "not yet built in this round (DESIGN.md §7/C12)",
    "C13": "not yet built in this round (DESIGN.md §7/C13)",
    "C14": "not yet built in this round (DESIGN.md §7/C14)",
    "C15": "not yet built in this round (DESIGN.md §7/C15)",
    "C17": "not yet built in this round (DESIGN.md §7/C17)",
    "C18": "not yet built in this round (DESIGN.md §7/C18)",
    "C19": "not yet built in this round (DESIGN.md §7/C19)",
}

NOTES = ("Machine-checked proof in Lean 4 over executable models of gogreement's decision cores; models tied to /repo on every run by regenerated "
         "tables and behavioural correspondence (DESIGN.md). No hooks in /repo.")

FIX_COMMITS = ['3280e36 fix: caret one column off when the reported column is the last one before the ellipsis', '35c9f1f fix: walk state of the immutable and constructor checkers leaked across declarations', '7f49659 fix: constructor exemption applied to same-named functions of other packages', '7021aae fix: uses of an annotated type through a type alias were not recognised', '38a6642 fix: parenthesised left-hand sides escaped the immutable checker', 'a8a7bf0 fix: standalone @ignore inside a body covered only the start of the next statement', '9fb907e fix: //line directive made an inline @ignore crash the analysis', '9bf6233 fix: @ignore trailing the last token of a declaration was applied to the next declaration', 'd39a5a2 fix: @ignore trailing a line that only opens a node was not treated as inline', "624ef86 fix: @implements qualifier was not resolved by the imported package's declared name", "f3928c9 fix: TONL02 reported for identifiers that merely share a @testonly function's name", '7e84306 fix: second @testonly type of the same name in one file was never reported', '175a664 fix: @implements compared parameter types by a lossy name/flag model instead of type identity', 'fd1c701 fix: value @implements rejected methods promoted through an embedded pointer', '21ad3b0 fix: @packageonly type embedded in a struct of another package was not reported', "4ae3089 fix: @implements accepted an unexported method of another package as implementing the interface's", '9f96eca fix: false IMPL03 for @implements on a defined interface type', '908de83 fix: @implements on an alias declaration is checked against the type the alias denotes', '2364578 fix: a message without source excerpt still carries the documentation link', "81854dd fix: a variable that shadows the receiver's name is not the receiver", 'b516a7f fix: an annotated method is recorded under the defined type of its receiver, however the receiver is written']
