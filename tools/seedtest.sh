#!/bin/bash
# seedtest.sh <patch.diff> <Cxx> [<Cyy> ...]   — apply a seeded change to /repo, run the quick checks, undo it.
set -u
P=$1; shift
cd /repo && git apply "$P" || { echo "patch does not apply to /repo"; exit 2; }
trap 'git -C /repo checkout -q -- . ; git -C /repo clean -fdq; git -C /verif checkout -q -- evidence 2>/dev/null; (cd /repo && GOFLAGS=-mod=mod GOPROXY=off go build -o /verif/.cache/bin/gogreement ./cmd/gogreement 2>/dev/null)' EXIT
cd /verif
for id in "$@"; do
  ./check "$id" --tier "${TIER:-quick}" 2>/dev/null | grep -E "^(VIOLATION|OK|FAIL|KNOWN)" | head -4
done
