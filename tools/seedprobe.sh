#!/bin/bash
# seedprobe.sh <patch> <suite> [extra args] : apply patch to /repo, rebuild harness, run one suite, print #disagreements, undo.
P=$1; S=$2; shift 2
cd /repo && git apply "$P" || { echo "patch does not apply"; exit 2; }
trap 'git -C /repo checkout -q -- . ; git -C /repo clean -fdq' EXIT
cd /verif/harness && export GOFLAGS=-mod=mod GOPROXY=off && go build -o bin/ggvh ./cmd/ggvh || exit 2
GGV_CACHE=/verif/.cache ./bin/ggvh corr $S "$@" | python3 -c "
import json,sys
d=json.load(sys.stdin); print('evals',d['evaluations'],'disagreements',len(d['disagreements']), (d.get('notes') or [''])[0][:200]); [print('  ',x['kind'],x['input'][:80],'|',x.get('details','')[:260]) for x in d['disagreements'][:2]]"
