#!/bin/bash
# seedpar.sh <mutant dir (patch.diff)> <scratch worktree of /repo> <Cxx> [<Cyy> ...]
# Runs the checks against a scratch worktree carrying a seeded change, from a private copy of /verif whose harness
# is re-pointed at that worktree — /repo itself is not touched, so several seeds can be tried in parallel.
set -u
M=$1; W=$2; shift 2
name=$(basename "$(dirname "$M")")-$(basename "$M")
S=/tmp/sv/$name
rm -rf "$S"; mkdir -p "$S"
rsync -a --exclude .git --exclude seeded --exclude design-notes /verif/ "$S/"
sed -i "s#=> /repo#=> $W#" "$S/harness/go.mod"
(cd "$W" && git checkout -q -- . && git clean -fdq && git apply "$M/patch.diff") || { echo "patch does not apply"; rm -rf "$S"; exit 2; }
cd "$S"
for id in "$@"; do
  GGV_REPO=$W ./check "$id" --tier "${TIER:-quick}" 2>/dev/null | grep -E "^(VIOLATION|OK|FAIL|KNOWN)" | head -4 | sed "s#^#[$name] #"
done
if [ -n "${KEEP_REPLAY:-}" ]; then mkdir -p /tmp/sv-replay/$name; cp -r "$S"/replays/* /tmp/sv-replay/$name/ 2>/dev/null; fi
(cd "$W" && git checkout -q -- . && git clean -fdq)
rm -rf "$S"
