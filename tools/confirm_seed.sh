#!/bin/bash
# confirm_seed.sh <mutant dir (patch.diff, demo.sh)> <scratch worktree of /repo>
# Confirms: patch applies, repo compiles, the whole unedited suite passes, demo fails with the patch and passes without.
set -u
M=$1; W=$2
export GOFLAGS=-mod=mod GOPROXY=off
cd "$W" || exit 2
git checkout -q -- . && git clean -fdq
git apply --check "$M/patch.diff" || { echo "CONFIRM FAIL: patch does not apply"; exit 1; }
bash "$M/demo.sh" "$W" >/tmp/confirm_$$_clean.log 2>&1; rc_clean=$?
git apply "$M/patch.diff"
go build ./... || { echo "CONFIRM FAIL: does not compile"; git checkout -q -- .; exit 1; }
if ! go test -vet=off -count=1 ./... >/tmp/confirm_$$_test.log 2>&1; then echo "CONFIRM FAIL: suite fails with patch"; grep -v '^ok' /tmp/confirm_$$_test.log | head; git checkout -q -- .; exit 1; fi
bash "$M/demo.sh" "$W" >/tmp/confirm_$$_mut.log 2>&1; rc_mut=$?
git checkout -q -- . && git clean -fdq
echo "demo clean=$rc_clean mutated=$rc_mut"
if [ $rc_clean -eq 0 ] && [ $rc_mut -ne 0 ]; then echo "CONFIRMED"; exit 0; fi
echo "CONFIRM FAIL: demo outcomes"; exit 1
