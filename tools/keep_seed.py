#!/usr/bin/env python3
"""keep_seed.py <mutant dir> <seed id> <property> <needs> <ran> <detected-by>
Copies a confirmed seeded change into /verif/seeded/<id>/ with meta.json."""
import json, os, shutil, sys
src, sid, prop, needs, ran, detected = sys.argv[1:7]
dst = os.path.join("/verif/seeded", sid)
if os.path.exists(dst):
    shutil.rmtree(dst)
shutil.copytree(src, dst, ignore=shutil.ignore_patterns("*.exe", "bin", ".git"))
meta = {"id": sid, "breaks_property": prop, "needs_to_manifest": needs, "what_was_run": ran, "detected_by": detected,
        "origin": "independent sub-agent given only the property text and a scratch worktree"}
json.dump(meta, open(os.path.join(dst, "meta.json"), "w"), indent=1)
print("kept", dst)
