#!/usr/bin/env python3
"""Regenerates MANIFEST.json from tools/registry.py + tools/manifest_text.py (keeps it valid at all times)."""
import json, os, sys
sys.path.insert(0, os.path.dirname(os.path.abspath(__file__)))
from registry import PROPS
from manifest_text import TEXT, NOT_APPLICABLE, NOTES, FIX_COMMITS

baseline = json.load(open("/root/.vp/BASELINE.json"))["cmd"]
checks = []
for pid in sorted(PROPS):
    t = TEXT[pid]
    checks.append({
        "property_id": pid,
        "quick_cmd": "./check %s --tier quick" % pid,
        "thorough_cmd": "./check %s --tier thorough" % pid,
        "evidence_file": "/verif/evidence/%s.json" % pid,
        "replay_cmd_template": "./check %s --replay {path}" % pid,
        "engine": "lean-model+ggvh",
        "level_claimed": {"category": "proof", "text": t["level"], "design_ref": t.get("design_ref", "DESIGN.md §7/" + pid)},
        "level_note": t["note"],
        "technique": t["technique"],
    })
m = {
    "version": 1,
    "setup_cmd": "./check --setup",
    "hooks": {
        "guard": "verif",
        "enable": "none needed: every modelled function is reached through /repo's exported API; the harness links /repo via a go.mod replace, so each check compiles the current working tree",
        "baseline_off_cmd": baseline,
        "source_commits": [],
        "add_only": True,
    },
    "engines": [
        {"name": "lean-model", "path": "/verif/lean", "serves_properties": sorted(PROPS), "kind_free_text": "Lean 4 executable models, specifications and kernel-checked theorems (GGV.Props.*); ggmodel line-protocol driver"},
        {"name": "ggvh", "path": "/verif/harness", "serves_properties": sorted(PROPS), "kind_free_text": "Go translator (tables regenerated from /repo) + behavioural correspondence harness calling the real code in-process and through the real binary"},
    ],
    "checks": checks,
    "notes": NOTES + " fix: commits in /repo: " + "; ".join(FIX_COMMITS),
    "not_applicable": [{"property_id": p, "reason": r} for p, r in sorted(NOT_APPLICABLE.items()) if p not in PROPS],
}
json.dump(m, open(os.path.join(os.path.dirname(os.path.dirname(os.path.abspath(__file__))), "MANIFEST.json"), "w"), indent=1)
print("MANIFEST.json: %d checks, %d not_applicable" % (len(checks), len(m["not_applicable"])))
