"""Theorem registry and suite map: what `obligations` counts for each property (DESIGN.md appendix A).

A registered theorem that is missing from the build, or whose `#print axioms` exceeds
{propext, Classical.choice, Quot.sound}, fails the check.
"""

def T(pid, names):
    return ["GGV.Props.%s.%s" % (pid, n) for n in names]


PROPS = {
    "C16": {
        "theorems": T("C16", ["contains_iffH", "contains_iff", "contains_perm", "contains_empty", "other_tokens_never",
                               "hier_table", "hier_category", "code_one_category", "hier_unknown",
                               "suppressedB_iff", "start_hypothesis_forced"]),
        "suites": ["iset"],
        "table_diag": True,
        "assumptions": [
            "positions are modelled as unbounded Int (token.Pos is an int; no property is about overflow)",
            "a Go map[string][]int is modelled as a total function with default []",
            "theorem hypothesis StartsValid (every scoped range starts at >= 1): forced by the NoPos=0 sentinel, "
            "outside the property's quantifier (ranges inside 1..5); the excluded point is run and logged",
        ],
        "trusted_base": ["hand-written model GGV.Model.IgnoreSet of src/util/ignoreset.go, tied by the iset correspondence suite",
                         "code hierarchy over the regenerated table GGV.Gen.codesByCategory (T1)"],
    },
    "C19": {
        "theorems": T("C19", ["truncateG_total", "caret_under_char", "displayCol_bounds", "truncate_len_le", "truncate_len_exact",
                               "truncate_short", "caret_prefix_len", "caret_prefix_tabs", "window_sound", "window_complete",
                               "window_has_reported_line", "no_excerpt", "render_header", "maxLineLength_ge_4", "context_is_2_1",
                               "caret_under_char_repo"]),
        "suites": ["excerpt"],
        "assumptions": [
            "columns are byte columns (token.Position.Column counts bytes); visual alignment after multi-byte characters is not claimed",
            "bufio.Scanner line splitting is modelled (LF split, one trailing CR dropped, scan stops at a line >= 65536 bytes) and tied by correspondence incl. the exact boundary",
            "Go int modelled as unbounded Int",
        ],
        "trusted_base": ["hand-written model GGV.Model.Excerpt of src/reporting/reporter.go (truncateString, calculateDisplayColumn, readSourceLines, formatPrettyError), tied byte-for-byte by the excerpt suite",
                         "constants MaxLineLength and the (2,1) context regenerated from /repo (T5)"],
    },
    "C18": {
        "theorems": T("C18", ["parseList_char", "parseList_order", "parseList_join_idem", "resolve_precedence", "repoDefaults_normal",
                               "repoDefaults_documented", "resolve_default", "env_empty_is_set", "parseBool_iff", "checks_upper",
                               "items_wellformed", "asciiUpper_ok"]),
        "suites": ["cfg"],
        "binary": True,
        "assumptions": [
            "strings are modelled as lists of Unicode code points; unicode.ToUpper is a parameter constrained by UpperOK (idempotent, creates no comma, creates no blank), validated for Go's tables over all 1,114,112 runes on every run",
            "the driver instantiates the case mappings by ASCII-only mappings; inputs on which Go's tables differ from that (or invalid UTF-8) are only checked for 'the tool does not fail' and counted as outside_fragment",
            "invalid flag booleans (--config.scan-tests=yes) make package flag exit 2; the property exempts only environment values, so flag booleans are drawn from strconv.ParseBool spellings",
        ],
        "trusted_base": ["hand-written model GGV.Model.Config of src/config/config.go (parseStringList, parseBool, FromEnv, CreateFlagSet defaults, ParseFlagsFromFlagSet, ShouldSkipFile), tied in-process and through the real binary",
                         "defaults regenerated from config.Default() (T5)", "package flag, os.LookupEnv, strings.TrimSpace/ToUpper/ToLower/Split/Join as Go provides them"],
    },
    "C15": {
        "theorems": T("C15", ["recogniseBare_iff", "recognise_iff_immutable", "recognise_iff_testonly", "recognise_iff_mutable",
                               "keyword_exact_list", "keyword_exact_implements", "keyword_exact_bare", "list_names_valid",
                               "constructor_names", "ignore_codes_upper", "prefilter_complete", "near_miss_inert"]),
        "suites": ["gram"],
        "assumptions": [
            "comment texts are byte strings; RE2's \\s, \\w and the identifier classes are ASCII, '.' excludes only LF",
            "the regexes and the Aho-Corasick pre-filter are not translated into Lean: they are tied to the recogniser functions by the bounded-exhaustive + fuzz correspondence (as the property itself prescribes)",
            "texts that go/parser rejects (illegal UTF-8, NUL) cannot occur in a compilable package and are counted as outside_fragment",
        ],
        "trusted_base": ["hand-written recognisers GGV.Model.Grammar (closed form of the six regexes' leftmost-first behaviour + capture post-processing), tied through the real ReadAllAnnotations / ReadIgnoreAnnotations",
                         "go/parser comment attachment, regexp (RE2)"],
    },
}
