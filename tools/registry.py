"""Theorem registry and suite map: what `obligations` counts for each property (DESIGN.md appendix A).

A registered theorem that is missing from the build, or whose `#print axioms` exceeds
{propext, Classical.choice, Quot.sound}, fails the check.
"""

def T(pid, names):
    return ["GGV.Props.%s.%s" % (pid, n) for n in names]


PROPS = {
    "C16": {
        "theorems": T("C16", ["contains_iffH", "contains_iff", "contains_perm", "contains_empty", "other_tokens_never",
                               "hier_table", "hier_category", "code_one_category", "hier_unknown",
                               "suppressedB_iff", "start_hypothesis_forced"]),
        "suites": ["iset"],
        "table_diag": True,
        "assumptions": [
            "positions are modelled as unbounded Int (token.Pos is an int; no property is about overflow)",
            "a Go map[string][]int is modelled as a total function with default []",
            "theorem hypothesis StartsValid (every scoped range starts at >= 1): forced by the NoPos=0 sentinel, "
            "outside the property's quantifier (ranges inside 1..5); the excluded point is run and logged",
        ],
        "trusted_base": ["hand-written model GGV.Model.IgnoreSet of src/util/ignoreset.go, tied by the iset correspondence suite",
                         "code hierarchy over the regenerated table GGV.Gen.codesByCategory (T1)"],
    },
}
