"""Theorem registry and suite map: what `obligations` counts for each property (DESIGN.md appendix A).

A registered theorem that is missing from the build, or whose `#print axioms` exceeds
{propext, Classical.choice, Quot.sound}, fails the check.
"""

def T(pid, names):
    return ["GGV.Props.%s.%s" % (pid, n) for n in names]


PROPS = {
    "C16": {
        "theorems": T("C16", ["contains_iffH", "contains_iff", "contains_perm", "contains_empty", "other_tokens_never",
                               "hier_table", "hier_category", "code_one_category", "hier_unknown",
                               "suppressedB_iff", "start_hypothesis_forced"]),
        "suites": ["iset"],
        "table_diag": True,
        "assumptions": [
            "positions are modelled as unbounded Int (token.Pos is an int; no property is about overflow)",
            "a Go map[string][]int is modelled as a total function with default []",
            "theorem hypothesis StartsValid (every scoped range starts at >= 1): forced by the NoPos=0 sentinel, "
            "outside the property's quantifier (ranges inside 1..5); the excluded point is run and logged",
        ],
        "trusted_base": ["hand-written model GGV.Model.IgnoreSet of src/util/ignoreset.go, tied by the iset correspondence suite",
                         "code hierarchy over the regenerated table GGV.Gen.codesByCategory (T1)"],
    },
    "C19": {
        "theorems": T("C19", ["truncateG_total", "caret_under_char", "displayCol_bounds", "truncate_len_le", "truncate_len_exact",
                               "truncate_short", "caret_prefix_len", "caret_prefix_tabs", "window_sound", "window_complete",
                               "window_has_reported_line", "no_excerpt", "render_header", "maxLineLength_ge_4", "context_is_2_1",
                               "caret_under_char_repo"]),
        "suites": ["excerpt"],
        "assumptions": [
            "columns are byte columns (token.Position.Column counts bytes); visual alignment after multi-byte characters is not claimed",
            "bufio.Scanner line splitting is modelled (LF split, one trailing CR dropped, scan stops at a line >= 65536 bytes) and tied by correspondence incl. the exact boundary",
            "Go int modelled as unbounded Int",
        ],
        "trusted_base": ["hand-written model GGV.Model.Excerpt of src/reporting/reporter.go (truncateString, calculateDisplayColumn, readSourceLines, formatPrettyError), tied byte-for-byte by the excerpt suite",
                         "constants MaxLineLength and the (2,1) context regenerated from /repo (T5)"],
    },
    "C18": {
        "theorems": T("C18", ["parseList_char", "parseList_order", "parseList_join_idem", "resolve_precedence", "repoDefaults_normal",
                               "repoDefaults_documented", "resolve_default", "env_empty_is_set", "parseBool_iff", "checks_upper",
                               "items_wellformed", "asciiUpper_ok"]),
        "suites": ["cfg"],
        "binary": True,
        "assumptions": [
            "strings are modelled as lists of Unicode code points; unicode.ToUpper is a parameter constrained by UpperOK (idempotent, creates no comma, creates no blank), validated for Go's tables over all 1,114,112 runes on every run",
            "the driver instantiates the case mappings by ASCII-only mappings; inputs on which Go's tables differ from that (or invalid UTF-8) are only checked for 'the tool does not fail' and counted as outside_fragment",
            "invalid flag booleans (--config.scan-tests=yes) make package flag exit 2; the property exempts only environment values, so flag booleans are drawn from strconv.ParseBool spellings",
        ],
        "trusted_base": ["hand-written model GGV.Model.Config of src/config/config.go (parseStringList, parseBool, FromEnv, CreateFlagSet defaults, ParseFlagsFromFlagSet, ShouldSkipFile), tied in-process and through the real binary",
                         "defaults regenerated from config.Default() (T5)", "package flag, os.LookupEnv, strings.TrimSpace/ToUpper/ToLower/Split/Join as Go provides them"],
    },
    "C15": {
        "theorems": T("C15", ["recogniseBare_iff", "recognise_iff_immutable", "recognise_iff_testonly", "recognise_iff_mutable",
                               "keyword_exact_list", "keyword_exact_implements", "keyword_exact_bare", "list_names_valid",
                               "constructor_names", "ignore_codes_upper", "prefilter_complete", "near_miss_inert"]),
        "suites": ["gram"],
        "assumptions": [
            "comment texts are byte strings; RE2's \\s, \\w and the identifier classes are ASCII, '.' excludes only LF",
            "the regexes and the Aho-Corasick pre-filter are not translated into Lean: they are tied to the recogniser functions by the bounded-exhaustive + fuzz correspondence (as the property itself prescribes)",
            "texts that go/parser rejects (illegal UTF-8, NUL) cannot occur in a compilable package and are counted as outside_fragment",
        ],
        "trusted_base": ["hand-written recognisers GGV.Model.Grammar (closed form of the six regexes' leftmost-first behaviour + capture post-processing), tied through the real ReadAllAnnotations / ReadIgnoreAnnotations",
                         "go/parser comment attachment, regexp (RE2)"],
    },
    "C01": {
        "theorems": T("C01", ["immutable_exact", "siteDiag_iff", "immFieldHit_iff", "immNode_eq_sites", "immutable_silent_reads", "immutable_silent", "immutable_receiver_rule"]) + ["GGV.Model.Prog.immDecl_eq"],
        "suites": [("prog", {"focus": "IMM,ANN:IKM"})],
        "assumptions": [
            "programs are abstracted to APF: per declaration the preorder node list ast.Inspect visits, with go/types information attached; DeclShape (FuncDecl nodes only head func declarations) is go/ast's shape and is checked on every input (wf=ok)",
            "supported fragment as stated by the property: non-generic defined types, direct imports; write / use forms the property does not list are neither required nor forbidden",
        ],
        "trusted_base": ["hand-written whole-program model GGV.Model.Prog (annotation reading, indices, walks, @ignore scopes, filters) of annotations/, indexing/, immutable/, constructor/, testonly/, packageonly/, ignore/, tied by the prog correspondence (real analyzers in-process vs model on generated + corpus modules)",
                         "APF extractor (go/ast + go/types, independent of gogreement) as the abstraction function; go/types for type information"],
    },
    "C02": {
        "theorems": T("C02", ["constructor_exact", "ctorNode_eq_sites", "ctorHit_iff", "constructor_silent_var", "constructor_silent_unannotated", "constructor_silent_inside", "constructor_foreign_name_not_exempt", "ctor_names_from_grammar"]) + ["GGV.Model.Prog.ctorDecl_eq"],
        "suites": [("prog", {"focus": "CTOR,ANN:K"})],
        "assumptions": [
            "programs are abstracted to APF: per declaration the preorder node list ast.Inspect visits, with go/types information attached; DeclShape (FuncDecl nodes only head func declarations) is go/ast's shape and is checked on every input (wf=ok)",
            "supported fragment as stated by the property: non-generic defined types, direct imports; write / use forms the property does not list are neither required nor forbidden",
        ],
        "trusted_base": ["hand-written whole-program model GGV.Model.Prog (annotation reading, indices, walks, @ignore scopes, filters) of annotations/, indexing/, immutable/, constructor/, testonly/, packageonly/, ignore/, tied by the prog correspondence (real analyzers in-process vs model on generated + corpus modules)",
                         "APF extractor (go/ast + go/types, independent of gogreement) as the abstraction function; go/types for type information"],
    },
    "C03": {
        "theorems": T("C03", ["testonly_exact", "tonlFile_eq", "tonlWalk_decl", "tonlNode_eq", "testonly_test_files_silent", "testonly_context_prune", "testonly_same_name_not_reported", "testonly_first_use"]) + ["GGV.Model.Prog.mem_runEvs"],
        "suites": [("prog", {"focus": "TONL,ANN:T"})],
        "assumptions": [
            "programs are abstracted to APF: per declaration the preorder node list ast.Inspect visits, with go/types information attached; DeclShape (FuncDecl nodes only head func declarations) is go/ast's shape and is checked on every input (wf=ok)",
            "supported fragment as stated by the property: non-generic defined types, direct imports; write / use forms the property does not list are neither required nor forbidden",
        ] + ["a receiver of a @testonly type on a non-@testonly method is neither clearly a parameter nor clearly not one: the model reproduces the code (it is reported), the specification is stated over the model's event list"],
        "trusted_base": ["hand-written whole-program model GGV.Model.Prog (annotation reading, indices, walks, @ignore scopes, filters) of annotations/, indexing/, immutable/, constructor/, testonly/, packageonly/, ignore/, tied by the prog correspondence (real analyzers in-process vs model on generated + corpus modules)",
                         "APF extractor (go/ast + go/types, independent of gogreement) as the abstraction function; go/types for type information"],
    },
    "C04": {
        "theorems": T("C04", ["packageonly_exact", "pkgoFile_eq", "pkgoNode_eq", "allow_union", "allowed_iff", "unannotated_silent", "declaring_always_allowed", "bare_only_D"]) + ["GGV.Model.Prog.mem_runEvs"],
        "suites": [("prog", {"focus": "PKGO,ANN:P"})],
        "assumptions": [
            "programs are abstracted to APF: per declaration the preorder node list ast.Inspect visits, with go/types information attached; DeclShape (FuncDecl nodes only head func declarations) is go/ast's shape and is checked on every input (wf=ok)",
            "supported fragment as stated by the property: non-generic defined types, direct imports; write / use forms the property does not list are neither required nor forbidden",
        ],
        "trusted_base": ["hand-written whole-program model GGV.Model.Prog (annotation reading, indices, walks, @ignore scopes, filters) of annotations/, indexing/, immutable/, constructor/, testonly/, packageonly/, ignore/, tied by the prog correspondence (real analyzers in-process vs model on generated + corpus modules)",
                         "APF extractor (go/ast + go/types, independent of gogreement) as the abstraction function; go/types for type information"],
    },
}
