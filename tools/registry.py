"""Theorem registry and suite map: what `obligations` counts for each property (DESIGN.md appendix A).

A registered theorem that is missing from the build, or whose `#print axioms` exceeds
{propext, Classical.choice, Quot.sound}, fails the check.
"""

def T(pid, names):
    return ["GGV.Props.%s.%s" % (pid, n) for n in names]


PROPS = {
    "C16": {
        "theorems": T("C16", ["contains_iffH", "contains_iff", "contains_perm", "contains_empty", "other_tokens_never",
                               "hier_table", "hier_category", "code_one_category", "hier_unknown",
                               "suppressedB_iff", "start_hypothesis_forced"]),
        "suites": ["iset"],
        "table_diag": True,
        "assumptions": [
            "positions are modelled as unbounded Int (token.Pos is an int; no property is about overflow)",
            "a Go map[string][]int is modelled as a total function with default []",
            "theorem hypothesis StartsValid (every scoped range starts at >= 1): forced by the NoPos=0 sentinel, "
            "outside the property's quantifier (ranges inside 1..5); the excluded point is run and logged",
        ],
        "trusted_base": ["hand-written model GGV.Model.IgnoreSet of src/util/ignoreset.go, tied by the iset correspondence suite",
                         "code hierarchy over the regenerated table GGV.Gen.codesByCategory (T1)"],
    },
    "C19": {
        "theorems": T("C19", ["truncateG_total", "caret_under_char", "displayCol_bounds", "truncate_len_le", "truncate_len_exact",
                               "truncate_short", "caret_prefix_len", "caret_prefix_tabs", "window_sound", "window_complete",
                               "window_has_reported_line", "no_excerpt", "render_header", "maxLineLength_ge_4", "context_is_2_1",
                               "caret_under_char_repo", "natDigits_length_mono", "gutter_aligned", "render_help_link"]),
        "suites": ["excerpt"],
        "assumptions": [
            "columns are byte columns (token.Position.Column counts bytes); visual alignment after multi-byte characters is not claimed",
            "bufio.Scanner line splitting is modelled (LF split, one trailing CR dropped, scan stops at a line >= 65536 bytes) and tied by correspondence incl. the exact boundary",
            "Go int modelled as unbounded Int",
        ],
        "trusted_base": ["hand-written model GGV.Model.Excerpt of src/reporting/reporter.go (truncateString, calculateDisplayColumn, readSourceLines, formatPrettyError), tied byte-for-byte by the excerpt suite",
                         "constants MaxLineLength and the (2,1) context regenerated from /repo (T5)"],
    },
    "C18": {
        "theorems": T("C18", ["parseList_char", "parseList_order", "parseList_join_idem", "resolve_precedence", "repoDefaults_normal",
                               "repoDefaults_documented", "resolve_default", "env_empty_is_set", "parseBool_iff", "checks_upper",
                               "items_wellformed", "asciiUpper_ok"]),
        "suites": ["cfg"],
        "binary": True,
        "assumptions": [
            "strings are modelled as lists of Unicode code points; unicode.ToUpper is a parameter constrained by UpperOK (idempotent, creates no comma, creates no blank), validated for Go's tables over all 1,114,112 runes on every run",
            "the driver instantiates the case mappings by ASCII-only mappings; inputs on which Go's tables differ from that (or invalid UTF-8) are only checked for 'the tool does not fail' and counted as outside_fragment",
            "invalid flag booleans (--config.scan-tests=yes) make package flag exit 2; the property exempts only environment values, so flag booleans are drawn from strconv.ParseBool spellings",
        ],
        "trusted_base": ["hand-written model GGV.Model.Config of src/config/config.go (parseStringList, parseBool, FromEnv, CreateFlagSet defaults, ParseFlagsFromFlagSet, ShouldSkipFile), tied in-process and through the real binary",
                         "defaults regenerated from config.Default() (T5)", "package flag, os.LookupEnv, strings.TrimSpace/ToUpper/ToLower/Split/Join as Go provides them"],
    },
    "C15": {
        "theorems": T("C15", ["recogniseBare_iff", "recognise_iff_immutable", "recognise_iff_testonly", "recognise_iff_mutable",
                               "keyword_exact_list", "keyword_exact_implements", "keyword_exact_bare", "list_names_valid",
                               "constructor_names", "ignore_codes_upper", "prefilter_complete", "near_miss_inert",
                               "acceptAfter_iff", "list_complete", "constructor_complete", "packageonly_complete", "ignore_complete",
                               "list_sound", "constructor_sound",
                               "spec_doc_wins", "group_doc_fallback", "type_decl_by_spec", "documented_spec_local", "undocumented_spec_inert", "type_decl_split"]),
        "suites": ["gram", ("prog", {"focus": "ANN:IKTMP"}), ("std", {"withmodel": "1", "focus": "ANN:IKTMP"}),
                   ("prog", {"impl": "1", "focus": "IMPL", "n": 50, "nocorpus": "1"})],
        "assumptions": [
            "comment texts are byte strings; RE2's \\s, \\w and the identifier classes are ASCII, '.' excludes only LF",
            "the regexes and the Aho-Corasick pre-filter are not translated into Lean: they are tied to the recogniser functions by the bounded-exhaustive + fuzz correspondence (as the property itself prescribes)",
            "texts that go/parser rejects (illegal UTF-8, NUL) cannot occur in a compilable package and are counted as outside_fragment",
        ],
        "trusted_base": ["hand-written recognisers GGV.Model.Grammar (closed form of the six regexes' leftmost-first behaviour + capture post-processing), tied through the real ReadAllAnnotations / ReadIgnoreAnnotations",
                         "go/parser comment attachment, regexp (RE2)"],
    },
    "C01": {
        "theorems": T("C01", ["immutable_exact", "siteDiag_iff", "immFieldHit_iff", "immNode_eq_sites", "immutable_silent_reads", "immutable_silent", "immutable_receiver_rule"]) + ["GGV.Model.Prog.immDecl_eq"],
        "suites": [("prog", {"focus": "IMM,ANN:IKM"}), ("prog", {"focus": "IMM,ANN:IKM", "scan": "1", "testfiles": "1", "n": 30, "nocorpus": "1"}),
                   ("std", {"withmodel": "1", "focus": "IMM,ANN:IKM"})],
        "assumptions": [
            "programs are abstracted to APF: per declaration the preorder node list ast.Inspect visits, with go/types information attached; DeclShape (FuncDecl nodes only head func declarations) is go/ast's shape and is checked on every input (wf=ok)",
            "supported fragment as stated by the property: non-generic defined types, direct imports; write / use forms the property does not list are neither required nor forbidden",
            "identifiers are resolved by the abstraction function: under `*x`, an identifier that carries the receiver's name and denotes another variable is given a name of its own (so the model's comparison by name is a comparison of objects, as in the code since F21)",
        ],
        "trusted_base": ["hand-written whole-program model GGV.Model.Prog (annotation reading, indices, walks, @ignore scopes, filters) of annotations/, indexing/, immutable/, constructor/, testonly/, packageonly/, ignore/, tied by the prog correspondence (real analyzers in-process vs model on generated + corpus modules)",
                         "APF extractor (go/ast + go/types, independent of gogreement) as the abstraction function; go/types for type information"],
    },
    "C02": {
        "theorems": T("C02", ["constructor_exact", "ctorNode_eq_sites", "ctorHit_iff", "constructor_silent_var", "constructor_silent_unannotated", "constructor_silent_inside", "constructor_foreign_name_not_exempt", "ctor_names_from_grammar", "initialised_spec_silent", "var_group_by_spec", "var_group_skip_initialised"]) + ["GGV.Model.Prog.ctorDecl_eq"],
        "suites": [("prog", {"focus": "CTOR,ANN:K"}), ("prog", {"focus": "CTOR,ANN:K", "scan": "1", "testfiles": "1", "n": 30, "nocorpus": "1"}),
                   ("std", {"withmodel": "1", "focus": "CTOR,ANN:K"})],
        "assumptions": [
            "programs are abstracted to APF: per declaration the preorder node list ast.Inspect visits, with go/types information attached; DeclShape (FuncDecl nodes only head func declarations) is go/ast's shape and is checked on every input (wf=ok)",
            "supported fragment as stated by the property: non-generic defined types, direct imports; write / use forms the property does not list are neither required nor forbidden",
        ],
        "trusted_base": ["hand-written whole-program model GGV.Model.Prog (annotation reading, indices, walks, @ignore scopes, filters) of annotations/, indexing/, immutable/, constructor/, testonly/, packageonly/, ignore/, tied by the prog correspondence (real analyzers in-process vs model on generated + corpus modules)",
                         "APF extractor (go/ast + go/types, independent of gogreement) as the abstraction function; go/types for type information"],
    },
    "C03": {
        "theorems": T("C03", ["testonly_exact", "tonlFile_eq", "tonlWalk_decl", "tonlNode_eq", "testonly_test_files_silent", "testonly_context_prune", "testonly_same_name_not_reported", "testonly_first_use"]) + ["GGV.Model.Prog.mem_runEvs"],
        "suites": [("prog", {"focus": "TONL,ANN:T"}), ("prog", {"focus": "TONL,ANN:T", "scan": "1", "testfiles": "1", "n": 30, "nocorpus": "1"}),
                   ("std", {"withmodel": "1", "focus": "TONL,ANN:T"})],
        "assumptions": [
            "programs are abstracted to APF: per declaration the preorder node list ast.Inspect visits, with go/types information attached; DeclShape (FuncDecl nodes only head func declarations) is go/ast's shape and is checked on every input (wf=ok)",
            "supported fragment as stated by the property: non-generic defined types, direct imports; write / use forms the property does not list are neither required nor forbidden",
        ] + ["a receiver of a @testonly type on a non-@testonly method is neither clearly a parameter nor clearly not one: the model reproduces the code (it is reported), the specification is stated over the model's event list"],
        "trusted_base": ["hand-written whole-program model GGV.Model.Prog (annotation reading, indices, walks, @ignore scopes, filters) of annotations/, indexing/, immutable/, constructor/, testonly/, packageonly/, ignore/, tied by the prog correspondence (real analyzers in-process vs model on generated + corpus modules)",
                         "APF extractor (go/ast + go/types, independent of gogreement) as the abstraction function; go/types for type information"],
    },
    "C04": {
        "theorems": T("C04", ["packageonly_exact", "pkgoFile_eq", "pkgoNode_eq", "allow_union", "allowed_iff", "unannotated_silent", "declaring_always_allowed", "bare_only_D"]) + ["GGV.Model.Prog.mem_runEvs"],
        "suites": [("prog", {"focus": "PKGO,ANN:P"}), ("prog", {"focus": "PKGO,ANN:P", "scan": "1", "testfiles": "1", "n": 30, "nocorpus": "1"}),
                   ("std", {"withmodel": "1", "focus": "PKGO,ANN:P"})],
        "assumptions": [
            "programs are abstracted to APF: per declaration the preorder node list ast.Inspect visits, with go/types information attached; DeclShape (FuncDecl nodes only head func declarations) is go/ast's shape and is checked on every input (wf=ok)",
            "supported fragment as stated by the property: non-generic defined types, direct imports; write / use forms the property does not list are neither required nor forbidden",
        ],
        "trusted_base": ["hand-written whole-program model GGV.Model.Prog (annotation reading, indices, walks, @ignore scopes, filters) of annotations/, indexing/, immutable/, constructor/, testonly/, packageonly/, ignore/, tied by the prog correspondence (real analyzers in-process vs model on generated + corpus modules)",
                         "APF extractor (go/ast + go/types, independent of gogreement) as the abstraction function; go/types for type information"],
    },
    "C06": {
        "theorems": T("C06", ["facts_serialisable", "fact_types_distinct", "export_unconditional", "checkers_require_reader", "depends_only_on_direct_imports", "import_uniform", "gob_norm_invariant", "importer_as_declarer"]),
        "suites": [("bin", {"mode": "drivers"}), ("prog", {"focus": "ANN:IKTMP,PKGO", "n": 80, "xpkg": "1"}), ("prog", {"impl": "1", "focus": "IMPL", "n": 40, "nocorpus": "1"})],
        "binary": True, "table_diag": True,
        "assumptions": ["PARTIAL: gob's byte-level encoding, vetx file handling by cmd/go and export-data importers are exercised (both drivers, subsets, gob sanity check), not modelled",
                        "facts are modelled as the annotation lists without positions (no checker reads an imported position)"],
        "trusted_base": ["hand-written whole-program model GGV.Model.Prog, tied by the prog correspondence (real analyzers in-process vs model)", "APF extractor (go/ast + go/types, independent of gogreement)"] + ["tables T3/T4 regenerated from /repo (analyzers, run functions, fact structs)", "x/tools drivers (multichecker, unitchecker, checker), cmd/go vet"],
    },
    "C07": {
        "theorems": T("C07", ["scope_file", "scope_decl", "scope_stmt", "scope_stmt_none", "scope_line", "scope_line_after_decl", "inline_iff", "declIndex_spec",
                               "ignore_exact_report", "ignore_exact_detect", "marker_codes_upper", "raise_independent_of_comments", "ignoreOps_startsValid"]),
        "suites": ["ignore", ("ignore", {"scan": "1", "n": 40}), ("ignore", {"checks": "IMM,ctor02,TONL03,PKGO01", "n": 40}), ("std", {"withmodel": "1", "focus": "IGN"})],
        "assumptions": ["scope theorems assume MonoCut / NextCut (in preorder, once a node starts at/after the comment all later nodes do): decidable, true of go/ast trees for comments inside bodies, and the markers of every generated program are compared with the real ReadIgnoreAnnotations",
                        "'the following statement' is formalised as the first node in preorder that starts after the comment (the node with the smallest start position after it, outermost), in its whole extent",
                        "marker starts are >= 1 (PosValid: comment positions and line starts are real positions)"],
        "trusted_base": ["hand-written whole-program model GGV.Model.Prog, tied by the prog correspondence (real analyzers in-process vs model)", "APF extractor (go/ast + go/types, independent of gogreement)"],
    },
    "C08": {
        "theorems": T("C08", ["exclude_module", "hier_members", "exclude_all_empty", "junk_excludes_nothing", "exclude_filter_report", "exclude_commutes_with_dedup", "ignoreOps_exclude"]),
        "suites": [("bin", {"mode": "exclude"})],
        "binary": True, "table_diag": True,
        "assumptions": ["case-insensitivity of the option value is C18's (check codes are upper-cased when the list is parsed)"],
        "trusted_base": ["hand-written whole-program model GGV.Model.Prog, tied by the prog correspondence (real analyzers in-process vs model)", "APF extractor (go/ast + go/types, independent of gogreement)"] + ["code table T1 regenerated from /repo"],
    },
    "C09": {
        "theorems": T("C09", ["no_annotations_no_diagnostics", "no_annotations_no_facts", "near_miss_inert", "env_empty"]) + ["GGV.Model.Prog.readAnnotations_empty", "GGV.Model.Prog.annOfTypeLine_inert", "GGV.Model.Prog.annOfFuncLine_inert"],
        "suites": [("prog", {"noann": "1", "nocorpus": "1", "n": 120}), ("bin", {"mode": "corpus"})],
        "binary": True,
        "assumptions": ["@implements diagnostics are part of the C05 model; the emptiness theorem covers the four walks, IMPL emptiness (no annotation => early return) is tied by the corpus and noann runs"],
        "trusted_base": ["hand-written whole-program model GGV.Model.Prog, tied by the prog correspondence (real analyzers in-process vs model)", "APF extractor (go/ast + go/types, independent of gogreement)"],
    },
    "C10": {
        "theorems": T("C10", ["contains_index_safe", "contains_lookup_some", "render_total", "window_index_safe", "ignore_set_wellformed", "run_total"]),
        "suites": [("bin", {"mode": "crash"}), ("prog", {"focus": "PANIC", "n": 150}), ("prog", {"focus": "PANIC", "n": 60, "scan": "1", "testfiles": "1", "nocorpus": "1"}),
                   ("excerpt", {"focus": "PANIC"}), ("std", {})],
        "binary": True,
        "assumptions": ["PARTIAL: panics inside go/types, go/packages, the drivers; memory exhaustion; scheduler hangs are outside the model", "termination of the modelled logic is Lean's structural recursion over finite lists"],
        "trusted_base": ["hand-written whole-program model GGV.Model.Prog, tied by the prog correspondence (real analyzers in-process vs model)", "APF extractor (go/ast + go/types, independent of gogreement)"],
    },
    "C11": {
        "theorems": T("C11", ["shared_state_justified", "shared_state_inventory", "shared_lookups_read_only", "contains_is_shared_lookup", "once_deterministic", "inv_step", "baseShift_monotone", "base_shift_invariant", "base_shift_codes"]) + ["GGV.Props.C12.index_order_free", "GGV.Props.C12.reported_keys_order_free"],
        "suites": [("bin", {"mode": "determinism"}), ("shift", {})],
        "binary": True, "table_diag": True,
        "assumptions": ["PARTIAL: the Go memory model and races inside x/tools are outside the model; sync.Once's contract (Do returns only after the first f completed) is assumed",
                        "the race detector is search support only (thorough tier / after a mismatch); no claim rests on it"],
        "trusted_base": ["hand-written whole-program model GGV.Model.Prog, tied by the prog correspondence (real analyzers in-process vs model)", "APF extractor (go/ast + go/types, independent of gogreement)"] + ["table T6 regenerated from /repo (package-level variables and their write sites, by go/ast + go/types)"],
    },
    "C12": {
        "theorems": T("C12", ["move_decl", "perm_decls", "annotations_order_free", "index_order_free", "reported_keys_order_free", "plain_order_free", "checkImmutable_decls", "checkConstructor_decls",
                               "suppressed_mapPos", "ignores_agree", "relayout_invariant"]) +
                    ["GGV.Model.Prog.ignoreOps_mapPos", "GGV.Model.Prog.checkImmutable_mapPos", "GGV.Model.Prog.checkConstructor_mapPos",
                     "GGV.Model.Prog.checkTestOnly_mapPos", "GGV.Model.Prog.checkPackageOnly_mapPos", "GGV.Model.Prog.readAnnotations_mapPos"],
        "suites": [("layout", {"kind": "layout"})],
        "assumptions": ["blank lines, comments, gofmt: proved as invariance under a re-layout (strictly increasing position map fixing 0, injective line map) — relayout_invariant; positions inside Decl.info (read only by the @implements pipeline) are outside that theorem; local renaming is tied by the metamorphic layout suite on the real analyzers, not proved",
                        "moving declarations between files is compared without file-level @ignore comments (a file-level comment legitimately follows the file, not the declaration)"],
        "trusted_base": ["hand-written whole-program model GGV.Model.Prog, tied by the prog correspondence (real analyzers in-process vs model)", "APF extractor (go/ast + go/types, independent of gogreement)"],
    },
    "C13": {
        "theorems": T("C13", ["classify_respects_identity", "respell_invariant", "typeInfo_norm", "varTypeInfo_norm", "typeName_norm", "paren_invariant", "respell_program_invariant"]) + ["GGV.Model.Prog.analyze_mapTy", "GGV.Model.Prog.readIgnores_mapTy"],
        "suites": [("layout", {"kind": "spelling"}), ("prog", {"impl": "1", "focus": "IMPL", "n": 60, "nocorpus": "1"})],
        "assumptions": ["type identity is modelled up to aliases (go/types' Alias / Pointer / Named structure is kept by the extractor); a renamed import changes nothing the model reads"],
        "trusted_base": ["hand-written whole-program model GGV.Model.Prog, tied by the prog correspondence (real analyzers in-process vs model)", "APF extractor (go/ast + go/types, independent of gogreement)"],
    },
    "C14": {
        "theorems": T("C14", ["shouldSkip_char", "scan_tests_like_any", "tonl_never_in_tests", "excluded_inert", "no_diag_in_excluded", "imm_site_pos", "ctor_site_pos"]),
        "suites": [("excl", {}), ("excl", {"scan": "1"}), ("excl", {"paths": "zz,gen_"}), ("excl", {"scan": "1", "paths": "zz_,in_test"}),
                   ("excl", {"paths": "test,testdata,zz_testdata", "n": 24}), ("excl", {"paths": "/zz_,d0/gen_,0/in_test.go", "n": 24}), ("excl", {"paths": "(v1),zz+plus,testdata", "n": 20}), ("bin", {"mode": "excludedir"}),
                   ("prog", {"impl": "1", "focus": "IMPL", "n": 30, "nocorpus": "1"}),
                   ("prog", {"focus": "IMM,CTOR,PKGO,ANN:IKTMP", "scan": "1", "testfiles": "1", "n": 30, "nocorpus": "1"})],
        "binary": True,
        "assumptions": ["declarations in excluded files still exist for the type checker; the theorem keeps the type information fixed"],
        "trusted_base": ["hand-written whole-program model GGV.Model.Prog, tied by the prog correspondence (real analyzers in-process vs model)", "APF extractor (go/ast + go/types, independent of gogreement)"],
    },
    "C17": {
        "theorems": T("C17", ["codes_documented", "codes_are_the_sixteen", "doc_url_by_category", "analyzer_owns_category", "five_checkers", "render_header", "inline_ignore_removes", "inline_ignore_keeps_others", "diag_in_pkg_file"]) + ["GGV.Props.C19.render_help_link"],
        "suites": [("bin", {"mode": "wellformed"})],
        "binary": True, "table_diag": True,
        "assumptions": ["'exactly one code': the bracketed token right after 'error: ' is in the table and no OTHER table code occurs bracketed in the header (CTOR/TONL messages repeat their own code)",
                        "exit status is x/tools multichecker's behaviour: observed (text mode: 3 when any diagnostic), not modelled"],
        "trusted_base": ["hand-written whole-program model GGV.Model.Prog, tied by the prog correspondence (real analyzers in-process vs model)", "APF extractor (go/ast + go/types, independent of gogreement)"] + ["tables T1, T2, T3, T8 regenerated from /repo and its book"],
    },
    "C05": {
        "theorems": T("C05", ["importFind_none_iff", "importFind_alias_first", "cascade_exclusive", "missing_exact", "correct_is_silent", "match_iff_identical", "value_form_excludes_pointer_methods"]),
        "suites": [("prog", {"impl": "1", "focus": "IMPL", "n": 100, "nocorpus": "1"}), ("prog", {"impl": "1", "focus": "IMPL", "n": 40, "nocorpus": "1", "scan": "1"}), ("prog", {"focus": "IMPL", "n": 40}), ("std", {"withmodel": "1", "focus": "IMPL"})],
        "assumptions": [
            "go/types is the oracle the property names: method sets, Func.Id, types.Identical (signatures numbered up to it), types.Implements are computed by the extractor and handed to the model; the real tool's IMPL diagnostics (code, interface, listed methods) are compared with that oracle on every scenario",
            "a qualifier that resolves only through ImportMap.Find's exact-path / path-suffix fallbacks is Unspecified (the pinned suite demands the fallback): the specification follows the model there",
            "non-generic interfaces and types (as the property says)",
        ],
        "trusted_base": ["hand-written model GGV.Model.Implements of annotations.parseImplementsAnnotation, util.ImportMap, implements/*, tied by the prog correspondence on generated @implements scenarios and the corpus",
                         "APF extractor's IMPL section (go/types method sets and verdicts)"],
    },
}
