#!/bin/bash
# reftest.sh <refactor dir (patch.diff)> <scratch worktree of /repo>
# A behaviour-preserving refactoring must not raise any alarm: runs all 19 quick checks against the worktree with the
# patch applied (private copy of /verif, like seedpar.sh) and prints the properties that alarmed.
out=$(/verif/tools/seedpar.sh "$1" "$2" C01 C02 C03 C04 C05 C06 C07 C08 C09 C10 C11 C12 C13 C14 C15 C16 C17 C18 C19 2>&1 | grep -E "OK |FAIL ")
bad=$(echo "$out" | grep -c "FAIL ")
echo "REFACTOR $1 alarms=$bad :: $(echo "$out" | grep 'FAIL ' | sed 's/.*FAIL \(C[0-9]*\).*/\1/' | tr '\n' ' ')"
[ "$bad" -eq 0 ]
