import GGV.Run.ISet
import GGV.Run.Excerpt
import GGV.Run.Config
import GGV.Run.Grammar
/-! `ggmodel`: one request per line `<id> <suite> <op> <args…>`, one reply per line `<id> <result>`. -/
open GGV.Run

def dispatch (suite op : String) (args : List String) : String :=
  match suite with
  | "iset" => isetSuite op args
  | "excerpt" => excerptSuite op args
  | "cfg" => cfgSuite op args
  | "gram" => gramSuite op args
  | _ => "bad-suite"

partial def loop (hin : IO.FS.Stream) (hout : IO.FS.Stream) : IO Unit := do
  let line ← hin.getLine
  if line.isEmpty then return ()
  let line := String.ofList (line.toList.filter (fun c => c != '\n' && c != '\r'))
  match line.splitOn " " with
  | id :: suite :: op :: args =>
    hout.putStrLn (id ++ " " ++ dispatch suite op args)
  | _ => hout.putStrLn "? bad-line"
  loop hin hout

def main : IO Unit := do
  let hin ← IO.getStdin
  let hout ← IO.getStdout
  loop hin hout
  hout.flush
