import GGV.Run.ISet
import GGV.Run.Excerpt
import GGV.Run.Config
import GGV.Run.Grammar
import GGV.Run.Apf
import GGV.Run.Tables
/-! `ggmodel`: one request per line `<id> <suite> <op> <args…>`, one reply per line `<id> <result>`.
    The `apf` suite is stateful (configuration + facts of the packages seen so far). -/
open GGV.Run

def dispatch (s : Session) (suite op : String) (args : List String) : Session × String :=
  match suite with
  | "iset" => (s, isetSuite op args)
  | "excerpt" => (s, excerptSuite op args)
  | "cfg" => (s, cfgSuite op args)
  | "gram" => (s, gramSuite op args)
  | "apf" => apfSuite s op args
  | "tables" => (s, tablesSuite op args)
  | _ => (s, "bad-suite")

partial def loop (hin : IO.FS.Stream) (hout : IO.FS.Stream) (s : Session) : IO Unit := do
  let line ← hin.getLine
  if line.isEmpty then return ()
  let line := String.ofList (line.toList.filter (fun c => c != '\n' && c != '\r'))
  match line.splitOn " " with
  | id :: suite :: op :: args =>
    let (s', out) := dispatch s suite op args
    hout.putStrLn (id ++ " " ++ out)
    loop hin hout s'
  | _ =>
    hout.putStrLn "? bad-line"
    loop hin hout s

def main : IO Unit := do
  let hin ← IO.getStdin
  let hout ← IO.getStdout
  loop hin hout {}
  hout.flush
