import GGV.Lemmas.Walk
import GGV.Lemmas.Dedup
import GGV.Props.C16
import GGV.Props.C03
/-!
# C07 — @ignore suppresses exactly the diagnostics in its scope that match its codes

Scopes. `scopeOf` (the model of `ReadIgnoreAnnotations`' range computation: `findInlineNode`,
`findNextNodeAfterComment`) is proven equal to the four scopes the property words, under a decidable
hypothesis about the node list that every check evaluates on the real trees (`MonoCut`: in preorder, once a
node starts at / after the comment all later nodes do; true of go/ast trees for comments inside bodies).

Filtering. A diagnostic of the immutable / constructor checkers is reported iff it is raised and not
`Suppressed` (C16) by the package's markers; for the once-per-file codes the reported use is the first one
that is not suppressed (C03 / C04 `FirstUnsuppressed`).
-/
namespace GGV.Props.C07
open GGV.Model GGV.Model.Prog

/-! ## own source line when it trails code -/

/-- code on the comment's line before the comment: a node that starts before the comment and starts or ends on its line -/
def lineHit (cpos cline : Int) (n : Node) : Bool :=
  decide (n.pos < cpos) && (n.startLine == cline || n.endLine == cline)

theorem inlineWalk_true (cpos cline : Int) (k : Nat) (l : List Node) : inlineWalk cpos cline true k l = true := by
  induction l generalizing k with
  | nil => rfl
  | cons n r ih =>
    cases k with
    | succ k' => simp only [inlineWalk]; exact ih k'
    | zero =>
      simp only [inlineWalk]
      split
      · exact ih _
      · split <;> exact ih _

theorem inlineWalk_allGe (cpos cline : Int) (found : Bool) (k : Nat) (l : List Node)
    (h : ∀ n ∈ l, n.pos ≥ cpos) : inlineWalk cpos cline found k l = found := by
  induction l generalizing k with
  | nil => rfl
  | cons n r ih =>
    have hr : ∀ m ∈ r, m.pos ≥ cpos := fun m hm => h m (by simp [hm])
    cases k with
    | succ k' => simp only [inlineWalk]; exact ih k' hr
    | zero =>
      simp only [inlineWalk]
      rw [if_pos (h n (by simp))]
      exact ih _ hr

/-- in preorder, the nodes starting before the comment form a prefix -/
def MonoCut (cpos : Int) (l : List Node) : Prop :=
  ∃ a b, l = a ++ b ∧ (∀ n ∈ a, n.pos < cpos) ∧ (∀ n ∈ b, n.pos ≥ cpos)

theorem inlineWalk_prefix (cpos cline : Int) (found : Bool) (a b : List Node)
    (ha : ∀ n ∈ a, n.pos < cpos) (hb : ∀ n ∈ b, n.pos ≥ cpos) :
    inlineWalk cpos cline found 0 (a ++ b) = (found || a.any (lineHit cpos cline)) := by
  induction a generalizing found with
  | nil => simp [inlineWalk_allGe cpos cline found 0 b hb]
  | cons n r ih =>
    have hn : n.pos < cpos := ha n (by simp)
    have hr : ∀ m ∈ r, m.pos < cpos := fun m hm => ha m (by simp [hm])
    simp only [List.cons_append, inlineWalk]
    rw [if_neg (by omega)]
    by_cases hl : (n.startLine == cline || n.endLine == cline) = true
    · rw [if_pos hl, inlineWalk_true]
      simp [lineHit, hn, hl]
    · rw [if_neg hl, ih found hr]
      simp only [Bool.not_eq_true] at hl
      simp [lineHit, hn, hl]

/-- **the walk of `findInlineNode` finds code on the comment's line iff there is some** -/
theorem inline_iff (cpos cline : Int) (l : List Node) (hm : MonoCut cpos l) :
    inlineWalk cpos cline false 0 l = true ↔ ∃ n ∈ l, lineHit cpos cline n = true := by
  obtain ⟨a, b, rfl, ha, hb⟩ := hm
  rw [inlineWalk_prefix cpos cline false a b ha hb]
  simp only [Bool.false_or, List.any_eq_true, List.mem_append]
  constructor
  · rintro ⟨n, hn, h⟩; exact ⟨n, Or.inl hn, h⟩
  · rintro ⟨n, hn | hn, h⟩
    · exact ⟨n, hn, h⟩
    · exfalso
      have := hb n hn
      simp only [lineHit, Bool.and_eq_true, decide_eq_true_eq] at h
      omega

/-- scope 4, **its own source line when it trails code**: inside a declaration, the range is
    [start of the comment's line, end of the comment] exactly when some node of the declaration starts before the
    comment and starts or ends on the comment's line; a comment trailing the last token of the previous
    declaration is inline as well -/
theorem prevEndsOnLine_false (f : File) (cm : Comment)
    (hprev : ∀ i pd, declIndex f.decls cm.pos = i + 1 → f.decls[i]? = some pd → pd.endLine ≠ cm.line) :
    prevEndsOnLine f cm = false := by
  unfold prevEndsOnLine
  cases hi : declIndex f.decls cm.pos with
  | zero => rfl
  | succ i =>
    simp only
    cases hpd : f.decls[i]? with
    | none => rfl
    | some pd =>
      have := hprev i pd hi hpd
      simp [this]

theorem scope_line (f : File) (cm : Comment) (d : Decl)
    (hd : f.decls[declIndex f.decls cm.pos]? = some d) (hin : d.pos ≤ cm.pos)
    (hprev : ∀ i pd, declIndex f.decls cm.pos = i + 1 → f.decls[i]? = some pd → pd.endLine ≠ cm.line)
    (hm : MonoCut cm.pos d.nodes) :
    findInline f cm = (if ∃ n ∈ d.nodes, lineHit cm.pos cm.line n = true then some (cm.lineStart, cm.stop) else none) := by
  unfold findInline
  rw [prevEndsOnLine_false f cm hprev]
  simp only [Bool.false_eq_true, if_false, hd]
  rw [if_neg (by omega)]
  by_cases hex : ∃ n ∈ d.nodes, lineHit cm.pos cm.line n = true
  · rw [if_pos hex, if_pos ((inline_iff cm.pos cm.line d.nodes hm).2 hex)]
  · rw [if_neg hex]
    have : ¬ inlineWalk cm.pos cm.line false 0 d.nodes = true := fun h => hex ((inline_iff cm.pos cm.line d.nodes hm).1 h)
    simp [this]

/-- a comment that trails the last token of the preceding top-level declaration is inline for that line -/
theorem scope_line_after_decl (f : File) (cm : Comment) (i : Nat) (pd : Decl)
    (hi : declIndex f.decls cm.pos = i + 1) (hpd : f.decls[i]? = some pd) (hl : pd.endLine = cm.line) :
    findInline f cm = some (cm.lineStart, cm.stop) := by
  unfold findInline prevEndsOnLine
  simp [hi, hpd, hl]

/-! ## the whole following statement when it stands alone inside a body -/

theorem nextWalk_fixed (cpos : Int) (st : Int × Int) (k : Nat) (l : List Node)
    (h0 : st.1 ≠ 0) (h : ∀ n ∈ l, n.pos ≥ st.1) : nextWalk cpos st k l = st := by
  induction l generalizing k with
  | nil => rfl
  | cons n r ih =>
    have hr : ∀ m ∈ r, m.pos ≥ st.1 := fun m hm => h m (by simp [hm])
    cases k with
    | succ k' => simp only [nextWalk]; exact ih k' hr
    | zero =>
      simp only [nextWalk]
      split
      · exact ih 0 hr
      · have hn := h n (by simp)
        rw [if_neg (by simp only [Bool.or_eq_true, beq_iff_eq, decide_eq_true_eq, not_or]; exact ⟨h0, by omega⟩)]
        exact ih 0 hr

theorem nextWalk_prefix (cpos : Int) (st : Int × Int) (a rest : List Node) (ha : ∀ n ∈ a, n.pos ≤ cpos) :
    nextWalk cpos st 0 (a ++ rest) = nextWalk cpos st 0 rest := by
  induction a with
  | nil => rfl
  | cons n r ih =>
    simp only [List.cons_append, nextWalk]
    rw [if_pos (ha n (by simp))]
    exact ih (fun m hm => ha m (by simp [hm]))

/-- the preorder list, cut at the first node that starts after the comment, with everything later starting no earlier -/
def NextCut (cpos : Int) (l : List Node) (n : Node) : Prop :=
  ∃ a b, l = a ++ n :: b ∧ (∀ m ∈ a, m.pos ≤ cpos) ∧ cpos < n.pos ∧ (∀ m ∈ b, m.pos ≥ n.pos)

/-- scope 3, **the whole following statement**: inside a declaration, a standalone comment covers
    [comment, END of the first node that starts after it] — the node with the smallest start position after the
    comment, in its whole extent (F4 repaired: the end, not the start) -/
theorem scope_stmt (cpos : Int) (l : List Node) (n : Node) (h : NextCut cpos l n) (hpos : 0 < n.pos) :
    (nextWalk cpos (0, 0) 0 l).2 = n.stop ∧ (∀ m ∈ l, cpos < m.pos → n.pos ≤ m.pos) := by
  obtain ⟨a, b, rfl, ha, hn, hb⟩ := h
  constructor
  · rw [nextWalk_prefix cpos (0, 0) a (n :: b) ha]
    simp only [nextWalk]
    rw [if_neg (by omega), if_pos (by simp)]
    rw [nextWalk_fixed cpos (n.pos, n.stop) n.size b (by simp; omega) (by simpa using hb)]
  · intro m hm hlt
    simp only [List.mem_append, List.mem_cons] at hm
    rcases hm with hm | rfl | hm
    · have := ha m hm; omega
    · omega
    · exact hb m hm

/-- no node after the comment inside the declaration: the marker covers just the comment -/
theorem scope_stmt_none (cpos : Int) (l : List Node) (h : ∀ m ∈ l, m.pos ≤ cpos) :
    (nextWalk cpos (0, 0) 0 l).2 = 0 := by
  have := nextWalk_prefix cpos (0, 0) l [] h
  simp only [List.append_nil] at this
  rw [this]; rfl

/-! ## the whole following declaration / the whole file -/

/-- scope 1, **the whole file**: a comment before the package clause covers [comment, end of file] -/
theorem scope_file (f : File) (cm : Comment) (h : cm.pos < f.packagePos) : scopeOf f cm = (cm.pos, f.fileEnd) := by
  simp [scopeOf, h]

/-- scope 2, **the whole following declaration**: a standalone comment before a top-level declaration covers
    [comment, end of that declaration] -/
theorem scope_decl (f : File) (cm : Comment) (d : Decl) (hpk : f.packagePos ≤ cm.pos)
    (hd : f.decls[declIndex f.decls cm.pos]? = some d) (hbefore : cm.pos < d.pos) (hstop : d.stop ≠ 0)
    (hprev : ∀ i pd, declIndex f.decls cm.pos = i + 1 → f.decls[i]? = some pd → pd.endLine ≠ cm.line) :
    scopeOf f cm = (cm.pos, d.stop) := by
  have hinl : findInline f cm = none := by
    unfold findInline
    rw [prevEndsOnLine_false f cm hprev]
    simp [hd, hbefore]
  have hnext : findNext f cm.pos = d.stop := by simp [findNext, hd, hbefore]
  unfold scopeOf
  rw [if_neg (by omega), hinl, hnext]
  simp [hstop]

/-- the declaration found for a comment is the first one that ends after it -/
theorem declIndex_spec (decls : List Decl) (pos : Int) (d : Decl) (h : decls[declIndex decls pos]? = some d) :
    d.stop > pos ∧ ∀ j, j < declIndex decls pos → ∀ e, decls[j]? = some e → ¬ e.stop > pos := by
  unfold declIndex at h ⊢
  cases hf : decls.findIdx? (fun d => decide (d.stop > pos)) with
  | none => simp [hf] at h
  | some i =>
    simp only [hf] at h ⊢
    rw [List.findIdx?_eq_some_iff_getElem] at hf
    obtain ⟨hlt, hp, hmin⟩ := hf
    constructor
    · have : decls[i] = d := by simpa [List.getElem?_eq_getElem hlt] using h
      rw [← this]; simpa using hp
    · intro j hj e he
      have hjl : j < decls.length := by omega
      have : decls[j] = e := by simpa [List.getElem?_eq_getElem hjl] using he
      rw [← this]
      simpa using hmin j hj

/-! ## filtering: reported = raised and not suppressed -/

/-- marker ranges start at real positions (comment positions and line starts are ≥ 1) -/
def PosValid (p : Pkg) : Prop := ∀ f ∈ p.files, (1 ≤ f.packagePos) ∧ ∀ cm ∈ f.comments, 1 ≤ cm.pos ∧ 1 ≤ cm.lineStart

theorem findInline_some (f : File) (cm : Comment) (r : Int × Int) (h : findInline f cm = some r) :
    r = (cm.lineStart, cm.stop) := by
  unfold findInline at h
  split at h
  · simp at h; exact h.symm
  · split at h
    · simp at h
    · split at h
      · simp at h
      · split at h
        · simp at h; exact h.symm
        · simp at h

theorem scopeOf_start (f : File) (cm : Comment) (h1 : 1 ≤ cm.pos) (h2 : 1 ≤ cm.lineStart) : 1 ≤ (scopeOf f cm).1 := by
  unfold scopeOf
  split
  · exact h1
  · split
    · rename_i r hr
      rw [findInline_some f cm r hr]; exact h2
    · exact h1

theorem ignoreOps_startsValid (cfg : Cfg) (p : Pkg) (hv : PosValid p) : C16.StartsValid (ignoreOps cfg p) := by
  intro m hm
  unfold ignoreOps at hm
  simp only [List.mem_append, List.mem_flatMap, List.mem_filterMap] at hm
  rcases hm with hm | ⟨f, hf, cm, hcm, hmk⟩
  · split at hm <;> simp at hm
  · obtain ⟨hf1, _⟩ := mem_filesToScan.1 hf
    obtain ⟨_, hc⟩ := hv f hf1
    obtain ⟨h1, h2⟩ := hc cm hcm
    cases hmo : markerOf f cm with
    | none => simp [hmo] at hmk
    | some mk =>
      simp only [hmo, Option.map_some, Option.some.injEq, Op.add.injEq] at hmk
      subst hmk
      unfold markerOf at hmo
      split at hmo
      · simp at hmo
      · split at hmo
        · simp only [Option.some.injEq] at hmo
          rw [← hmo]
          exact scopeOf_start f cm h1 h2
        · simp at hmo

/-- **reported = raised and not suppressed**: for the report-time filtered checkers (IMM, CTOR) a raised
    diagnostic survives iff no marker / excluded check of the package suppresses it in the sense of C16 -/
theorem ignore_exact_report (cfg : Cfg) (p : Pkg) (hv : PosValid p) (raw : List Diag) (d : Diag) :
    d ∈ raw.filter (fun d => !(readIgnores cfg p).contains d.code d.pos) ↔
      d ∈ raw ∧ ¬ C16.Suppressed hier (ignoreOps cfg p) d.code d.pos := by
  simp only [List.mem_filter, Bool.not_eq_true', readIgnores]
  have h := C16.contains_iff (ignoreOps cfg p) (ignoreOps_startsValid cfg p hv) d.code d.pos
  constructor
  · rintro ⟨h1, h2⟩
    refine ⟨h1, fun hs => ?_⟩
    rw [h.2 hs] at h2; exact absurd h2 (by simp)
  · rintro ⟨h1, h2⟩
    refine ⟨h1, ?_⟩
    cases hb : (run (ignoreOps cfg p)).contains d.code d.pos with
    | false => rfl
    | true => exact absurd (h.1 hb) h2

/-- for the detection-time filtered checkers (TONL, PKGO) the suppression test of the dedup fold is the same
    C16 relation; with C03 / C04 `FirstUnsuppressed` this is "the report moves to the next unsuppressed use" -/
theorem ignore_exact_detect (cfg : Cfg) (p : Pkg) (hv : PosValid p) (d : Diag) :
    GGV.Props.C03.sup (readIgnores cfg p) d = true ↔ C16.Suppressed hier (ignoreOps cfg p) d.code d.pos := by
  unfold GGV.Props.C03.sup readIgnores
  exact C16.contains_iff (ignoreOps cfg p) (ignoreOps_startsValid cfg p hv) d.code d.pos

/-- codes match case-insensitively: the marker's codes are the upper-cased tokens of the comment -/
theorem marker_codes_upper (f : File) (cm : Comment) (m : Marker) (h : markerOf f cm = some m) :
    ∃ codes, Grammar.parseIgnore cm.text = some codes ∧ m.codes = codes.map codeString ∧
      m.start = (scopeOf f cm).1 ∧ m.stop = (scopeOf f cm).2 := by
  unfold markerOf at h
  split at h
  · simp at h
  · split at h
    · rename_i codes hc
      simp only [Option.some.injEq] at h
      subst h
      exact ⟨codes, hc, rfl, rfl, rfl⟩
    · simp at h

/-- what the checkers raise does not depend on comments at all: only the filter does -/
theorem raise_independent_of_comments (cfg : Cfg) (c : WalkCtx) (p p' : Pkg)
    (h : p'.files = p.files.map fun f => { f with comments := [] }) :
    checkImmutable cfg c p' = checkImmutable cfg c p ∧ checkConstructor cfg c p' = checkConstructor cfg c p := by
  have hf : filesToScan cfg p' = (filesToScan cfg p).map fun f => { f with comments := [] } := by
    simp [filesToScan, h, List.filter_map, Function.comp_def]
  constructor
  · unfold checkImmutable; rw [hf]; simp [List.flatMap_map]
  · unfold checkConstructor; rw [hf]; simp [List.flatMap_map]

/-! ## Non-vacuity: concrete node lists meeting the cut hypotheses -/
def exNodes : List Node :=
  [⟨.funcDecl [102], 10, 90, 1, 9, 4⟩, ⟨.other, 20, 88, 1, 9, 3⟩, ⟨.other, 30, 40, 2, 2, 0⟩,
   ⟨.assign .assign [], 60, 70, 4, 4, 1⟩, ⟨.other, 64, 70, 4, 4, 0⟩]
example : MonoCut 50 exNodes := ⟨exNodes.take 3, exNodes.drop 3, rfl, by decide, by decide⟩
example : NextCut 50 exNodes ⟨.assign .assign [], 60, 70, 4, 4, 1⟩ :=
  ⟨exNodes.take 3, exNodes.drop 4, rfl, by decide, by decide, by decide⟩
example : (nextWalk 50 (0, 0) 0 exNodes).2 = 70 := by decide
example : inlineWalk 42 2 false 0 exNodes = true := by decide

end GGV.Props.C07
