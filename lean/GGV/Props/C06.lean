import GGV.Props.C12
/-!
# C06 — Annotations cross package boundaries intact, whatever the driver or run set (partial)

What the model carries: the fact payload is serialisable field by field (T4), every analyzer exports its fact
unconditionally (T3: measured on an empty package), each analyzer has its own fact type, the
indices treat the current package and its direct imports uniformly and depend only on them.
Not exhibited by the model: gob's byte encoding, vetx files, the drivers — exercised by the `drivers` suite.
-/
namespace GGV.Props.C06
open GGV.Model GGV.Model.Prog

/-- every field of the seven structs that travel as facts is exported and gob-transmissible -/
theorem facts_serialisable : GGV.Gen.factFields.all (fun f => f.2.2.1 && f.2.2.2.2) = true := by decide

/-- one distinct fact wrapper type per fact-exporting analyzer, each a registered wrapper -/
theorem fact_types_distinct :
    (GGV.Gen.analyzers.flatMap (·.facts)).Nodup ∧
    (GGV.Gen.analyzers.flatMap (·.facts)).all (fun f => GGV.Gen.factWrappers.contains f) = true := by decide

/-- facts are exported unconditionally: run on a package that contains nothing at all (measured on the linked
    analyzers by T3), every analyzer still exports exactly the facts it declares — no data-dependent return
    precedes the export, so an importer always finds a fact for each of its imports -/
theorem export_unconditional :
    GGV.Gen.analyzers.all (fun a => a.exportedOnEmpty == a.facts) = true := by decide

/-- the analyzers that export facts other than the reader itself require the annotation reader (so the facts they
    re-export are its result), the configuration and the ignore reader -/
theorem checkers_require_reader :
    (GGV.Gen.analyzers.filter (fun a => !a.facts.isEmpty && a.name != "annotationreader")).all
      (fun a => a.requires.contains "annotationreader" && a.requires.contains "config" && a.requires.contains "ignorereader") = true := by decide

/-- **the diagnostics of a package depend only on its own files, the configuration and the facts of its direct
    imports**: `analyze` has no other input; and the current package and an import are indexed by the same
    functions of their annotations (`Env` is one list) -/
theorem depends_only_on_direct_imports (cfg : Cfg) (facts facts' : List (Name × Annotations)) (p : Pkg)
    (h : facts = facts') : analyze cfg facts p = analyze cfg facts' p := by rw [h]

/-- import uniformity: an annotation has the same effect on a lookup whether its package entry is the current
    package's (head of the environment) or an import's (anywhere else) -/
theorem import_uniform (e1 e2 : Env) (entry : Name × Annotations) (pkg ty f x : Name) (k : AKind) (recv name : Name) :
    Env.isImmutable (entry :: e1 ++ e2) pkg ty = Env.isImmutable (e1 ++ entry :: e2) pkg ty ∧
    Env.isMutableField (entry :: e1 ++ e2) pkg ty f = Env.isMutableField (e1 ++ entry :: e2) pkg ty f ∧
    (x ∈ Env.ctorNames (entry :: e1 ++ e2) pkg ty ↔ x ∈ Env.ctorNames (e1 ++ entry :: e2) pkg ty) ∧
    (x ∈ Env.attachments (entry :: e1 ++ e2) pkg k recv name ↔ x ∈ Env.attachments (e1 ++ entry :: e2) pkg k recv name) := by
  have hp : (entry :: e1 ++ e2).Perm (e1 ++ entry :: e2) := by
    simpa using (List.perm_middle (a := entry) (l₁ := e1) (l₂ := e2)).symm
  obtain ⟨h1, h2, _, _, _, h6, h7⟩ := C12.index_order_free _ _ hp pkg ty f k recv name x
  exact ⟨h1, h2, h6, h7⟩

/-- a gob round trip can turn an empty slice into nil and back: the model's lists do not distinguish them,
    and no checker reads an imported position -/
theorem gob_norm_invariant (a : Annotations) : a = { a with immutable := a.immutable ++ [] } := by simp


/-! ## importers see a package's annotations exactly as the package itself does -/

/-- the entries of an environment that speak about package `P` -/
def viewOf (e : Env) (P : Name) : Env := e.filter (fun pa => pa.1 == P)

theorem isImmutable_view (e : Env) (P ty : Name) : Env.isImmutable e P ty = Env.isImmutable (viewOf e P) P ty := by
  unfold Env.isImmutable viewOf
  induction e with
  | nil => rfl
  | cons a r ih =>
    simp only [List.any_cons, List.filter_cons]
    by_cases h : (a.1 == P) = true
    · simp only [h, if_true, List.any_cons, Bool.true_and, ih]
    · simp only [h, Bool.false_and, Bool.false_or, ih]; rfl

theorem isMutableField_view (e : Env) (P ty f : Name) :
    Env.isMutableField e P ty f = Env.isMutableField (viewOf e P) P ty f := by
  unfold Env.isMutableField viewOf
  induction e with
  | nil => rfl
  | cons a r ih =>
    simp only [List.any_cons, List.filter_cons]
    by_cases h : (a.1 == P) = true
    · simp only [h, if_true, List.any_cons, Bool.true_and, ih]
    · simp only [h, Bool.false_and, Bool.false_or, ih]; rfl

theorem ctorNames_view (e : Env) (P ty : Name) : Env.ctorNames e P ty = Env.ctorNames (viewOf e P) P ty := by
  unfold Env.ctorNames viewOf
  induction e with
  | nil => rfl
  | cons a r ih =>
    simp only [List.flatMap_cons, List.filter_cons]
    by_cases h : (a.1 == P) = true
    · simp only [h, if_true, List.flatMap_cons, ih]
    · simp only [h, List.nil_append, ih]; rfl

theorem testOnlyMethod_view (e : Env) (P ty m : Name) :
    Env.testOnlyMethod e P ty m = Env.testOnlyMethod (viewOf e P) P ty m := by
  unfold Env.testOnlyMethod viewOf
  induction e with
  | nil => rfl
  | cons a r ih =>
    simp only [List.any_cons, List.filter_cons]
    by_cases h : (a.1 == P) = true
    · simp only [h, if_true, List.any_cons, Bool.true_and, ih]
    · simp only [h, Bool.false_and, Bool.false_or, ih]; rfl

theorem testOnlyFunc_view (e : Env) (P fn : Name) : Env.testOnlyFunc e P fn = Env.testOnlyFunc (viewOf e P) P fn := by
  unfold Env.testOnlyFunc viewOf
  induction e with
  | nil => rfl
  | cons a r ih =>
    simp only [List.any_cons, List.filter_cons]
    by_cases h : (a.1 == P) = true
    · simp only [h, if_true, List.any_cons, Bool.true_and, ih]
    · simp only [h, Bool.false_and, Bool.false_or, ih]; rfl

/-- **importer as declarer**: take a type `ty` of package `P`, and two analysed packages (the declaring one and an
    importer, or two importers) whose environments hold the same entries about `P`. Outside `P`'s constructors of
    `ty`, a field write through a value of that type, an instantiation of it, and a call of one of its @testonly
    methods or of a @testonly function of `P` get the same verdict in both. -/
theorem importer_as_declarer (c c' : WalkCtx) (fn fn' : Name) (P ty : Name)
    (hview : viewOf c.env P = viewOf c'.env P)
    (hfn : c.inConstructor fn P ty = false) (hfn' : c'.inConstructor fn' P ty = false)
    (xTy : Option Ty) (hx : typeInfo xTy = some (P, ty)) (field m f : Name) :
    immFieldHit c fn xTy field = immFieldHit c' fn' xTy field ∧
    ctorHit c fn (some (P, ty)) = ctorHit c' fn' (some (P, ty)) ∧
    tonlCall c (.sel none m xTy) = tonlCall c' (.sel none m xTy) ∧
    tonlCall c (.sel (some P) f none) = tonlCall c' (.sel (some P) f none) := by
  refine ⟨?_, ?_, ?_, ?_⟩
  · unfold immFieldHit
    simp only [hx, hfn, hfn']
    rw [isImmutable_view c.env, isImmutable_view c'.env, isMutableField_view c.env, isMutableField_view c'.env, hview]
  · unfold ctorHit
    simp only [hfn, hfn']
    rw [ctorNames_view c.env, ctorNames_view c'.env, hview]
  · unfold tonlCall
    simp only [hx]
    rw [testOnlyMethod_view c.env, testOnlyMethod_view c'.env, hview]
  · unfold tonlCall
    simp only
    rw [testOnlyFunc_view c.env, testOnlyFunc_view c'.env, hview]

/-- the hypothesis is met by the declaring package and its importers: the declaring package indexes its own
    annotations first, an importer finds the same entry among its facts (no other entry speaks about `P`) -/
example (P : Name) (a : Annotations) (pre post own : Env)
    (h1 : viewOf pre P = []) (h2 : viewOf post P = []) (h3 : viewOf own P = []) :
    viewOf ((P, a) :: own) P = viewOf (pre ++ (P, a) :: post) P := by
  unfold viewOf at *
  simp [List.filter_append, List.filter_cons, h1, h2, h3]

end GGV.Props.C06
