import GGV.Lemmas.IgnoreSet
import GGV.Props.C19
import GGV.Props.C07
/-!
# C10 — Analysis is total (partial)

Every model function is a total, structurally recursive Lean function over finite lists (as every loop of the
code is a `range` over a finite AST / slice), so termination of the modelled logic is Lean's own obligation.
The partial operations of the modelled code are explicit and proven safe here:
* `s.Markers[idx]` in `IgnoreSet.Contains` — every stored index is in range (`contains_index_safe`);
* the slice expressions of `truncateString` (`render_total`) and the line indices of `readSourceLines` (`window_index_safe`);
* `*ctx.currentFunction` — since the F1/F2 repair the walk state is set at the start of every declaration; the model's
  walk starts each declaration with a defined state, and the crash corpus ties it (package-level initialisers first
  in a file are generated and are in `corpus/witnesses`);
* `token.File.LineStart(line)` in `findInlineNode` — called with an unadjusted line of a comment of that file (F12 repair); tied by
  generated `//line` directives.
Not exhibited: panics inside go/types, go/packages, the drivers; memory exhaustion; scheduler hangs.
-/
namespace GGV.Props.C10
open GGV.Model GGV.Model.Prog

/-- along every history, each index stored in the code index is a valid index into the marker list -/
theorem contains_index_safe (ops : List Op) (hv : C16.StartsValid ops) (c : String) (i : Nat)
    (hinit : (run ops).init = true) (hmem : i ∈ (run ops).index c) : i < (run ops).markers.length :=
  index_in_range (inv_run ops hv) hinit c i hmem

/-- … so the `none` branch of the model's lookup (Go: index out of range) is never taken -/
theorem contains_lookup_some (ops : List Op) (hv : C16.StartsValid ops) (c : String) (i : Nat)
    (hinit : (run ops).init = true) (hmem : i ∈ (run ops).index c) : ∃ m, (run ops).markers[i]? = some m := by
  have := contains_index_safe ops hv c i hinit hmem
  exact ⟨(run ops).markers[i], by simp [List.getElem?_eq_getElem this]⟩

/-- no slice expression of the message renderer can be out of range, for any line, limit and column -/
theorem render_total (s : Bytes) (M : Nat) (pos : Int) : truncateG s M pos = some (truncate s M pos) :=
  C19.truncateG_total s M pos

/-- every line index `readSourceLines` uses is inside the file -/
theorem window_index_safe (lines : List Bytes) (L : Int) (b a : Nat) (n : Nat) (t : Bytes)
    (h : (n, t) ∈ window lines L b a) : 1 ≤ n ∧ n ≤ lines.length := by
  obtain ⟨h1, h2, _, _⟩ := C19.window_sound lines L b a n t h
  refine ⟨h1, ?_⟩
  obtain ⟨hlt, _⟩ := List.getElem?_eq_some_iff.1 h2
  omega

/-- the marker ranges handed to the ignore set start at real positions (so `contains_index_safe` applies to every package) -/
theorem ignore_set_wellformed (cfg : Cfg) (p : Pkg) (hv : C07.PosValid p) : C16.StartsValid (ignoreOps cfg p) :=
  C07.ignoreOps_startsValid cfg p hv

/-- the analysis of a package is a total function of its abstract program: `analyze` returns a result for every input -/
theorem run_total (cfg : Cfg) (facts : List (Name × Annotations)) (p : Pkg) :
    ∃ r, analyze cfg facts p = r := ⟨_, rfl⟩

end GGV.Props.C10
