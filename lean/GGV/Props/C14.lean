import GGV.Props.C01
import GGV.Props.C02
import GGV.Props.C03
import GGV.Props.C04
/-!
# C14 — Excluded files are inert: no diagnostics in them, no influence from them
-/
namespace GGV.Props.C14
open GGV.Model GGV.Model.Prog

/-- exactly which files are excluded: a name containing an exclude-paths entry, or (unless scan-tests) a `_test.go` name -/
theorem shouldSkip_char (c : Cfg) (name : Bytes) :
    shouldSkip c name = true ↔
      (∃ e ∈ c.excludePaths, Grammar.isInfix e name = true) ∨ (c.scanTests = false ∧ testSuffix.isSuffixOf name = true) := by
  simp [shouldSkip, List.any_eq_true]

/-- with scan-tests on, a test file is treated like any other file by the file filter -/
theorem scan_tests_like_any (c : Cfg) (name : Bytes) (h : c.scanTests = true) :
    shouldSkip c name = c.excludePaths.any (fun p => Grammar.isInfix p name) := by
  simp [shouldSkip, h]

/-- … except that it never receives TONL diagnostics -/
theorem tonl_never_in_tests (c : WalkCtx) (ig : ISet) (f : File) (h : testSuffix.isSuffixOf f.name = true) :
    tonlFile c ig f = [] := C03.testonly_test_files_silent c ig f h

/-- **no influence from excluded files**: everything the analyzers compute for a package is a function of the
    files the configuration selects (plus the package's path and name, and its direct imports' facts):
    annotations, @ignore comments and violations inside excluded files change nothing -/
theorem excluded_inert (cfg : Cfg) (facts : List (Name × Annotations)) (p p' : Pkg)
    (hpath : p.path = p'.path) (hname : p.name = p'.name) (hfiles : filesToScan cfg p = filesToScan cfg p') :
    analyze cfg facts p = analyze cfg facts p' := by
  have ha : readAnnotations cfg p = readAnnotations cfg p' := by simp only [readAnnotations, hpath, hfiles]
  have hi : readIgnores cfg p = readIgnores cfg p' := by simp only [readIgnores, ignoreOps, hfiles]
  have h1 : ∀ c, checkImmutable cfg c p = checkImmutable cfg c p' := by intro c; simp only [checkImmutable, hfiles]
  have h2 : ∀ c, checkConstructor cfg c p = checkConstructor cfg c p' := by intro c; simp only [checkConstructor, hfiles]
  have h3 : ∀ c ig, checkTestOnly cfg c ig p = checkTestOnly cfg c ig p' := by intro c ig; simp only [checkTestOnly, hfiles]
  have h4 : ∀ c ig, checkPackageOnly cfg c ig p = checkPackageOnly cfg c ig p' := by intro c ig; simp only [checkPackageOnly, hfiles]
  unfold analyze
  simp only [ha, hi, h1, h2, h3, h4, hpath, hname]

/-! ## no diagnostic is located in an excluded file -/

def lhsPositions : Lhs → List Int
  | .sel _ _ p => [p]
  | .idx x p => p :: lhsPositions x
  | .star x p => p :: lhsPositions x
  | .paren x => lhsPositions x
  | _ => []

/-- every source position a node mentions -/
def nodePositions (n : Node) : List Int :=
  n.pos :: (match n.kind with
    | .assign _ lhs => lhs.flatMap lhsPositions
    | .incDec x => lhsPositions x
    | .genVar specs => specs.flatMap fun s => s.names.map (·.pos)
    | _ => [])

def filePositions (f : File) : List Int := f.decls.flatMap fun d => d.nodes.flatMap nodePositions

theorem unparen_positions (l : Lhs) : ∀ p ∈ lhsPositions l.unparen, p ∈ lhsPositions l := by
  induction l with
  | paren x ih => intro p hp; simpa [Lhs.unparen, lhsPositions] using ih p (by simpa [Lhs.unparen] using hp)
  | _ => intro p hp; simpa [Lhs.unparen] using hp

theorem imm_site_pos (c : WalkCtx) (fn : Name) (recv : Option RecvCtx) (n : Node) (dg : Diag)
    (h : dg ∈ immNode c fn recv n) : dg.pos ∈ nodePositions n := by
  unfold immNode at h
  unfold nodePositions
  cases hk : n.kind with
  | assign tok lhs =>
    rw [hk] at h
    simp only at h
    simp only [List.mem_cons, List.mem_flatMap]
    right
    by_cases ht : (tok == AssignTok.assign) = true
    · simp only [ht, if_true, List.mem_flatMap] at h
      obtain ⟨l, hl, hd⟩ := h
      refine ⟨l, hl, ?_⟩
      apply unparen_positions
      unfold immAssignLhs at hd
      cases hu : l.unparen with
      | sel xTy f pos => rw [hu] at hd; simp only at hd; split at hd <;> simp_all [lhsPositions]
      | idx x pos =>
        rw [hu] at hd
        simp only at hd
        cases hx : x.unparen <;> rw [hx] at hd <;> simp only at hd <;> (try (split at hd)) <;> simp_all [lhsPositions]
      | star x pos => rw [hu] at hd; simp only at hd; split at hd <;> simp_all [lhsPositions]
      | _ => rw [hu] at hd; simp at hd
    · simp only [ht, Bool.false_eq_true, if_false, List.mem_flatMap] at h
      obtain ⟨l, hl, hd⟩ := h
      refine ⟨l, hl, ?_⟩
      apply unparen_positions
      unfold immCompoundLhs at hd
      cases hu : l.unparen with
      | sel xTy f pos => rw [hu] at hd; simp only at hd; split at hd <;> simp_all [lhsPositions]
      | _ => rw [hu] at hd; simp at hd
  | incDec x =>
    rw [hk] at h
    simp only at h
    unfold immIncDec at h
    cases hu : x.unparen with
    | sel xTy f pos => rw [hu] at h; simp only at h; split at h <;> simp_all
    | star y pos =>
      rw [hu] at h
      simp only at h
      simp only [List.mem_cons]
      right
      apply unparen_positions
      split at h <;> simp_all [lhsPositions]
    | _ => rw [hu] at h; simp at h
  | _ => rw [hk] at h; simp at h

theorem ctor_site_pos (c : WalkCtx) (fn : Name) (n : Node) (dg : Diag)
    (h : dg ∈ ctorNode c fn n) : dg.pos ∈ nodePositions n := by
  rw [C02.ctorNode_eq_sites] at h
  simp only [List.mem_filterMap] at h
  obtain ⟨s, hs, hv⟩ := h
  have hp : dg.pos = s.pos := by
    split at hv
    · simp only [Option.some.injEq] at hv; rw [← hv]
    · simp at hv
  rw [hp]
  unfold C02.sites at hs
  unfold nodePositions
  cases hk : n.kind with
  | compLit ty => rw [hk] at hs; simp at hs; simp [hs]
  | call callee nargs arg0 =>
    rw [hk] at hs
    cases callee with
    | ident name o => simp only at hs; split at hs <;> simp_all
    | _ => simp at hs
  | genVar specs =>
    rw [hk] at hs
    simp only [List.mem_flatMap] at hs
    obtain ⟨sp, hsp, hs2⟩ := hs
    split at hs2
    · simp at hs2
    · simp only [List.mem_flatMap] at hs2
      obtain ⟨v, hv1, hv2⟩ := hs2
      split at hv2
      · simp at hv2
      · simp only [List.mem_singleton] at hv2
        subst hv2
        simp only [List.mem_cons, List.mem_flatMap, List.mem_map]
        exact Or.inr ⟨sp, hsp, v, hv1, rfl⟩
  | _ => rw [hk] at hs; simp at hs

theorem mem_filePositions (f : File) (d : Decl) (n : Node) (x : Int) (hd : d ∈ f.decls) (hn : n ∈ d.nodes)
    (hx : x ∈ nodePositions n) : x ∈ filePositions f := by
  simp only [filePositions, List.mem_flatMap]
  exact ⟨d, hd, n, hn, hx⟩

theorem ev_pos_plain {K : Type} (pos : Int) (code : String) :
    (∀ d, (Ev.plain ⟨pos, code⟩ : Ev K) = .plain d → d.pos = pos) ∧
    (∀ k d, (Ev.plain ⟨pos, code⟩ : Ev K) = .keyed k d → d.pos = pos) := by
  constructor
  · intro d h; cases h; rfl
  · intro k d h; cases h

theorem ev_pos_keyed {K : Type} (k0 : K) (pos : Int) (code : String) :
    (∀ d, (Ev.keyed k0 ⟨pos, code⟩ : Ev K) = .plain d → d.pos = pos) ∧
    (∀ k d, (Ev.keyed k0 ⟨pos, code⟩ : Ev K) = .keyed k d → d.pos = pos) := by
  constructor
  · intro d h; cases h
  · intro k d h; cases h; rfl

theorem tonl_ev_pos (c : WalkCtx) (n : Node) (ev : Ev C03.Key) (h : C03.tonlEv c n = some ev) :
    (∀ d, ev = .plain d → d.pos = n.pos) ∧ (∀ k d, ev = .keyed k d → d.pos = n.pos) := by
  unfold C03.tonlEv at h
  cases hk : n.kind with
  | call callee a b =>
    rw [hk] at h
    simp only [Option.map_eq_some_iff] at h
    obtain ⟨x, _, rfl⟩ := h
    exact ev_pos_plain _ _
  | compLit ty =>
    rw [hk] at h
    simp only [Option.map_eq_some_iff] at h
    obtain ⟨x, _, rfl⟩ := h
    exact ev_pos_keyed _ _ _
  | valueSpec ty =>
    rw [hk] at h
    simp only [Option.map_eq_some_iff] at h
    obtain ⟨x, _, rfl⟩ := h
    exact ev_pos_keyed _ _ _
  | field ty =>
    rw [hk] at h
    simp only [Option.map_eq_some_iff] at h
    obtain ⟨x, _, rfl⟩ := h
    exact ev_pos_keyed _ _ _
  | _ => rw [hk] at h; simp at h

theorem pkgo_ev_pos (c : WalkCtx) (n : Node) (ev : Ev C04.Key) (h : C04.pkgoEv c n = some ev) :
    (∀ d, ev = .plain d → d.pos = n.pos) ∧ (∀ k d, ev = .keyed k d → d.pos = n.pos) := by
  unfold C04.pkgoEv at h
  split at h
  · split at h
    · simp at h
    · split at h
      · simp only [Option.some.injEq] at h; subst h; exact ev_pos_keyed _ _ _
      · simp at h
  · split at h
    · simp at h
    · split at h
      · simp only [Option.some.injEq] at h; subst h; exact ev_pos_plain _ _
      · simp at h
  · split at h
    · simp at h
    · split at h
      · simp only [Option.some.injEq] at h; subst h; exact ev_pos_plain _ _
      · simp at h
  · simp at h

/-- **no diagnostic in an excluded file**: every reported position is a position of a node of a file the
    configuration selects -/
theorem no_diag_in_excluded (cfg : Cfg) (facts : List (Name × Annotations)) (p : Pkg)
    (hs : PkgShape p) (hz : ∀ f ∈ p.files, ∀ d ∈ f.decls, C03.DeclSized d) (dg : Diag)
    (h : dg ∈ (analyze cfg facts p).diags) :
    ∃ f ∈ p.files, shouldSkip cfg f.name = false ∧ dg.pos ∈ filePositions f := by
  generalize hc : (⟨(p.path, readAnnotations cfg p) :: facts, p.path, p.name⟩ : WalkCtx) = c at h
  generalize hig : readIgnores cfg p = ig at h
  have h' : (dg ∈ checkImmutable cfg c p ∨ dg ∈ checkConstructor cfg c p) ∨ dg ∈ checkTestOnly cfg c ig p ∨ dg ∈ checkPackageOnly cfg c ig p := by
    simp only [analyze, hc, hig, List.mem_append, List.mem_filter] at h
    rcases h with ((⟨h, _⟩ | ⟨h, _⟩) | h) | h
    · exact Or.inl (Or.inl h)
    · exact Or.inl (Or.inr h)
    · exact Or.inr (Or.inl h)
    · exact Or.inr (Or.inr h)
  rcases h' with (h | h) | h | h
  · -- immutable
    unfold checkImmutable at h
    split at h
    · simp at h
    · simp only [List.mem_flatMap] at h
      obtain ⟨f, hf, d, hd, hm⟩ := h
      obtain ⟨hf1, hf2⟩ := mem_filesToScan.1 hf
      rw [immDecl_eq _ d (hs f hf1 d hd)] at hm
      simp only [List.mem_flatMap] at hm
      obtain ⟨n, hn, hv⟩ := hm
      exact ⟨f, hf1, hf2, mem_filePositions f d n _ hd hn (imm_site_pos _ _ _ n dg hv)⟩
  · -- constructor
    unfold checkConstructor at h
    split at h
    · simp at h
    · simp only [List.mem_flatMap] at h
      obtain ⟨f, hf, d, hd, hm⟩ := h
      obtain ⟨hf1, hf2⟩ := mem_filesToScan.1 hf
      rw [ctorDecl_eq _ d (hs f hf1 d hd)] at hm
      simp only [List.mem_flatMap] at hm
      obtain ⟨n, hn, hv⟩ := hm
      exact ⟨f, hf1, hf2, mem_filePositions f d n _ hd hn (ctor_site_pos _ _ n dg hv)⟩
  · -- testonly
    obtain ⟨f, hf1, hf2, _, hev⟩ := (C03.testonly_exact cfg c ig p hs hz dg).1 h
    have key : ∀ ev, ev ∈ C03.fileEvs c f → (∀ d, ev = .plain d → d.pos ∈ filePositions f) ∧ (∀ k d, ev = .keyed k d → d.pos ∈ filePositions f) := by
      intro ev hev'
      simp only [C03.fileEvs, C03.declEvs, List.mem_flatMap] at hev'
      obtain ⟨d, hd, hm⟩ := hev'
      split at hm
      · simp at hm
      · simp only [List.mem_filterMap] at hm
        obtain ⟨n, hn, hne⟩ := hm
        obtain ⟨h1, h2⟩ := tonl_ev_pos c n ev hne
        constructor
        · intro d' e; rw [h1 d' e]; exact mem_filePositions f d n _ hd hn (by simp [nodePositions])
        · intro k d' e; rw [h2 k d' e]; exact mem_filePositions f d n _ hd hn (by simp [nodePositions])
    refine ⟨f, hf1, hf2, ?_⟩
    rcases hev with ⟨hm, _⟩ | ⟨k, a, b, e, _⟩
    · exact (key _ hm).1 dg rfl
    · exact (key (.keyed k dg) (by rw [e]; simp)).2 k dg rfl
  · -- packageonly
    obtain ⟨f, hf1, hf2, hev⟩ := (C04.packageonly_exact cfg c ig p dg).1 h
    have key : ∀ ev, ev ∈ C04.fileEvs c f → (∀ d, ev = .plain d → d.pos ∈ filePositions f) ∧ (∀ k d, ev = .keyed k d → d.pos ∈ filePositions f) := by
      intro ev hev'
      simp only [C04.fileEvs, List.mem_flatMap, List.mem_filterMap] at hev'
      obtain ⟨d, hd, n, hn, hne⟩ := hev'
      obtain ⟨h1, h2⟩ := pkgo_ev_pos c n ev hne
      constructor
      · intro d' e; rw [h1 d' e]; exact mem_filePositions f d n _ hd hn (by simp [nodePositions])
      · intro k d' e; rw [h2 k d' e]; exact mem_filePositions f d n _ hd hn (by simp [nodePositions])
    refine ⟨f, hf1, hf2, ?_⟩
    rcases hev with ⟨hm, _⟩ | ⟨k, a, b, e, _⟩
    · exact (key _ hm).1 dg rfl
    · exact (key (.keyed k dg) (by rw [e]; simp)).2 k dg rfl

/-! ## Non-vacuity -/
example : shouldSkip {} (ascii "pkg/x_test.go") = true ∧ shouldSkip {} (ascii "pkg/testdata/x.go") = true ∧
    shouldSkip {} (ascii "pkg/x.go") = false ∧ shouldSkip { scanTests := true } (ascii "pkg/x_test.go") = false ∧
    shouldSkip { scanTests := true, excludePaths := [ascii "gen", ascii "mock"] } (ascii "a/mocks/m_test.go") = true := by decide

end GGV.Props.C14
