import GGV.Lemmas.Grammar
import GGV.Lemmas.GrammarList
import GGV.Lemmas.Attach
/-!
# C15 — The annotation grammar is exactly the documented one

For all byte strings. The recognisers (`GGV.Model.Grammar`) are tied to the regexes by the bounded-exhaustive
+ fuzz `gram` correspondence; these theorems relate them to the documented grammar.
-/
namespace GGV.Props.C15
open GGV.Model GGV.Model.Grammar

/-- the documented shape of a no-argument annotation line:
    blanks, `//`, blanks, the exact lowercase keyword, then nothing or blank + free text -/
def RecognisedBare (kw line : Bytes) : Prop :=
  ∃ w1 w2 t, AllWs w1 ∧ AllWs w2 ∧ line = w1 ++ slashes ++ w2 ++ kw ++ t ∧ TailOK t

/-- **no-argument keywords: recognised iff documented shape** (for `@immutable`, `@testonly`, `@mutable`) -/
theorem recogniseBare_iff (kw line : Bytes) (hkw : IsKw kw) :
    recogniseBare kw line = true ↔ RecognisedBare kw line := by
  unfold recogniseBare RecognisedBare
  constructor
  · intro h
    split at h
    · simp at h
    · rename_i t ht
      obtain ⟨w1, w2, h1, h2, e⟩ := (lead_iff kw line t hkw).1 ht
      exact ⟨w1, w2, t, h1, h2, e, (tailOk_iff t).1 h⟩
  · rintro ⟨w1, w2, t, h1, h2, e, ht⟩
    have := (lead_iff kw line t hkw).2 ⟨w1, w2, h1, h2, e⟩
    rw [this]
    exact (tailOk_iff t).2 ht

theorem kw_immutable : IsKw kwImmutable := ⟨64, _, rfl, by decide⟩
theorem kw_testonly : IsKw kwTestonly := ⟨64, _, rfl, by decide⟩
theorem kw_mutable : IsKw kwMutable := ⟨64, _, rfl, by decide⟩
theorem kw_constructor : IsKw kwConstructor := ⟨64, _, rfl, by decide⟩
theorem kw_packageonly : IsKw kwPackageonly := ⟨64, _, rfl, by decide⟩
theorem kw_ignore : IsKw kwIgnore := ⟨64, _, rfl, by decide⟩
theorem kw_implements : IsKw kwImplements := ⟨64, _, rfl, by decide⟩

theorem recognise_iff_immutable (line : Bytes) :
    recogniseBare kwImmutable line = true ↔ RecognisedBare kwImmutable line :=
  recogniseBare_iff _ _ kw_immutable
theorem recognise_iff_testonly (line : Bytes) :
    recogniseBare kwTestonly line = true ↔ RecognisedBare kwTestonly line :=
  recogniseBare_iff _ _ kw_testonly
theorem recognise_iff_mutable (line : Bytes) :
    recogniseBare kwMutable line = true ↔ RecognisedBare kwMutable line :=
  recogniseBare_iff _ _ kw_mutable

/-- the line begins (after `//` and blanks) with the exact keyword followed by end of line or a blank -/
def BeginsWithKeyword (kw line : Bytes) : Prop :=
  ∃ w1 w2 t, AllWs w1 ∧ AllWs w2 ∧ line = w1 ++ slashes ++ w2 ++ kw ++ t ∧
    (t = [] ∨ ∃ b t', t = b :: t' ∧ isWs b = true)

/-- **keyword exactness for list annotations**: whenever `@constructor` / `@packageonly` / `@ignore` is
    recognised at all, the line begins with the exact keyword followed by end of line or a blank
    (other letter case, longer words, mid-sentence mentions, block comments are inert) -/
theorem keyword_exact_list (kw : Bytes) (hkw : IsKw kw) (k : IdClass) (line : Bytes) (r : List Bytes)
    (h : recogniseList kw k line = some r) : BeginsWithKeyword kw line := by
  unfold recogniseList at h
  split at h
  · simp at h
  · rename_i ht
    obtain ⟨w1, w2, h1, h2, e⟩ := (lead_iff kw line [] hkw).1 ht
    exact ⟨w1, w2, [], h1, h2, e, Or.inl rfl⟩
  · rename_i b t ht
    obtain ⟨w1, w2, h1, h2, e⟩ := (lead_iff kw line (b :: t) hkw).1 ht
    by_cases hb : isWs b = true
    · exact ⟨w1, w2, b :: t, h1, h2, e, Or.inr ⟨b, t, rfl, hb⟩⟩
    · simp [hb] at h

theorem keyword_exact_implements (line : Bytes) (r : Bool × Bytes × Bytes)
    (h : parseImplements line = some r) : BeginsWithKeyword kwImplements line := by
  unfold parseImplements at h
  split at h
  · simp at h
  · simp at h
  · rename_i b t ht
    obtain ⟨w1, w2, h1, h2, e⟩ := (lead_iff kwImplements line (b :: t) kw_implements).1 ht
    by_cases hb : isWs b = true
    · exact ⟨w1, w2, b :: t, h1, h2, e, Or.inr ⟨b, t, rfl, hb⟩⟩
    · simp [hb] at h

theorem keyword_exact_bare (kw : Bytes) (hkw : IsKw kw) (line : Bytes)
    (h : recogniseBare kw line = true) : BeginsWithKeyword kw line := by
  obtain ⟨w1, w2, t, h1, h2, e, ht⟩ := (recogniseBare_iff kw line hkw).1 h
  refine ⟨w1, w2, t, h1, h2, e, ?_⟩
  rcases ht with rfl | ⟨w, r, hne, hw, rfl, _⟩
  · exact Or.inl rfl
  · cases w with
    | nil => exact absurd rfl hne
    | cons c w' => exact Or.inr ⟨c, w' ++ r, rfl, hw c (by simp)⟩

/-- **argument well-formedness**: every captured name is an identifier of the keyword's class
    (Go identifier / package path token / alphanumeric code), and the capture is non-empty or absent -/
theorem list_names_valid (kw : Bytes) (k : IdClass) (line : Bytes) (names : List Bytes)
    (h : recogniseList kw k line = some names) : ∀ n ∈ names, ValidId k n := by
  unfold recogniseList at h
  split at h
  · simp at h
  · simp at h; subst h; simp
  · rename_i b t _
    split at h
    · simp at h
    · simp only at h
      split at h
      · split at h <;> simp at h <;> subst h <;> simp
      · rename_i id0 r0 hid
        split at h
        · rename_i ns hns
          simp only [Option.some.injEq] at h
          subst h
          intro n hn
          obtain ⟨p, hp, e⟩ := (longestAccepted_sub _ _ hns).2 n hn
          rw [← e]
          exact chain_valid k _ id0 r0 (parseId_valid k _ id0 r0 hid) p hp
        · split at h <;> simp at h <;> subst h <;> simp

/-- `@constructor` needs at least one Go identifier; every name it yields is one -/
theorem constructor_names (line : Bytes) (names : List Bytes) (h : parseConstructor line = some names) :
    names ≠ [] ∧ ∀ n ∈ names, ValidId goIdent n := by
  unfold parseConstructor at h
  split at h
  · rename_i n ns hr
    simp only [Option.some.injEq] at h
    subst h
    exact ⟨by simp, list_names_valid _ _ _ _ hr⟩
  · simp at h

/-- `@ignore` needs at least one code; codes come out upper-cased -/
theorem ignore_codes_upper (line : Bytes) (codes : List Bytes) (h : parseIgnore line = some codes) :
    codes ≠ [] ∧ ∀ c ∈ codes, c ≠ [] ∧ ∀ b ∈ c, (65 ≤ b ∧ b ≤ 90) ∨ (48 ≤ b ∧ b ≤ 57) := by
  unfold parseIgnore at h
  split at h
  · rename_i n ns hr
    simp only [Option.some.injEq] at h
    subst h
    refine ⟨by simp, ?_⟩
    intro c hc
    simp only [List.mem_map] at hc
    obtain ⟨c0, hc0, rfl⟩ := hc
    obtain ⟨b0, r0, rfl, hs, hr0⟩ := list_names_valid _ _ _ _ hr c0 hc0
    refine ⟨by simp, ?_⟩
    intro b hb
    simp only [List.map_cons, List.mem_cons, List.mem_map] at hb
    have key : ∀ x : UInt8, codeTok.rest x = true → (65 ≤ upperAscii x ∧ upperAscii x ≤ 90) ∨ (48 ≤ upperAscii x ∧ upperAscii x ≤ 57) := by
      intro x hx
      simp only [codeTok, isAlpha, isDigit, Bool.or_eq_true, Bool.and_eq_true, decide_eq_true_eq] at hx
      unfold upperAscii
      by_cases hl : (97 ≤ x && x ≤ 122) = true
      · simp only [hl, if_true]
        simp only [Bool.and_eq_true, decide_eq_true_eq] at hl
        left
        have h1 : x.toNat ≥ 97 := by have := hl.1; exact UInt8.le_iff_toNat_le.1 this
        have h2 : x.toNat ≤ 122 := UInt8.le_iff_toNat_le.1 hl.2
        constructor
        · apply UInt8.le_iff_toNat_le.2
          rw [UInt8.toNat_sub_of_le _ _ (by apply UInt8.le_iff_toNat_le.2; simp; omega)]
          simp; omega
        · apply UInt8.le_iff_toNat_le.2
          rw [UInt8.toNat_sub_of_le _ _ (by apply UInt8.le_iff_toNat_le.2; simp; omega)]
          simp; omega
      · simp only [hl, Bool.false_eq_true, if_false]
        simp only [Bool.and_eq_true, decide_eq_true_eq, not_and] at hl
        rcases hx with (⟨h1, h2⟩ | ⟨h1, h2⟩) | ⟨h1, h2⟩
        · left; exact ⟨h1, h2⟩
        · exact absurd h2 (hl h1)
        · right; exact ⟨h1, h2⟩
    rcases hb with rfl | ⟨x, hx, rfl⟩
    · exact key b0 hs
    · exact key x (hr0 x hx)
  · simp at h

/-- the pre-filter can only drop lines the grammar rejects: a line with the keyword's lead contains it -/
theorem prefilter_complete (kw line t : Bytes) (hkw : IsKw kw) (h : lead kw line = some t) :
    isInfix kw line = true := by
  obtain ⟨w1, w2, _, _, e⟩ := (lead_iff kw line t hkw).1 h
  rw [e]
  have := isInfix_append kw (w1 ++ slashes ++ w2) t
  simpa [List.append_assoc] using this

/-- near-misses are inert: if the text after `//` and blanks does not start with the exact keyword,
    no recogniser for that keyword fires -/
theorem near_miss_inert (kw line : Bytes) (hkw : IsKw kw)
    (h : ¬ ∃ w1 w2 t, AllWs w1 ∧ AllWs w2 ∧ line = w1 ++ slashes ++ w2 ++ kw ++ t) :
    lead kw line = none := by
  cases hl : lead kw line with
  | none => rfl
  | some t =>
    obtain ⟨w1, w2, h1, h2, e⟩ := (lead_iff kw line t hkw).1 hl
    exact absurd ⟨w1, w2, t, h1, h2, e⟩ h

/-! ## Non-vacuity and the documented examples -/
example : recogniseBare kwImmutable (ascii "// @immutable") = true := by decide
example : recogniseBare kwImmutable (ascii "//\t@immutable  any text") = true := by decide
example : recogniseBare kwImmutable (ascii "// @immutablex") = false := by decide
example : recogniseBare kwImmutable (ascii "// @Immutable") = false := by decide
example : recogniseBare kwImmutable (ascii "// see @immutable") = false := by decide
example : recogniseBare kwImmutable (ascii "/* @immutable */") = false := by decide
example : parseConstructor (ascii "// @constructor New, Create") = some [ascii "New", ascii "Create"] := by decide
example : parseConstructor (ascii "// @constructor New ,Create - because") = some [ascii "New", ascii "Create"] := by decide
example : parseConstructor (ascii "// @constructor A, B-") = some [ascii "A"] := by decide
example : parseConstructor (ascii "// @constructor 9x") = none := by decide
example : parseConstructor (ascii "// @constructor") = none := by decide
example : parsePackageOnly (ascii "// @packageonly") = some [] := by decide
example : parsePackageOnly (ascii "// @packageonly a/b, c.d-e") = some [ascii "a/b", ascii "c.d-e"] := by decide
example : parseIgnore (ascii "// @ignore imm01, Ctor reason") = some [ascii "IMM01", ascii "CTOR"] := by decide
example : parseImplements (ascii "// @implements &io.Reader") = some (true, ascii "io", ascii "Reader") := by decide
example : parseImplements (ascii "// @implements Reader text") = some (false, [], ascii "Reader") := by decide
example : parseImplements (ascii "// @implements io.Reader.X") = none := by decide
example : parseImplements (ascii "// @implements") = none := by decide

end GGV.Props.C15

/-! ## list arguments: completeness

`keyword_exact_list` and `list_names_valid` say that what is recognised has the documented shape; the
theorems below are the converse: every line of the documented shape is recognised, with exactly its items in order. -/
namespace GGV.Props.C15
open GGV.Model GGV.Model.Grammar

/-- after the last item the line may end, carry one trailing comma, and then blank-separated free text -/
theorem acceptAfter_iff (t : Bytes) :
    acceptAfter t = true ↔ TailOK t ∨ ∃ w r, AllWs w ∧ t = w ++ 44 :: r ∧ TailOK r := by
  unfold acceptAfter
  rw [Bool.or_eq_true, tailOk_iff]
  constructor
  · rintro (h | h)
    · exact Or.inl h
    · split at h
      · rename_i r e
        obtain ⟨w, hw, hs, _⟩ := dropWs_spec t
        exact Or.inr ⟨w, r, hw, by rw [← e]; exact hs, (tailOk_iff r).1 h⟩
      · simp at h
  · rintro (h | ⟨w, r, hw, rfl, hr⟩)
    · exact Or.inl h
    · right
      rw [dropWs_append_of_ws w _ hw, dropWs_of_nonws_head 44 r (by decide)]
      exact (tailOk_iff r).2 hr

/-- **list completeness**: blanks `//` blanks `@K` blanks `ID₀ (blanks , blanks IDᵢ)*` followed by a text after which the
    list does not continue (`parseSep` fails) and the line may finish (`acceptAfter_iff`) is recognised with exactly
    the items `ID₀ … IDₙ`, in order — for every identifier class in which blanks and commas are not identifier bytes -/
theorem list_complete (kw : Bytes) (hkw : IsKw kw) (k : IdClass) (hk : SepFree k)
    (w1 w2 ws id0 trail : Bytes) (more : List (Bytes × Bytes × Bytes))
    (h1 : AllWs w1) (h2 : AllWs w2) (hws : AllWs ws) (hne : ws ≠ [])
    (hid : ValidId k id0) (hmore : WfItems k more)
    (hacc : acceptAfter trail = true) (hstop : parseSep k trail = none) :
    recogniseList kw k (w1 ++ slashes ++ w2 ++ kw ++ (ws ++ (id0 ++ (sepText more ++ trail))))
      = some (id0 :: more.map (·.2.2)) := by
  have hlead := (lead_iff kw _ (ws ++ (id0 ++ (sepText more ++ trail))) hkw).2 ⟨w1, w2, h1, h2, rfl⟩
  unfold recogniseList
  rw [hlead]
  cases ws with
  | nil => exact absurd rfl hne
  | cons b t =>
    have hb : isWs b = true := hws b (by simp)
    simp only [List.cons_append, hb, Bool.not_true, Bool.false_eq_true, if_false]
    have hd : dropWs (b :: (t ++ (id0 ++ (sepText more ++ trail)))) = id0 ++ (sepText more ++ trail) := by
      have := dropWs_append_of_ws (b :: t) (id0 ++ (sepText more ++ trail)) hws
      rw [List.cons_append] at this
      rw [this, validId_head_nonws k hk id0 _ hid]
    rw [hd]
    have hst : Stops k (sepText more ++ trail) :=
      sepText_append_stops k hk more trail hmore (acceptAfter_stops k hk trail hacc)
    rw [parseId_append k id0 _ hid hst]
    simp only
    rw [longestAccepted_chain k hk trail hacc hstop more id0 _ hmore]
    have := sepText_length more
    simp only [List.length_append]
    omega

theorem constructor_complete (w1 w2 ws id0 trail : Bytes) (more : List (Bytes × Bytes × Bytes))
    (h1 : AllWs w1) (h2 : AllWs w2) (hws : AllWs ws) (hne : ws ≠ [])
    (hid : ValidId goIdent id0) (hmore : WfItems goIdent more)
    (hacc : acceptAfter trail = true) (hstop : parseSep goIdent trail = none) :
    parseConstructor (w1 ++ slashes ++ w2 ++ kwConstructor ++ (ws ++ (id0 ++ (sepText more ++ trail))))
      = some (id0 :: more.map (·.2.2)) := by
  unfold parseConstructor
  rw [list_complete kwConstructor kw_constructor goIdent sepFree_goIdent w1 w2 ws id0 trail more h1 h2 hws hne hid hmore hacc hstop]

theorem packageonly_complete (w1 w2 ws id0 trail : Bytes) (more : List (Bytes × Bytes × Bytes))
    (h1 : AllWs w1) (h2 : AllWs w2) (hws : AllWs ws) (hne : ws ≠ [])
    (hid : ValidId pkgPath id0) (hmore : WfItems pkgPath more)
    (hacc : acceptAfter trail = true) (hstop : parseSep pkgPath trail = none) :
    parsePackageOnly (w1 ++ slashes ++ w2 ++ kwPackageonly ++ (ws ++ (id0 ++ (sepText more ++ trail))))
      = some (id0 :: more.map (·.2.2)) :=
  list_complete kwPackageonly kw_packageonly pkgPath sepFree_pkgPath w1 w2 ws id0 trail more h1 h2 hws hne hid hmore hacc hstop

theorem ignore_complete (w1 w2 ws id0 trail : Bytes) (more : List (Bytes × Bytes × Bytes))
    (h1 : AllWs w1) (h2 : AllWs w2) (hws : AllWs ws) (hne : ws ≠ [])
    (hid : ValidId codeTok id0) (hmore : WfItems codeTok more)
    (hacc : acceptAfter trail = true) (hstop : parseSep codeTok trail = none) :
    parseIgnore (w1 ++ slashes ++ w2 ++ kwIgnore ++ (ws ++ (id0 ++ (sepText more ++ trail))))
      = some ((id0 :: more.map (·.2.2)).map (·.map upperAscii)) := by
  unfold parseIgnore
  rw [list_complete kwIgnore kw_ignore codeTok sepFree_codeTok w1 w2 ws id0 trail more h1 h2 hws hne hid hmore hacc hstop]

/-- **list soundness**: whenever a list annotation is recognised with at least one item, the line *is*
    blanks `//` blanks `@K` blanks `ID₀ (blanks , blanks IDᵢ)*` followed by a text after which the line may finish,
    and the items returned are exactly `ID₀ … IDₙ` in order. Together with `list_complete` this makes the recogniser
    the documented grammar for list arguments (the only freedom is where a backtracking match ends the list:
    at the last item after which the line can finish). -/
theorem list_sound (kw : Bytes) (hkw : IsKw kw) (k : IdClass) (line : Bytes) (n : Bytes) (ns : List Bytes)
    (h : recogniseList kw k line = some (n :: ns)) :
    ∃ w1 w2 ws id0 more trail, AllWs w1 ∧ AllWs w2 ∧ AllWs ws ∧ ws ≠ [] ∧ ValidId k id0 ∧ WfItems k more ∧
      acceptAfter trail = true ∧
      line = w1 ++ slashes ++ w2 ++ kw ++ (ws ++ (id0 ++ (sepText more ++ trail))) ∧
      n :: ns = id0 :: more.map (·.2.2) := by
  unfold recogniseList at h
  split at h
  · simp at h
  · simp at h
  · rename_i b t hl
    obtain ⟨w1, w2, h1, h2, e⟩ := (lead_iff kw line (b :: t) hkw).1 hl
    by_cases hb : isWs b = true
    · simp only [hb, Bool.not_true, Bool.false_eq_true, if_false] at h
      obtain ⟨ws, hws, hsplit, hhead⟩ := dropWs_spec (b :: t)
      have hwsne : ws ≠ [] := by
        intro hnil
        rw [hnil, List.nil_append] at hsplit
        have := hhead b t hsplit.symm
        rw [hb] at this; exact absurd this (by simp)
      split at h
      · -- no identifier after the blanks: only the bare form can match
        split at h <;> simp at h
      · rename_i id0 r0 hid
        obtain ⟨eid, hv⟩ := parseId_some k _ id0 r0 hid
        split at h
        · rename_i names hnames
          simp only [Option.some.injEq] at h
          obtain ⟨more, trail, hw, hacc, hr, hn⟩ := chain_longest k _ id0 r0 names hnames
          refine ⟨w1, w2, ws, id0, more, trail, h1, h2, hws, hwsne, hv, hw, hacc, ?_, ?_⟩
          · rw [e, hsplit, eid, hr]
          · rw [← h, hn]
        · split at h <;> simp at h
    · simp [hb] at h

theorem constructor_sound (line : Bytes) (names : List Bytes) (h : parseConstructor line = some names) :
    ∃ w1 w2 ws id0 more trail, AllWs w1 ∧ AllWs w2 ∧ AllWs ws ∧ ws ≠ [] ∧ ValidId goIdent id0 ∧ WfItems goIdent more ∧
      acceptAfter trail = true ∧
      line = w1 ++ slashes ++ w2 ++ kwConstructor ++ (ws ++ (id0 ++ (sepText more ++ trail))) ∧
      names = id0 :: more.map (·.2.2) := by
  unfold parseConstructor at h
  split at h
  · rename_i n ns hr
    simp only [Option.some.injEq] at h
    rw [← h]
    exact list_sound kwConstructor kw_constructor goIdent line n ns hr
  · simp at h

/-- non-vacuity: these lines have the documented shape and yield the three names … -/
example : parseConstructor (ascii "// @constructor New, Make ,Build and more") = some [ascii "New", ascii "Make", ascii "Build"] := by
  decide
example : parseConstructor (ascii "// @constructor New, Make ,Build, - see docs") = some [ascii "New", ascii "Make", ascii "Build"] := by
  decide
/-- … whereas here the list continues (`parseSep` succeeds on `, see docs`): the regex takes `see` as a fourth name -/
example : parseConstructor (ascii "// @constructor New, Make ,Build, see docs")
    = some [ascii "New", ascii "Make", ascii "Build", ascii "see"] := by
  decide

end GGV.Props.C15

/-! ## attachment: which doc comment speaks for which type spec

`type ( … )` groups: a spec with a doc comment of its own is described by that comment alone; only a spec without one
falls back to the group's comment; and what one spec contributes does not depend on its siblings in the group. -/
namespace GGV.Props.C15
open GGV.Model GGV.Model.Prog

/-- a spec's own doc comment wins: the group's comment is not consulted -/
theorem spec_doc_wins (genDoc genDoc' : Doc) (ts : TypeSpecInfo) (l : List Bytes) (h : ts.doc = some l) :
    specDoc genDoc ts = some l ∧ specDoc genDoc' ts = some l := by
  unfold specDoc; simp [h]

/-- a spec without a doc comment is described by the group's comment -/
theorem group_doc_fallback (genDoc : Doc) (ts : TypeSpecInfo) (h : ts.doc = none) : specDoc genDoc ts = genDoc := by
  unfold specDoc; simp [h]

/-- the contribution of one spec under a group comment -/
def annOfSpec (pkgPath : Name) (genDoc : Doc) (ts : TypeSpecInfo) : Annotations :=
  match specDoc genDoc ts with
  | none => {}
  | some lines => concatAnn (lines.map (annOfTypeLine pkgPath ts))

/-- **specs are independent**: the annotations of a `type` declaration are the concatenation of what each spec
    contributes on its own — nothing carries over from one spec to the next -/
theorem type_decl_by_spec (pkgPath : Name) (d : Decl) (genDoc : Doc) (specs : List TypeSpecInfo)
    (h : d.info = .gen (ascii "type") genDoc specs) :
    annOfDeclTypes pkgPath d = concatAnn (specs.map (annOfSpec pkgPath genDoc)) := by
  unfold annOfDeclTypes
  rw [h]
  simp only [bne_self_eq_false, Bool.false_eq_true, if_false]
  rfl

/-- a documented spec contributes the same whatever the group's comment says and whatever its siblings are -/
theorem documented_spec_local (pkgPath : Name) (genDoc genDoc' : Doc) (ts : TypeSpecInfo) (l : List Bytes)
    (h : ts.doc = some l) : annOfSpec pkgPath genDoc ts = annOfSpec pkgPath genDoc' ts := by
  unfold annOfSpec
  rw [(spec_doc_wins genDoc genDoc' ts l h).1, (spec_doc_wins genDoc genDoc' ts l h).2]

/-- a group whose comment carries no keyword line and a spec without a comment: nothing is contributed -/
theorem undocumented_spec_inert (pkgPath : Name) (ts : TypeSpecInfo) (h : ts.doc = none) :
    annOfSpec pkgPath none ts = {} := by
  unfold annOfSpec
  rw [group_doc_fallback none ts h]

/-- splitting a group in two declarations with the same group comment changes nothing (append of spec lists) -/
theorem type_decl_split (pkgPath : Name) (genDoc : Doc) (s1 s2 : List TypeSpecInfo) :
    concatAnn ((s1 ++ s2).map (annOfSpec pkgPath genDoc)) =
      concatAnn (s1.map (annOfSpec pkgPath genDoc)) ++ concatAnn (s2.map (annOfSpec pkgPath genDoc)) := by
  induction s1 with
  | nil => simp only [List.nil_append, List.map_nil, concatAnn_nil]; exact (ann_empty_append _).symm
  | cons a r ih =>
    simp only [List.cons_append, List.map_cons]
    rw [concatAnn_cons, concatAnn_cons, ih, ann_append_assoc]

/-- non-vacuity: a group `// @immutable type ( A struct{}; // plain\n B struct{} )`: A falls back to the group comment, B does not -/
def exA : TypeSpecInfo := { name := ascii "A", pos := 1, doc := none, isStruct := true, fields := [] }
def exB : TypeSpecInfo := { name := ascii "B", pos := 2, doc := some [ascii "// plain"], isStruct := true, fields := [] }
def exG : Doc := some [ascii "// @immutable"]
example : (annOfSpec (ascii "p") exG exA).immutable = [ascii "A"] ∧ (annOfSpec (ascii "p") exG exB).immutable = [] := by
  decide

end GGV.Props.C15
