import GGV.Model.Checkers
import GGV.Lemmas.Respell
/-!
# C13 — Enforcement follows type identity, not spelling at the use site

The model keeps go/types' structure (alias / pointer / named). `Ty.norm` removes every alias (what
`types.Identical` ignores); two spellings of a use site's type are identical iff their normal forms agree.
Every classification function of the four checkers is proven invariant under `norm`, hence every per-node
verdict is the same for identical types: local alias, alias declared in a third package, alias of a pointer,
pointer to an alias. Parentheses: the LHS classifiers are invariant under `paren`. A renamed import changes
nothing the model reads (identifiers are resolved to objects by the type checker).
-/
namespace GGV.Props.C13
open GGV.Model GGV.Model.Prog

/-- alias-free normal form -/
def norm : Ty → Ty
  | .alias _ _ r => norm r
  | .ptr e => .ptr (norm e)
  | t => t

/-- two type expressions denote identical types (as far as aliases are concerned) -/
def Identical (a b : Ty) : Prop := norm a = norm b

theorem unalias_norm (t : Ty) : norm t.unalias = norm t := by
  induction t with
  | alias p n r ih => simpa [Ty.unalias, norm] using ih
  | _ => rfl

theorem unalias_not_alias (t : Ty) : ∀ p n r, t.unalias ≠ .alias p n r := by
  induction t with
  | alias p n r ih => intro p' n' r'; simpa [Ty.unalias] using ih p' n' r'
  | _ => intro p n r h; simp [Ty.unalias] at h

theorem norm_unalias (t : Ty) : (norm t).unalias = norm t := by
  induction t with
  | alias p n r ih => simpa [norm] using ih
  | _ => rfl

/-- what `unalias` yields, in terms of the normal form -/
theorem unalias_cases (t : Ty) :
    (∃ p n, t.unalias = .named p n ∧ norm t = .named p n) ∨
    (∃ e, t.unalias = .ptr e ∧ norm t = .ptr (norm e)) ∨
    (t.unalias = .other ∧ norm t = .other) := by
  induction t with
  | alias p n r ih => simpa [Ty.unalias, norm] using ih
  | named p n => exact Or.inl ⟨p, n, rfl, rfl⟩
  | ptr e _ => exact Or.inr (Or.inl ⟨e, rfl, rfl⟩)
  | other => exact Or.inr (Or.inr ⟨rfl, rfl⟩)

/-- **`typeInfo` (immutable LHS, constructor literal / new, testonly uses, receivers) sees only the normal form** -/
theorem typeInfo_norm (t : Ty) : typeInfo (some t) = typeInfo (some (norm t)) := by
  unfold typeInfo
  simp only
  rw [norm_unalias]
  rcases unalias_cases t with ⟨p, n, h1, h2⟩ | ⟨e, h1, h2⟩ | ⟨h1, h2⟩
  · rw [h1, h2]
  · rw [h1, h2]
    simp only
    rw [norm_unalias]
    rcases unalias_cases e with ⟨p, n, h3, h4⟩ | ⟨e', h3, h4⟩ | ⟨h3, h4⟩
    · rw [h3, h4]
    · rw [h3, h4]
    · rw [h3, h4]
  · rw [h1, h2]

theorem varTypeInfo_norm (t : Ty) : varTypeInfo (some t) = varTypeInfo (some (norm t)) := by
  unfold varTypeInfo
  simp only
  rw [norm_unalias]
  rcases unalias_cases t with ⟨p, n, h1, h2⟩ | ⟨e, h1, h2⟩ | ⟨h1, h2⟩ <;> rw [h1, h2]

theorem typeName_norm (t : Ty) : typeName t = typeName (norm t) := by
  unfold typeName
  rw [norm_unalias]
  rcases unalias_cases t with ⟨p, n, h1, h2⟩ | ⟨e, h1, h2⟩ | ⟨h1, h2⟩
  · rw [h1, h2]
  · rw [h1, h2]
    simp only
    rw [norm_unalias]
    rcases unalias_cases e with ⟨p, n, h3, h4⟩ | ⟨e', h3, h4⟩ | ⟨h3, h4⟩ <;> rw [h3, h4]
  · rw [h1, h2]

/-- **classification respects identity** -/
theorem classify_respects_identity (a b : Ty) (h : Identical a b) :
    typeInfo (some a) = typeInfo (some b) ∧ varTypeInfo (some a) = varTypeInfo (some b) ∧ typeName a = typeName b := by
  unfold Identical at h
  refine ⟨?_, ?_, ?_⟩
  · rw [typeInfo_norm a, typeInfo_norm b, h]
  · rw [varTypeInfo_norm a, varTypeInfo_norm b, h]
  · rw [typeName_norm a, typeName_norm b, h]

/-- **respelling a use site into an identical type changes no verdict** — per node, for each checker -/
theorem respell_invariant (c : WalkCtx) (fn : Name) (recv : Option RecvCtx) (ig : ISet) (a b : Ty) (h : Identical a b)
    (pos stop sl el : Int) (size : Nat) (f : Name) (s : TonlState) (ps : PkgoState) (m : Name) (pk : Option Name) :
    -- constructor: literal, new(T), var x T
    ctorNode c fn ⟨.compLit (some a), pos, stop, sl, el, size⟩ = ctorNode c fn ⟨.compLit (some b), pos, stop, sl, el, size⟩ ∧
    ctorNode c fn ⟨.call (.ident (ascii "new") .none) 1 (some a), pos, stop, sl, el, size⟩ =
      ctorNode c fn ⟨.call (.ident (ascii "new") .none) 1 (some b), pos, stop, sl, el, size⟩ ∧
    ctorVarSpec c fn ⟨false, [⟨f, pos, some a⟩]⟩ = ctorVarSpec c fn ⟨false, [⟨f, pos, some b⟩]⟩ ∧
    -- immutable: x.f = v with x of type a / b
    immAssignLhs c fn recv (.sel (some a) f pos) = immAssignLhs c fn recv (.sel (some b) f pos) ∧
    -- testonly: literal / typed var / field or parameter, method call on a value of the type
    tonlNode c ig s ⟨.compLit (some a), pos, stop, sl, el, size⟩ = tonlNode c ig s ⟨.compLit (some b), pos, stop, sl, el, size⟩ ∧
    tonlNode c ig s ⟨.field (some a), pos, stop, sl, el, size⟩ = tonlNode c ig s ⟨.field (some b), pos, stop, sl, el, size⟩ ∧
    tonlCall c (.sel none m (some a)) = tonlCall c (.sel none m (some b)) ∧
    -- packageonly: method of a type reached through a / b
    pkgoNode c ig ps ⟨.selector (.method pk m a), pos, stop, sl, el, size⟩ =
      pkgoNode c ig ps ⟨.selector (.method pk m b), pos, stop, sl, el, size⟩ := by
  obtain ⟨h1, h2, h3⟩ := classify_respects_identity a b h
  refine ⟨?_, ?_, ?_, ?_, ?_, ?_, ?_, ?_⟩
  · simp [ctorNode, h1]
  · simp [ctorNode, h1]
  · simp [ctorVarSpec, h2]
  · have hh : immFieldHit c fn (some a) f = immFieldHit c fn (some b) f := by simp only [immFieldHit, h1]
    simp only [immAssignLhs, Lhs.unparen, hh]
  · simp [tonlNode, tonlTypeUse, h1]
  · simp [tonlNode, tonlTypeUse, h1]
  · simp [tonlCall, h1]
  · cases pk <;> simp [pkgoNode, h3]

/-- added / removed parentheses around a left-hand side do not matter -/
theorem paren_invariant (c : WalkCtx) (fn : Name) (recv : Option RecvCtx) (l : Lhs) (pos : Int) :
    immAssignLhs c fn recv (.paren l) = immAssignLhs c fn recv l ∧
    immCompoundLhs c fn (.paren l) = immCompoundLhs c fn l ∧
    immIncDec c fn recv pos (.paren l) = immIncDec c fn recv pos l := by
  refine ⟨?_, ?_, ?_⟩ <;> simp [immAssignLhs, immCompoundLhs, immIncDec, Lhs.unparen]

/-! ## Non-vacuity: the spellings the property lists are identical to the direct one -/
def T : Ty := .named (some (ascii "exp/a")) (ascii "T")
example : Identical (.alias (some (ascii "exp/b")) (ascii "A") T) T := rfl                       -- alias (local or third package)
example : Identical (.ptr (.alias (some (ascii "exp/b")) (ascii "A") T)) (.ptr T) := rfl          -- pointer to an alias
example : Identical (.alias none (ascii "PX") (.ptr T)) (.ptr T) := rfl                          -- alias of a pointer
example : typeInfo (some (.alias none (ascii "PX") (.ptr (.alias none (ascii "A") T)))) = some (ascii "exp/a", ascii "T") := by decide


/-! ## the whole analysis -/

theorem norm_eq (t : Ty) : t.norm = norm t := by
  induction t with
  | alias p n r ih => simpa [Ty.norm, norm] using ih
  | ptr e ih => simp [Ty.norm, norm, ih]
  | _ => rfl

/-- **re-spelling invariance of the whole analysis**: replace, at every use site of a package (operands of field
    writes, literals, `new`, declared variables, fields and parameters, method receivers), the type by an identical
    one — through a local alias, an alias of a third package, an alias of a pointer, a pointer to an alias. The
    annotations read and the diagnostics (codes, statements, order) are unchanged. -/
theorem respell_program_invariant (σ : Ty → Ty) (hσ : ∀ t, Identical (σ t) t)
    (cfg : Cfg) (facts : List (Name × Annotations)) (p : Pkg) :
    (analyze cfg facts (p.mapTy σ)).ann = (analyze cfg facts p).ann ∧
    (analyze cfg facts (p.mapTy σ)).diags = (analyze cfg facts p).diags :=
  analyze_mapTy σ (fun t => by rw [norm_eq, norm_eq]; exact hσ t) cfg facts p

/-- non-vacuity: wrapping every type in a fresh alias is a re-spelling -/
example : ∀ t, Identical ((fun t => Ty.alias (some (ascii "exp/u")) (ascii "A") t) t) t := fun _ => rfl

end GGV.Props.C13
