import GGV.Lemmas.Walk
/-!
# C02 — @constructor is enforced exactly

`CtorReported` is the positional specification: a diagnostic exists exactly for every instantiation site
(composite literal, `new(T)`, value-less `var` name) in a non-excluded file whose defined type (aliases always,
pointer once) has a non-empty constructor list, unless the enclosing TOP-LEVEL declaration is a function of the
type's own package named in that list. `constructor_exact` proves the stateful walk equal to it for every
program (any nesting, declaration order, file, package-level initialisers).
-/
namespace GGV.Props.C02
open GGV.Model GGV.Model.Prog

/-- an instantiation site: the type it instantiates (if it is a defined type with a package), where and what is reported -/
structure Site where
  ti : Option (Name × Name)
  pos : Int
  code : String

/-- the instantiation sites a node offers, syntactically -/
def sites (n : Node) : List Site :=
  match n.kind with
  | .compLit ty => [⟨typeInfo ty, n.pos, "CTOR01"⟩]
  | .call (.ident name _) nargs arg0 =>
    if name == ascii "new" && nargs == 1 then [⟨typeInfo arg0, n.pos, "CTOR02"⟩] else []
  | .genVar specs =>
    specs.flatMap fun s =>
      if s.hasValues then [] else
      s.names.flatMap fun v => if v.name == ascii "_" then [] else [⟨varTypeInfo v.ty, v.pos, "CTOR03"⟩]
  | _ => []

/-- the specification -/
def CtorReported (cfg : Cfg) (c : WalkCtx) (p : Pkg) (dg : Diag) : Prop :=
  ∃ f ∈ p.files, shouldSkip cfg f.name = false ∧ ∃ d ∈ f.decls, ∃ n ∈ d.nodes, ∃ s ∈ sites n, ∃ pkg ty,
    s.ti = some (pkg, ty) ∧ c.env.ctorNames pkg ty ≠ [] ∧
    ¬ (c.curPkg = pkg ∧ d.enclosingFn ∈ c.env.ctorNames pkg ty) ∧ dg = ⟨s.pos, s.code⟩

theorem ctorVarSpec_eq (c : WalkCtx) (cur : Name) (s : VarSpec) :
    ctorVarSpec c cur s =
      (if s.hasValues then [] else
        s.names.flatMap fun v => if v.name == ascii "_" then [] else [(⟨varTypeInfo v.ty, v.pos, "CTOR03"⟩ : Site)]).filterMap
        fun s => if ctorHit c cur s.ti then some ⟨s.pos, s.code⟩ else none := by
  unfold ctorVarSpec
  by_cases hv : s.hasValues = true
  · simp [hv]
  · simp only [hv, Bool.false_eq_true, if_false, List.filterMap_flatMap]
    congr 1; funext v
    by_cases hb : (v.name == ascii "_") = true
    · simp [hb]
    · simp only [hb, Bool.false_eq_true, if_false, List.filterMap_cons, List.filterMap_nil]
      by_cases hh : ctorHit c cur (varTypeInfo v.ty) = true <;> simp [hh]

theorem ctorNode_eq_sites (c : WalkCtx) (cur : Name) (n : Node) :
    ctorNode c cur n = (sites n).filterMap fun s => if ctorHit c cur s.ti then some ⟨s.pos, s.code⟩ else none := by
  unfold ctorNode sites
  cases hk : n.kind with
  | compLit ty =>
    simp only [List.filterMap_cons, List.filterMap_nil]
    by_cases hh : ctorHit c cur (typeInfo ty) = true <;> simp [hh]
  | call callee nargs arg0 =>
    cases callee with
    | ident name o =>
      simp only
      by_cases h1 : (name == ascii "new" && nargs == 1) = true
      · simp only [h1, if_true, List.filterMap_cons, List.filterMap_nil, Bool.true_and]
        by_cases hh : ctorHit c cur (typeInfo arg0) = true <;> simp [hh]
      · have h2 : (name == ascii "new" && nargs == 1 && ctorHit c cur (typeInfo arg0)) = false := by
          simp only [Bool.not_eq_true] at h1; simp [h1]
        simp [h1, h2]
    | sel a b d => simp
    | other => simp
  | genVar specs =>
    simp only [List.filterMap_flatMap]
    congr 1; funext s
    exact ctorVarSpec_eq c cur s
  | _ => simp

theorem ctorHit_iff (c : WalkCtx) (cur : Name) (ti : Option (Name × Name)) :
    ctorHit c cur ti = true ↔ ∃ pkg ty, ti = some (pkg, ty) ∧ c.env.ctorNames pkg ty ≠ [] ∧
      ¬ (c.curPkg = pkg ∧ cur ∈ c.env.ctorNames pkg ty) := by
  unfold ctorHit WalkCtx.inConstructor
  cases ti with
  | none => simp
  | some pt =>
    obtain ⟨pkg, ty⟩ := pt
    simp only [Bool.and_eq_true, Bool.not_eq_true', Option.some.injEq, Prod.mk.injEq]
    constructor
    · rintro ⟨h1, h2⟩
      refine ⟨pkg, ty, ⟨rfl, rfl⟩, ?_, ?_⟩
      · intro e; simp [e] at h1
      · rintro ⟨e1, e2⟩
        simp [e1, e2] at h2
    · rintro ⟨pkg', ty', ⟨rfl, rfl⟩, h1, h2⟩
      refine ⟨?_, ?_⟩
      · cases hc : c.env.ctorNames pkg ty with
        | nil => exact absurd hc h1
        | cons a b => rfl
      · cases hb : (c.curPkg == pkg && (c.env.ctorNames pkg ty).contains cur) with
        | false => rfl
        | true =>
          simp only [Bool.and_eq_true, beq_iff_eq, List.contains_iff_mem] at hb
          exact absurd hb h2

/-- **C02 main theorem**: the checker reports exactly the specified sites -/
theorem constructor_exact (cfg : Cfg) (c : WalkCtx) (p : Pkg) (hs : PkgShape p) (dg : Diag) :
    dg ∈ checkConstructor cfg c p ↔ CtorReported cfg c p dg := by
  unfold checkConstructor CtorReported
  by_cases hno : c.env.noConstructors = true
  · simp only [hno, if_true, List.not_mem_nil, false_iff]
    rintro ⟨f, _, _, d, _, n, _, s, _, pkg, ty, _, hne, _⟩
    exact hne (ctorNames_of_noConstructors c.env hno pkg ty)
  · simp only [hno, Bool.false_eq_true, if_false, List.mem_flatMap]
    constructor
    · rintro ⟨f, hf, d, hd, hmem⟩
      obtain ⟨hf1, hf2⟩ := mem_filesToScan.1 hf
      rw [ctorDecl_eq c d (hs f hf1 d hd)] at hmem
      simp only [List.mem_flatMap] at hmem
      obtain ⟨n, hn, hv⟩ := hmem
      rw [ctorNode_eq_sites] at hv
      simp only [List.mem_filterMap] at hv
      obtain ⟨s, hsm, hsv⟩ := hv
      by_cases hh : ctorHit c d.enclosingFn s.ti = true
      · simp only [hh, if_true, Option.some.injEq] at hsv
        obtain ⟨pkg, ty, h1, h2, h3⟩ := (ctorHit_iff c _ _).1 hh
        exact ⟨f, hf1, hf2, d, hd, n, hn, s, hsm, pkg, ty, h1, h2, h3, hsv.symm⟩
      · simp [hh] at hsv
    · rintro ⟨f, hf1, hf2, d, hd, n, hn, s, hsm, pkg, ty, h1, h2, h3, rfl⟩
      refine ⟨f, mem_filesToScan.2 ⟨hf1, hf2⟩, d, hd, ?_⟩
      rw [ctorDecl_eq c d (hs f hf1 d hd)]
      simp only [List.mem_flatMap]
      refine ⟨n, hn, ?_⟩
      rw [ctorNode_eq_sites]
      simp only [List.mem_filterMap]
      refine ⟨s, hsm, ?_⟩
      have : ctorHit c d.enclosingFn s.ti = true := (ctorHit_iff c _ _).2 ⟨pkg, ty, h1, h2, h3⟩
      simp [this]

/-- silent cases: a pointer-typed variable, the blank identifier, a `var` with initialiser offer no site -/
theorem constructor_silent_var (nm : VarName) (e : Ty) :
    varTypeInfo (some (.ptr e)) = none ∧
    sites ⟨.genVar [⟨false, [{ nm with name := ascii "_" }]⟩], 0, 0, 0, 0, 0⟩ = [] ∧
    sites ⟨.genVar [⟨true, [nm]⟩], 0, 0, 0, 0, 0⟩ = [] := by
  refine ⟨rfl, ?_, ?_⟩ <;> simp [sites]

/-- silent cases: a type without constructor annotation is never reported -/
theorem constructor_silent_unannotated (cfg : Cfg) (c : WalkCtx) (p : Pkg) (hs : PkgShape p) (dg : Diag)
    (h : dg ∈ checkConstructor cfg c p) :
    ∃ pkg ty, c.env.ctorNames pkg ty ≠ [] := by
  obtain ⟨_, _, _, _, _, _, _, _, _, pkg, ty, _, h2, _⟩ := (constructor_exact cfg c p hs dg).1 h
  exact ⟨pkg, ty, h2⟩

/-- silent cases: inside a listed constructor of the type's own package nothing is reported for that type -/
theorem constructor_silent_inside (c : WalkCtx) (cur pkg ty : Name)
    (h1 : c.curPkg = pkg) (h2 : cur ∈ c.env.ctorNames pkg ty) : ctorHit c cur (some (pkg, ty)) = false := by
  cases hb : ctorHit c cur (some (pkg, ty)) with
  | false => rfl
  | true =>
    obtain ⟨pkg', ty', e, _, h3⟩ := (ctorHit_iff c cur _).1 hb
    simp only [Option.some.injEq, Prod.mk.injEq] at e
    obtain ⟨rfl, rfl⟩ := e
    exact absurd ⟨h1, h2⟩ h3

/-- a function of ANOTHER package that merely shares a constructor's name is not exempt -/
theorem constructor_foreign_name_not_exempt (c : WalkCtx) (cur pkg ty : Name)
    (h1 : c.curPkg ≠ pkg) (h2 : c.env.ctorNames pkg ty ≠ []) : ctorHit c cur (some (pkg, ty)) = true :=
  (ctorHit_iff c cur _).2 ⟨pkg, ty, rfl, h2, fun h => h1 h.1⟩

/-- every constructor-list spelling the grammar accepts yields the same name list for the index -/
theorem ctor_names_from_grammar (pkgPath : Name) (ts : TypeSpecInfo) (text : Bytes) (names : List Name)
    (h : Grammar.parseConstructor text = some names) (hp : Grammar.prefilterAnnotations text = true) :
    (annOfTypeLine pkgPath ts text).constructors = [(ts.name, names)] := by
  simp [annOfTypeLine, hp, h]

/-! ## Non-vacuity: a concrete program with a violation outside and an instantiation inside the constructor -/
def exEnv : Env := [(ascii "exp/a", { constructors := [(ascii "T", [ascii "NewT"])] })]
def exCtx : WalkCtx := ⟨exEnv, ascii "exp/a", ascii "a"⟩
def exTy : Option Ty := some (.ptr (.alias (some (ascii "exp/a")) (ascii "A") (.named (some (ascii "exp/a")) (ascii "T"))))
def exDeclCtor : Decl := ⟨.func (ascii "NewT") none none, 10, 50, 3, [⟨.funcDecl (ascii "NewT"), 10, 50, 1, 3, 1⟩, ⟨.compLit exTy, 30, 40, 2, 2, 0⟩]⟩
def exDeclVar : Decl := ⟨.gen (ascii "var") none [], 60, 90, 5, [⟨.genVar [⟨true, [⟨ascii "G", 64, none⟩]⟩], 60, 90, 5, 5, 1⟩, ⟨.compLit exTy, 70, 80, 5, 5, 0⟩]⟩
example : ctorDecl exCtx exDeclCtor = [] := by decide
example : ctorDecl exCtx exDeclVar = [⟨70, "CTOR01"⟩] := by decide

/-! ## grouped `var ( … )` declarations: every spec is judged on its own -/

/-- an initialised spec offers no CTOR03 site, wherever it stands in the group -/
theorem initialised_spec_silent (c : WalkCtx) (cur : Name) (s : VarSpec) (h : s.hasValues = true) :
    ctorVarSpec c cur s = [] := by
  unfold ctorVarSpec; simp [h]

/-- the diagnostics of a group are the concatenation of the diagnostics of its specs: a spec neither hides nor
    changes what the specs after it contribute -/
theorem var_group_by_spec (c : WalkCtx) (cur : Name) (s1 s2 : List VarSpec) (pos stop sl el : Int) (sz : Nat) :
    ctorNode c cur ⟨.genVar (s1 ++ s2), pos, stop, sl, el, sz⟩ =
      ctorNode c cur ⟨.genVar s1, pos, stop, sl, el, sz⟩ ++ ctorNode c cur ⟨.genVar s2, pos, stop, sl, el, sz⟩ := by
  simp only [ctorNode, List.flatMap_append]

/-- in particular an initialised spec in front of a zero-valued one changes nothing -/
theorem var_group_skip_initialised (c : WalkCtx) (cur : Name) (s : VarSpec) (rest : List VarSpec) (h : s.hasValues = true)
    (pos stop sl el : Int) (sz : Nat) :
    ctorNode c cur ⟨.genVar (s :: rest), pos, stop, sl, el, sz⟩ = ctorNode c cur ⟨.genVar rest, pos, stop, sl, el, sz⟩ := by
  simp only [ctorNode, List.flatMap_cons, initialised_spec_silent c cur s h, List.nil_append]

example : ctorNode exCtx [] ⟨.genVar [⟨true, [⟨ascii "i", 61, none⟩]⟩, ⟨false, [⟨ascii "z", 66, some (.named (some (ascii "exp/a")) (ascii "T"))⟩]⟩], 60, 90, 5, 5, 0⟩
    = [⟨66, "CTOR03"⟩] := by decide

end GGV.Props.C02
