import GGV.Lemmas.Walk
import GGV.Lemmas.Dedup
/-!
# C03 — @testonly is enforced exactly

The walk of `CheckTestOnly` (pruning of @testonly declarations, suppression test before the once-per-file
deduplication) is proven equal to a declarative description: per non-test file, over the uses in source
(preorder) order outside @testonly declarations, every unsuppressed call of a @testonly function / method is
reported, and for each @testonly type exactly its first unsuppressed use.
-/
namespace GGV.Props.C03
open GGV.Model GGV.Model.Prog

abbrev Key := Name × Name

/-- what a node contributes when visited -/
def tonlEv (c : WalkCtx) (n : Node) : Option (Ev Key) :=
  match n.kind with
  | .call callee _ _ => (tonlCall c callee).map fun code => .plain ⟨n.pos, code⟩
  | .compLit ty => (tonlTypeUse c ty).map fun k => .keyed k ⟨n.pos, "TONL01"⟩
  | .valueSpec ty => (tonlTypeUse c ty).map fun k => .keyed k ⟨n.pos, "TONL01"⟩
  | .field ty => (tonlTypeUse c ty).map fun k => .keyed k ⟨n.pos, "TONL01"⟩
  | _ => none

/-- the uses of a declaration: none if the declaration itself is @testonly -/
def declEvs (c : WalkCtx) (d : Decl) : List (Ev Key) :=
  if inTestOnlyContext c d then [] else d.nodes.filterMap (tonlEv c)

def fileEvs (c : WalkCtx) (f : File) : List (Ev Key) := f.decls.flatMap (declEvs c)

def sup (ig : ISet) (d : Diag) : Bool := ig.contains d.code d.pos

def toD (s : TonlState) : DState Key := ⟨s.reported, s.out⟩

theorem typeUse_step (ig : ISet) (s : TonlState) (key : Key) (pos : Int) :
    toD (if ig.contains "TONL01" pos then s
         else if s.reported.contains key then s
         else { reported := s.reported ++ [key], out := s.out ++ [⟨pos, "TONL01"⟩] }) =
      applyEv (sup ig) (toD s) (.keyed key ⟨pos, "TONL01"⟩) := by
  unfold applyEv sup toD
  by_cases hi : ig.contains "TONL01" pos = true
  · simp [hi]
  · by_cases hr : key ∈ s.reported
    · simp [hi, hr]
    · simp [hi, hr]

theorem tonlNode_eq (c : WalkCtx) (ig : ISet) (s : TonlState) (n : Node) :
    toD (tonlNode c ig s n) = match tonlEv c n with
      | some ev => applyEv (sup ig) (toD s) ev
      | none => toD s := by
  unfold tonlNode tonlEv
  cases hk : n.kind with
  | call callee a b =>
    simp only
    cases hc : tonlCall c callee with
    | none => simp
    | some code =>
      simp only [Option.map_some, applyEv, sup]
      by_cases hi : ig.contains code n.pos = true
      · simp [hi, toD]
      · simp [hi, toD]
  | compLit ty =>
    simp only
    cases hc : tonlTypeUse c ty with
    | none => simp
    | some key => simp only [Option.map_some]; exact typeUse_step ig s key n.pos
  | valueSpec ty =>
    simp only
    cases hc : tonlTypeUse c ty with
    | none => simp
    | some key => simp only [Option.map_some]; exact typeUse_step ig s key n.pos
  | field ty =>
    simp only
    cases hc : tonlTypeUse c ty with
    | none => simp
    | some key => simp only [Option.map_some]; exact typeUse_step ig s key n.pos
  | _ => simp

theorem foldl_tonlNode (c : WalkCtx) (ig : ISet) (ns : List Node) (s : TonlState) :
    toD (ns.foldl (tonlNode c ig) s) = runEvs (sup ig) (toD s) (ns.filterMap (tonlEv c)) := by
  induction ns generalizing s with
  | nil => rfl
  | cons n r ih =>
    simp only [List.foldl_cons, List.filterMap_cons]
    rw [ih]
    have := tonlNode_eq c ig s n
    cases he : tonlEv c n with
    | none => rw [he] at this; simp [this]
    | some ev => rw [he] at this; simp [this, runEvs]

theorem tonlWalk_skipAll (c : WalkCtx) (ig : ISet) (prune : Bool) (s : TonlState) (ns : List Node) (k : Nat)
    (h : ns.length ≤ k) : tonlWalk c ig prune s k ns = s := by
  induction ns generalizing k with
  | nil => simp [tonlWalk]
  | cons n r ih =>
    cases k with
    | zero => simp at h
    | succ k' => simp only [tonlWalk]; exact ih k' (by simpa using h)

theorem tonlWalk_noFunc (c : WalkCtx) (ig : ISet) (prune : Bool) (s : TonlState) (ns : List Node)
    (h : ∀ n ∈ ns, n.isFuncDecl = false) : tonlWalk c ig prune s 0 ns = ns.foldl (tonlNode c ig) s := by
  induction ns generalizing s with
  | nil => rfl
  | cons n r ih =>
    have hn := h n (by simp)
    unfold tonlWalk
    unfold Node.isFuncDecl at hn
    split
    · rename_i name hk; simp [hk] at hn
    · simp only [List.foldl_cons]
      exact ih _ (fun m hm => h m (by simp [hm]))

/-- the head FuncDecl node spans the whole declaration (its descendants are all the other nodes) -/
def DeclSized (d : Decl) : Prop := ∀ h, d.nodes.head? = some h → h.size = d.nodes.tail.length

theorem tonlEv_funcDecl (c : WalkCtx) (n : Node) (h : n.isFuncDecl = true) : tonlEv c n = none := by
  unfold Node.isFuncDecl at h
  unfold tonlEv
  split at h <;> simp_all

/-- one declaration: pruned entirely if it is @testonly, else every node is visited -/
theorem tonlWalk_decl (c : WalkCtx) (ig : ISet) (s : TonlState) (d : Decl) (hs : DeclShape d) (hz : DeclSized d) :
    toD (tonlWalk c ig (inTestOnlyContext c d) s 0 d.nodes) = runEvs (sup ig) (toD s) (declEvs c d) := by
  unfold declEvs
  cases hn : d.nodes with
  | nil => exact absurd hn hs.nonempty
  | cons h r =>
    have hr : ∀ m ∈ r, m.isFuncDecl = false := by
      intro m hm; have := hs.tailNoFunc m; simp [hn] at this; exact this hm
    cases hi : d.info with
    | func name doc recv =>
      obtain ⟨h', hh, hk⟩ := hs.headFunc name doc recv hi
      simp [hn] at hh; subst hh
      have hsz : h.size = r.length := by have := hz h (by simp [hn]); simpa [hn] using this
      by_cases hp : inTestOnlyContext c d = true
      · simp only [hp, if_true, tonlWalk, hk]
        rw [tonlWalk_skipAll c ig true s r h.size (by omega)]
        rfl
      · simp only [hp, Bool.false_eq_true, if_false, tonlWalk, hk, List.filterMap_cons]
        rw [tonlEv_funcDecl c h (by simp [Node.isFuncDecl, hk])]
        simp only
        rw [tonlWalk_noFunc c ig _ s r hr, foldl_tonlNode]
    | gen tok doc specs =>
      obtain ⟨h', hh, hk⟩ := hs.headGen tok doc specs hi
      simp [hn] at hh; subst hh
      have hp : inTestOnlyContext c d = false := by simp [inTestOnlyContext, hi]
      simp only [hp, Bool.false_eq_true, if_false]
      rw [tonlWalk_noFunc c ig _ s (h :: r) (by intro m hm; simp at hm; rcases hm with rfl | hm; exact hk; exact hr m hm),
        foldl_tonlNode]

theorem runEvs_append (sp : Diag → Bool) (s : DState Key) (a b : List (Ev Key)) :
    runEvs sp s (a ++ b) = runEvs sp (runEvs sp s a) b := by
  simp [runEvs, List.foldl_append]

theorem foldl_decls (c : WalkCtx) (ig : ISet) (ds : List Decl) (s : TonlState)
    (hs : ∀ d ∈ ds, DeclShape d) (hz : ∀ d ∈ ds, DeclSized d) :
    toD (ds.foldl (fun s d => tonlWalk c ig (inTestOnlyContext c d) s 0 d.nodes) s) =
      runEvs (sup ig) (toD s) (ds.flatMap (declEvs c)) := by
  induction ds generalizing s with
  | nil => rfl
  | cons d r ih =>
    simp only [List.foldl_cons, List.flatMap_cons]
    rw [ih _ (fun x hx => hs x (by simp [hx])) (fun x hx => hz x (by simp [hx])), runEvs_append,
      tonlWalk_decl c ig s d (hs d (by simp)) (hz d (by simp))]

/-- one file -/
theorem tonlFile_eq (c : WalkCtx) (ig : ISet) (f : File)
    (hs : ∀ d ∈ f.decls, DeclShape d) (hz : ∀ d ∈ f.decls, DeclSized d) :
    tonlFile c ig f = if testSuffix.isSuffixOf f.name then [] else (runEvs (sup ig) {} (fileEvs c f)).out := by
  unfold tonlFile fileEvs
  split
  · rfl
  · have := foldl_decls c ig f.decls {} hs hz
    have h2 : (f.decls.foldl (fun s d => tonlWalk c ig (inTestOnlyContext c d) s 0 d.nodes) ({} : TonlState)).out
        = (toD (f.decls.foldl (fun s d => tonlWalk c ig (inTestOnlyContext c d) s 0 d.nodes) ({} : TonlState))).out := rfl
    rw [h2, this]; rfl

/-- the specification of C03 for one package -/
def TonlReported (cfg : Cfg) (c : WalkCtx) (ig : ISet) (p : Pkg) (dg : Diag) : Prop :=
  ∃ f ∈ p.files, shouldSkip cfg f.name = false ∧ testSuffix.isSuffixOf f.name = false ∧
    ((Ev.plain dg ∈ fileEvs c f ∧ sup ig dg = false) ∨ ∃ k, FirstUnsuppressed (sup ig) (fileEvs c f) k dg)

theorem noTestOnly_evs (c : WalkCtx) (h : c.env.noTestOnly = true) (n : Node) : tonlEv c n = none := by
  have hall : ∀ pa ∈ c.env, pa.2.testonly = [] := by
    intro pa hpa
    have := (List.all_eq_true.1 h) pa hpa
    simpa using this
  have hf : ∀ p f, c.env.testOnlyFunc p f = false := by
    intro p f
    cases hb : c.env.testOnlyFunc p f with
    | false => rfl
    | true =>
      unfold Env.testOnlyFunc at hb
      rw [List.any_eq_true] at hb
      obtain ⟨pa, hpa, hc⟩ := hb
      rw [hall pa hpa] at hc; simp at hc
  have hm : ∀ p t m, c.env.testOnlyMethod p t m = false := by
    intro p t m
    cases hb : c.env.testOnlyMethod p t m with
    | false => rfl
    | true =>
      unfold Env.testOnlyMethod at hb
      rw [List.any_eq_true] at hb
      obtain ⟨pa, hpa, hc⟩ := hb
      rw [hall pa hpa] at hc; simp at hc
  have ht : ∀ p t, c.env.testOnlyType p t = false := by
    intro p t
    cases hb : c.env.testOnlyType p t with
    | false => rfl
    | true =>
      unfold Env.testOnlyType at hb
      rw [List.any_eq_true] at hb
      obtain ⟨pa, hpa, hc⟩ := hb
      rw [hall pa hpa] at hc; simp at hc
  have hcall : ∀ callee, tonlCall c callee = none := by
    intro callee
    unfold tonlCall
    split <;> simp_all
    split <;> simp_all
  have htu : ∀ ty, tonlTypeUse c ty = none := by
    intro ty
    unfold tonlTypeUse
    split <;> simp_all
  unfold tonlEv
  split <;> simp [hcall, htu]

/-- **C03 main theorem** -/
theorem testonly_exact (cfg : Cfg) (c : WalkCtx) (ig : ISet) (p : Pkg)
    (hs : PkgShape p) (hz : ∀ f ∈ p.files, ∀ d ∈ f.decls, DeclSized d) (dg : Diag) :
    dg ∈ checkTestOnly cfg c ig p ↔ TonlReported cfg c ig p dg := by
  unfold checkTestOnly TonlReported
  by_cases hno : c.env.noTestOnly = true
  · simp only [hno, if_true, List.not_mem_nil, false_iff]
    have hempty : ∀ f : File, fileEvs c f = [] := by
      intro f
      unfold fileEvs declEvs
      apply List.flatMap_eq_nil_iff.2
      intro d _
      split
      · rfl
      · apply List.filterMap_eq_nil_iff.2
        intro n _; exact noTestOnly_evs c hno n
    rintro ⟨f, _, _, _, h⟩
    rw [hempty f] at h
    rcases h with ⟨h, _⟩ | ⟨k, a, b, e, _⟩
    · simp at h
    · cases a <;> simp at e
  · simp only [hno, Bool.false_eq_true, if_false, List.mem_flatMap]
    constructor
    · rintro ⟨f, hf, hmem⟩
      obtain ⟨hf1, hf2⟩ := mem_filesToScan.1 hf
      rw [tonlFile_eq c ig f (hs f hf1) (hz f hf1)] at hmem
      by_cases ht : testSuffix.isSuffixOf f.name = true
      · simp [ht] at hmem
      · simp only [ht, Bool.false_eq_true, if_false] at hmem
        exact ⟨f, hf1, hf2, by simp only [Bool.not_eq_true] at ht; exact ht, (mem_runEvs_init _ _ _).1 hmem⟩
    · rintro ⟨f, hf1, hf2, ht, h⟩
      refine ⟨f, mem_filesToScan.2 ⟨hf1, hf2⟩, ?_⟩
      rw [tonlFile_eq c ig f (hs f hf1) (hz f hf1)]
      simp only [ht, Bool.false_eq_true, if_false]
      exact (mem_runEvs_init _ _ _).2 h

/-- test files never receive TONL diagnostics, whatever the configuration -/
theorem testonly_test_files_silent (c : WalkCtx) (ig : ISet) (f : File) (h : testSuffix.isSuffixOf f.name = true) :
    tonlFile c ig f = [] := by
  simp [tonlFile, h]

/-- the body (and signature) of a declaration that is itself @testonly contributes nothing -/
theorem testonly_context_prune (c : WalkCtx) (d : Decl) (h : inTestOnlyContext c d = true) : declEvs c d = [] := by
  simp [declEvs, h]

/-- an identifier that merely shares a name with a @testonly function (a local closure, a parameter, a method)
    is not a call of it: only a resolved package-level function counts -/
theorem testonly_same_name_not_reported (c : WalkCtx) (name : Name) (o : Obj)
    (h : ∀ p n, o ≠ .func (some p) n) : tonlCall c (.ident name o) = none := by
  unfold tonlCall
  split <;> simp_all

/-- the reported TONL01 is the first unsuppressed use of its type in the file: no earlier use of the same type is unsuppressed -/
theorem testonly_first_use (sp : Diag → Bool) (evs : List (Ev Key)) (k : Key) (d : Diag)
    (h : FirstUnsuppressed sp evs k d) :
    ∃ a b, evs = a ++ Ev.keyed k d :: b ∧ sp d = false ∧ ∀ d', Ev.keyed k d' ∈ a → sp d' = true := h

end GGV.Props.C03
