import GGV.Props.C12
/-!
# C11 — Results are deterministic and independent of analysis schedule (partial)

* `shared_state_justified` (decided over T6, the inventory of package-level variables and their write sites
  regenerated from /repo): after initialisation the only package-level variable that is assigned is
  `cachedConfig`, inside `runConfig` (under `configOnce.Do`); all other sites are method calls on regexes and
  Aho-Corasick matchers whose methods (`FindStringSubmatch`, `Contains`) do not write.
* `once_deterministic`: in the interleaving model of N workers each doing `Once.Do(init); read`, every read
  returns init's value, for all schedules (assumption: `sync.Once`'s contract — `Do` returns only after the first
  call of `f` has completed).
* order independence of the indices and of the reported key sets: C12 (`index_order_free`, `reported_keys_order_free`).
Not exhibited: the Go memory model, races inside x/tools — exercised by the `determinism` suite.
-/
namespace GGV.Props.C11

/-- a post-initialisation write site of a package-level variable that is harmless under concurrency: an assignment
    inside the function given to `Do` of a package-level `sync.Once`; `Once.Do` itself; any method of `*regexp.Regexp`
    except the configuration method `Longest` ("a Regexp is safe for concurrent use by multiple goroutines, except
    for configuration methods"); the thread-safe lookups of the Aho-Corasick matcher -/
def harmlessWrite (w : String × String × String × String × String) : Bool :=
  w.2.2.1 == "assign-under-once" ||
  (w.2.2.1 == "ptrcall" && w.2.2.2.1 == "sync.Once" && w.2.2.2.2 == "Do") ||
  (w.2.2.1 == "ptrcall" && w.2.2.2.1 == "regexp.Regexp" && w.2.2.2.2 != "Longest") ||
  (w.2.2.1 == "ptrcall" && w.2.2.2.1 == "ahocorasick.Matcher" && (w.2.2.2.2 == "Contains" || w.2.2.2.2 == "MatchThreadSafe"))

/-- after initialisation a package-level variable is only assigned under a `sync.Once`; every other site is a call
    of a method that is safe for concurrent use (decided over T6, regenerated from /repo) -/
theorem shared_state_justified : GGV.Gen.packageVarWrites.all harmlessWrite = true := by decide +kernel

/-- no package-level variable has a map, slice or pointer-to-struct type that a checker fills at run time:
    the variables are the analyzers, the regexes, the matchers, the two code tables, the config cache — or tables of
    read-only data (T6: never written, built from basic types / structs / arrays / slices, slices only ever read) -/
theorem shared_state_inventory :
    GGV.Gen.packageVars.all (fun v =>
      v.2 == "*analysis.Analyzer" || v.2 == "*regexp.Regexp" || v.2 == "*ahocorasick.Matcher" ||
      v.2 == "map[string][]codes.Code" || v.2 == "map[string][]string" || v.2 == "*config.Config" || v.2 == "sync.Once" ||
      v.2 == "read-only data" || v.2 == "read-only list") = true := by decide

/-- **lookups do not write**: of the methods that the checkers — which run concurrently on one package and share
    the readers' results (the ignore set, the annotations, the configuration) — call on reader / utility types,
    those that assign to their receiver's state (directly or through calls on the same receiver) are called from the
    index-building package only, where they fill an index that belongs to one checker's pass over one package
    (decided over T9, regenerated from /repo). `IgnoreSet.Contains`, the `Has*` / `Get*` / `Match` / `Empty` lookups
    and `Config.FilterFiles` are read-only, so sharing them needs no synchronisation. -/
theorem shared_lookups_read_only :
    GGV.Gen.sharedReadMethods.all (fun m => m.2.1 == "" || m.2.2 == "src/indexing") = true := by decide +kernel

/-- … and the lookup the reporters share is among them -/
theorem contains_is_shared_lookup :
    (GGV.Gen.sharedReadMethods.any (fun m => m.1 == "src/util.IgnoreSet.Contains" && m.2.1 == "")) = true := by decide +kernel

/-! ## `sync.Once` interleavings -/

/-- a worker is before `Do`, inside `Do` running `init`, blocked in `Do` waiting for the running `init`, or past `Do` -/
inductive Phase | start | running | waiting | done | read (v : Nat)
deriving DecidableEq, Repr

structure St where
  cached : Nat            -- the shared variable (cachedConfig), initially the "empty" value 0
  onceDone : Bool         -- sync.Once: f has completed
  onceBusy : Bool         -- sync.Once: f is running
  workers : List Phase

/-- one scheduling step of worker `i`; `v` is the value `init` computes (the same for every caller: it depends
    only on flags and environment) -/
def stepW (v : Nat) (s : St) (i : Nat) : St :=
  match s.workers[i]? with
  | none => s
  | some ph =>
    let set (p : Phase) (s : St) : St := { s with workers := s.workers.set i p }
    match ph with
    | .start =>
      if s.onceDone then set .done s
      else if s.onceBusy then set .waiting s
      else set .running { s with onceBusy := true }
    | .running => set .done { s with cached := v, onceDone := true, onceBusy := false }
    | .waiting => if s.onceDone then set .done s else s
    | .done => set (.read s.cached) s
    | .read _ => s

def Inv (v : Nat) (s : St) : Prop :=
  (s.onceDone = true → s.cached = v) ∧
  (∀ ph ∈ s.workers, ph = .done → s.onceDone = true) ∧
  (∀ ph ∈ s.workers, ∀ x, ph = .read x → x = v)

theorem inv_init (v : Nat) (n : Nat) : Inv v ⟨0, false, false, List.replicate n .start⟩ := by
  refine ⟨by simp, ?_, ?_⟩
  · intro ph hph e; simp [List.mem_replicate] at hph; rw [hph.2] at e; cases e
  · intro ph hph x e; simp [List.mem_replicate] at hph; rw [hph.2] at e; cases e

theorem mem_set {α} (l : List α) (i : Nat) (a x : α) (h : x ∈ l.set i a) : x = a ∨ x ∈ l := by
  induction l generalizing i with
  | nil => simp at h
  | cons b r ih =>
    cases i with
    | zero => simp at h; rcases h with rfl | h; exact Or.inl rfl; exact Or.inr (List.mem_cons_of_mem _ h)
    | succ j =>
      simp at h
      rcases h with rfl | h
      · exact Or.inr (by simp)
      · rcases ih j h with h | h
        · exact Or.inl h
        · exact Or.inr (List.mem_cons_of_mem _ h)

theorem inv_step (v : Nat) (s : St) (i : Nat) (h : Inv v s) : Inv v (stepW v s i) := by
  obtain ⟨h1, h2, h3⟩ := h
  unfold stepW
  cases hw : s.workers[i]? with
  | none => exact ⟨h1, h2, h3⟩
  | some ph =>
    have hmem : ph ∈ s.workers := List.mem_of_getElem? hw
    cases ph with
    | start =>
      simp only
      by_cases hd : s.onceDone = true
      · rw [if_pos hd]
        refine ⟨h1, ?_, ?_⟩
        · intro p hp e; exact hd
        · intro p hp x e
          rcases mem_set _ _ _ _ hp with rfl | hp
          · cases e
          · exact h3 p hp x e
      · rw [if_neg hd]
        by_cases hb : s.onceBusy = true
        · rw [if_pos hb]
          refine ⟨h1, ?_, ?_⟩
          · intro p hp e
            rcases mem_set _ _ _ _ hp with rfl | hp
            · cases e
            · exact h2 p hp e
          · intro p hp x e
            rcases mem_set _ _ _ _ hp with rfl | hp
            · cases e
            · exact h3 p hp x e
        · rw [if_neg hb]
          refine ⟨h1, ?_, ?_⟩
          · intro p hp e
            rcases mem_set _ _ _ _ hp with rfl | hp
            · cases e
            · exact h2 p hp e
          · intro p hp x e
            rcases mem_set _ _ _ _ hp with rfl | hp
            · cases e
            · exact h3 p hp x e
    | running =>
      simp only
      refine ⟨fun _ => rfl, fun _ _ _ => rfl, ?_⟩
      intro p hp x e
      rcases mem_set _ _ _ _ hp with rfl | hp
      · cases e
      · exact h3 p hp x e
    | waiting =>
      simp only
      by_cases hd : s.onceDone = true
      · rw [if_pos hd]
        refine ⟨h1, fun _ _ _ => hd, ?_⟩
        intro p hp x e
        rcases mem_set _ _ _ _ hp with rfl | hp
        · cases e
        · exact h3 p hp x e
      · rw [if_neg hd]; exact ⟨h1, h2, h3⟩
    | done =>
      simp only
      have hdone := h2 _ hmem rfl
      refine ⟨h1, ?_, ?_⟩
      · intro p hp e
        rcases mem_set _ _ _ _ hp with rfl | hp
        · cases e
        · exact h2 p hp e
      · intro p hp x e
        rcases mem_set _ _ _ _ hp with rfl | hp
        · cases e; exact h1 hdone
        · exact h3 p hp x e
    | read x => exact ⟨h1, h2, h3⟩

/-- **for every schedule** (any sequence of worker indices, any number of workers), every value a worker has read
    is the value `init` computes -/
theorem once_deterministic (v : Nat) (n : Nat) (schedule : List Nat) :
    ∀ ph ∈ (schedule.foldl (stepW v) ⟨0, false, false, List.replicate n .start⟩).workers, ∀ x, ph = .read x → x = v := by
  have key : ∀ (sch : List Nat) (s0 : St), Inv v s0 → Inv v (sch.foldl (stepW v) s0) := by
    intro sch
    induction sch with
    | nil => intro s0 h; exact h
    | cons i r ih => intro s0 h; exact ih _ (inv_step v s0 i h)
  have := key schedule _ (inv_init v n)
  exact this.2.2

/-! ## the run-wide position space

Which other packages are analysed in the same run, and in which order the loader registers files, decides the base of
every file in the `token.FileSet`, i.e. adds a constant to every position of a package. -/
open GGV.Model GGV.Model.Prog in
/-- positions moved by `k` (lines unchanged); 0 stays "no position" -/
def baseShift (k : Nat) : Relay := ⟨fun x => if x ≤ 0 then x else x + k, fun l => l⟩

open GGV.Model GGV.Model.Prog in
theorem baseShift_monotone (k : Nat) : (baseShift k).Monotone :=
  ⟨by intro a b hab; simp only [baseShift]; split <;> split <;> omega, by simp [baseShift], by intro a b e; simpa [baseShift] using e⟩

open GGV.Model GGV.Model.Prog in
/-- **the diagnostics do not depend on where the package lies in the position space**: with every position moved by
    `k`, the annotations read are the same and the diagnostics are the same diagnostics (same codes, same order),
    at the moved positions — whatever else was loaded into the run before the package -/
theorem base_shift_invariant (k : Nat) (cfg : Cfg) (facts : List (Name × Annotations)) (p : Pkg)
    (hv : GGV.Props.C16.StartsValid (ignoreOps cfg p)) :
    (analyze cfg facts (p.mapPos (baseShift k))).ann = (analyze cfg facts p).ann ∧
    (analyze cfg facts (p.mapPos (baseShift k))).diags =
      (analyze cfg facts p).diags.map (Diag.mapPos (baseShift k).pos) :=
  GGV.Props.C12.relayout_invariant (baseShift k) (baseShift_monotone k) cfg facts p hv

open GGV.Model GGV.Model.Prog in
/-- in particular the codes, in order, are the same -/
theorem base_shift_codes (k : Nat) (cfg : Cfg) (facts : List (Name × Annotations)) (p : Pkg)
    (hv : GGV.Props.C16.StartsValid (ignoreOps cfg p)) :
    (analyze cfg facts (p.mapPos (baseShift k))).diags.map (·.code) = (analyze cfg facts p).diags.map (·.code) := by
  rw [(base_shift_invariant k cfg facts p hv).2, List.map_map]
  rfl

end GGV.Props.C11
