import GGV.Lemmas.Config
/-!
# C18 — Configuration resolves flag > environment > default, for any input strings

For every string (list of code points) given by flag or environment. The case mapping is a parameter
constrained by `UpperOK` (three facts, validated for Go's `unicode.ToUpper` over all runes by the harness).
-/
namespace GGV.Props.C18
open GGV.Model.Config

/-- list values: split on commas, trim, drop empties, upper-case when asked — nothing else -/
theorem parseList_char (upper : Nat → Nat) (b : Bool) (s : Str) (x : Str) :
    x ∈ parseList upper b s ↔
      ∃ part ∈ splitComma s, trim part ≠ [] ∧ x = (if b then (trim part).map upper else trim part) := by
  rw [parseList_eq]
  simp only [List.mem_filterMap]
  constructor
  · rintro ⟨part, hp, hg⟩
    by_cases ht : trim part = []
    · simp [ht] at hg
    · simp only [ht, if_false, Option.some.injEq] at hg
      exact ⟨part, hp, ht, hg.symm⟩
  · rintro ⟨part, hp, ht, rfl⟩
    exact ⟨part, hp, by simp [ht]⟩

/-- order of items = order of the comma-separated parts (the list is a filterMap of the split) -/
theorem parseList_order (upper : Nat → Nat) (b : Bool) (s : Str) :
    parseList upper b s = (splitComma s).filterMap fun part =>
      if trim part = [] then none else some (if b then (trim part).map upper else trim part) :=
  parseList_eq upper b s

/-- **the environment value survives its round trip through the flag default**:
    parse ∘ join ∘ parse = parse -/
theorem parseList_join_idem (upper : Nat → Nat) (hu : UpperOK upper) (b : Bool) (s : Str) :
    parseList upper b (joinComma (parseList upper b s)) = parseList upper b s := by
  have hitems := parseList_item upper hu b s
  generalize parseList upper b s = items at hitems
  by_cases hne : items = []
  · subst hne; rfl
  · rw [parseList_eq, splitComma_join items hne (fun x hx => (hitems x hx).2.2.1)]
    apply filterMap_eq_self
    intro x hx
    obtain ⟨h1, h2, _, h4⟩ := hitems x hx
    rw [trim_of_trimmed x h2]
    simp only [h1, if_false]
    cases b with
    | false => rfl
    | true => simp [h4 rfl]

/-- defaults that are their own parse (true of the regenerated defaults, see `repoDefaults_normal`) -/
def DefaultsNormal (upper : Nat → Nat) (d : Defaults) : Prop :=
  parseList upper false (joinComma d.excludePaths) = d.excludePaths ∧
  parseList upper true (joinComma d.excludeChecks) = d.excludeChecks

/-- **flag > environment > default**, option by option -/
theorem resolve_precedence (upper lower : Nat → Nat) (hu : UpperOK upper) (d : Defaults)
    (hd : DefaultsNormal upper d) (e : Env) (f : Flags) :
    (resolve upper lower d e f).scanTests =
      (match f.scan with
       | some v => v
       | none => match e.scan with
         | some v => if v = [] then d.scanTests else parseBool lower v
         | none => d.scanTests) ∧
    (resolve upper lower d e f).excludePaths =
      (match f.paths with
       | some v => parseList upper false v
       | none => match e.paths with
         | some v => parseList upper false v
         | none => d.excludePaths) ∧
    (resolve upper lower d e f).excludeChecks =
      (match f.checks with
       | some v => parseList upper true v
       | none => match e.checks with
         | some v => parseList upper true v
         | none => d.excludeChecks) := by
  refine ⟨?_, ?_, ?_⟩
  · cases hf : f.scan <;> cases he : e.scan <;> simp [resolve, fromEnv, hf, he]
  · cases hf : f.paths with
    | some v => simp [resolve, hf]
    | none =>
      cases he : e.paths with
      | some v => simp [resolve, fromEnv, hf, he, parseList_join_idem upper hu false v]
      | none => simp [resolve, fromEnv, hf, he, hd.1]
  · cases hf : f.checks with
    | some v => simp [resolve, hf]
    | none =>
      cases he : e.checks with
      | some v => simp [resolve, fromEnv, hf, he, parseList_join_idem upper hu true v]
      | none => simp [resolve, fromEnv, hf, he, hd.2]

/-- the defaults regenerated from /repo are normal for every case mapping (paths are not upper-cased,
    the default check list is empty) -/
theorem parseList_false_indep (upper upper' : Nat → Nat) (s : Str) :
    parseList upper false s = parseList upper' false s := by
  simp [parseList_eq]

theorem repoDefaults_normal (upper : Nat → Nat) : DefaultsNormal upper repoDefaults := by
  constructor
  · rw [parseList_false_indep upper id]; decide
  · have h : repoDefaults.excludeChecks = [] := by decide
    rw [h]; rfl

/-- the documented defaults: scan-tests off, exclude-paths = testdata, exclude-checks empty -/
theorem repoDefaults_documented :
    repoDefaults.scanTests = false ∧ repoDefaults.excludePaths = [ofString "testdata"] ∧
    repoDefaults.excludeChecks = [] := by decide

/-- with nothing given, the defaults apply -/
theorem resolve_default (upper lower : Nat → Nat) (hu : UpperOK upper) :
    resolve upper lower repoDefaults ⟨none, none, none⟩ ⟨none, none, none⟩ =
      ⟨false, [ofString "testdata"], []⟩ := by
  obtain ⟨h1, h2, h3⟩ := resolve_precedence upper lower hu repoDefaults (repoDefaults_normal upper)
    ⟨none, none, none⟩ ⟨none, none, none⟩
  have hd := repoDefaults_documented
  cases hr : resolve upper lower repoDefaults ⟨none, none, none⟩ ⟨none, none, none⟩ with
  | mk a b c =>
    rw [hr] at h1 h2 h3
    simp only at h1 h2 h3
    rw [h1, h2, h3, hd.1, hd.2.1, hd.2.2]

/-- an environment variable set to the empty string counts as set: empty list (not the default) -/
theorem env_empty_is_set (upper lower : Nat → Nat) (hu : UpperOK upper) (d : Defaults) (hd : DefaultsNormal upper d)
    (e : Env) (f : Flags) (hf : f.paths = none) (he : e.paths = some []) :
    (resolve upper lower d e f).excludePaths = [] := by
  have := (resolve_precedence upper lower hu d hd e f).2.1
  rw [this, hf, he]; rfl

/-- a boolean variable is true exactly for 1 / t / true / yes / on after trimming and lower-casing -/
theorem parseBool_iff (lower : Nat → Nat) (s : Str) :
    parseBool lower s = true ↔
      (trim s).map lower ∈ [ofString "1", ofString "t", ofString "true", ofString "yes", ofString "on"] := by
  simp [parseBool, Bool.or_eq_true, beq_iff_eq]
  constructor
  · rintro ((((h | h) | h) | h) | h) <;> simp [h]
  · rintro (h | h | h | h | h) <;> simp [h]

/-- check codes are upper-cased, paths are not -/
theorem checks_upper (upper : Nat → Nat) (s : Str) (x : Str) (hx : x ∈ parseList upper true s) :
    ∃ t : Str, x = t.map upper := by
  obtain ⟨part, _, _, h⟩ := (parseList_char upper true s x).1 hx
  exact ⟨trim part, by simpa using h⟩

/-- items are never empty, have no surrounding blanks and contain no comma -/
theorem items_wellformed (upper : Nat → Nat) (hu : UpperOK upper) (b : Bool) (s x : Str)
    (hx : x ∈ parseList upper b s) : x ≠ [] ∧ Trimmed x ∧ comma ∉ x :=
  let h := parseList_item upper hu b s x hx
  ⟨h.1, h.2.1, h.2.2.1⟩

/-! ## Non-vacuity (ASCII upper-casing satisfies nothing here by `decide` for all c, so the examples are concrete) -/
def asciiUpper (c : Nat) : Nat := if 97 ≤ c ∧ c ≤ 122 then c - 32 else c
def asciiLower (c : Nat) : Nat := if 65 ≤ c ∧ c ≤ 90 then c + 32 else c

theorem asciiUpper_ok : UpperOK asciiUpper := by
  constructor
  · intro c; unfold asciiUpper; split <;> (try split) <;> omega
  · intro c h; unfold asciiUpper comma at *; split <;> omega
  · intro c h
    unfold asciiUpper
    split
    · rename_i hc
      have : c - 32 ≤ 90 ∧ 65 ≤ c - 32 := by omega
      generalize c - 32 = k at this
      simp only [isSpace, Bool.or_eq_false_iff, Bool.and_eq_false_iff, beq_eq_false_iff_ne, ne_eq, decide_eq_false_iff_not]
      omega
    · exact h

example : parseList asciiUpper true (ofString " imm01 , ,ctor,, Tonl02 ") =
    [ofString "IMM01", ofString "CTOR", ofString "TONL02"] := by decide
example : parseBool asciiLower (ofString "  YeS ") = true ∧ parseBool asciiLower (ofString "2") = false := by decide
example : (resolve asciiUpper asciiLower repoDefaults ⟨some (ofString "on"), some [], some (ofString "imm")⟩
    ⟨none, none, some (ofString "ctor01")⟩) = ⟨true, [], [ofString "CTOR01"]⟩ := by decide

end GGV.Props.C18
