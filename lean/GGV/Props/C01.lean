import GGV.Lemmas.Walk
/-!
# C01 — @immutable is enforced exactly

`ImmReported` is the positional specification; `immutable_exact` proves the stateful walk of `CheckImmutable`
equal to it for every program. Write forms the property does not list (range assignment, `x.f[i]++`,
`x.f[i] op= v`, writes through other pointers than the receiver) offer no site: neither required nor forbidden.
-/
namespace GGV.Props.C01
open GGV.Model GGV.Model.Prog

/-- a write site: a field of a value of type `xTy`, or `*x` (receiver overwrite / increment) -/
inductive Site where
  | field (xTy : Option Ty) (f : Name) (pos : Int) (code : String)
  | recv (x : Lhs) (pos : Int) (code : String)

def assignSites (l : Lhs) : List Site :=
  match l.unparen with
  | .sel xTy f pos => [.field xTy f pos "IMM01"]
  | .idx x pos =>
    match x.unparen with
    | .sel xTy f _ => [.field xTy f pos "IMM04"]
    | _ => []
  | .star x pos => [.recv x pos "IMM01"]
  | _ => []

def compoundSites (l : Lhs) : List Site :=
  match l.unparen with
  | .sel xTy f pos => [.field xTy f pos "IMM02"]
  | _ => []

def incDecSites (nodePos : Int) (x : Lhs) : List Site :=
  match x.unparen with
  | .sel xTy f _ => [.field xTy f nodePos "IMM03"]
  | .star y pos => [.recv y pos "IMM03"]
  | _ => []

/-- the write sites a statement offers: plain `=` (IMM01 / IMM04 / receiver), `op=` (IMM02), `++ --` (IMM03) -/
def sites (n : Node) : List Site :=
  match n.kind with
  | .assign tok lhs => if tok == .assign then lhs.flatMap assignSites else lhs.flatMap compoundSites
  | .incDec x => incDecSites n.pos x
  | _ => []

/-- when a site is a violation, given the enclosing top-level function and method receiver -/
def SiteViolates (c : WalkCtx) (fn : Name) (recv : Option RecvCtx) : Site → Diag → Prop
  | .field xTy f pos code, dg =>
    ∃ pkg ty, typeInfo xTy = some (pkg, ty) ∧ c.env.isImmutable pkg ty = true ∧
      ¬ (c.curPkg = pkg ∧ fn ∈ c.env.ctorNames pkg ty) ∧ c.env.isMutableField pkg ty f = false ∧ dg = ⟨pos, code⟩
  | .recv x pos code, dg =>
    ∃ r, recv = some r ∧ x = .ident r.name ∧ c.env.isImmutable r.pkgPath r.typeName = true ∧
      ¬ (c.curPkg = r.pkgPath ∧ fn ∈ c.env.ctorNames r.pkgPath r.typeName) ∧ dg = ⟨pos, code⟩

/-- the specification -/
def ImmReported (cfg : Cfg) (c : WalkCtx) (p : Pkg) (dg : Diag) : Prop :=
  ∃ f ∈ p.files, shouldSkip cfg f.name = false ∧ ∃ d ∈ f.decls, ∃ n ∈ d.nodes, ∃ s ∈ sites n,
    SiteViolates c d.enclosingFn d.enclosingRecv s dg

def siteDiag (c : WalkCtx) (fn : Name) (recv : Option RecvCtx) : Site → List Diag
  | .field xTy f pos code => if immFieldHit c fn xTy f then [⟨pos, code⟩] else []
  | .recv x pos code => if immRecvHit c fn recv x then [⟨pos, code⟩] else []

theorem inConstructor_iff (c : WalkCtx) (fn pkg ty : Name) :
    c.inConstructor fn pkg ty = true ↔ (c.curPkg = pkg ∧ fn ∈ c.env.ctorNames pkg ty) := by
  simp [WalkCtx.inConstructor]

theorem immFieldHit_iff (c : WalkCtx) (fn : Name) (xTy : Option Ty) (f : Name) :
    immFieldHit c fn xTy f = true ↔
      ∃ pkg ty, typeInfo xTy = some (pkg, ty) ∧ c.env.isImmutable pkg ty = true ∧
        ¬ (c.curPkg = pkg ∧ fn ∈ c.env.ctorNames pkg ty) ∧ c.env.isMutableField pkg ty f = false := by
  unfold immFieldHit
  split
  · rename_i h; simp [h]
  · rename_i pkg ty h
    simp only [h, Option.some.injEq, Prod.mk.injEq, Bool.and_eq_true, Bool.not_eq_true']
    constructor
    · rintro ⟨⟨h1, h2⟩, h3⟩
      refine ⟨pkg, ty, ⟨rfl, rfl⟩, h1, ?_, h3⟩
      intro hin
      rw [(inConstructor_iff c fn pkg ty).2 hin] at h2
      exact absurd h2 (by simp)
    · rintro ⟨_, _, ⟨rfl, rfl⟩, h1, h2, h3⟩
      refine ⟨⟨h1, ?_⟩, h3⟩
      cases hb : c.inConstructor fn pkg ty with
      | false => rfl
      | true => exact absurd ((inConstructor_iff c fn pkg ty).1 hb) h2

theorem siteDiag_iff (c : WalkCtx) (fn : Name) (recv : Option RecvCtx) (s : Site) (dg : Diag) :
    dg ∈ siteDiag c fn recv s ↔ SiteViolates c fn recv s dg := by
  cases s with
  | field xTy f pos code =>
    simp only [siteDiag, SiteViolates]
    by_cases hh : immFieldHit c fn xTy f = true
    · obtain ⟨pkg, ty, h1, h2, h3, h4⟩ := (immFieldHit_iff c fn xTy f).1 hh
      simp only [hh, if_true, List.mem_singleton]
      constructor
      · intro e; exact ⟨pkg, ty, h1, h2, h3, h4, e⟩
      · rintro ⟨_, _, _, _, _, _, e⟩; exact e
    · simp only [hh, Bool.false_eq_true, if_false, List.not_mem_nil, false_iff]
      rintro ⟨pkg, ty, h1, h2, h3, h4, _⟩
      exact hh ((immFieldHit_iff c fn xTy f).2 ⟨pkg, ty, h1, h2, h3, h4⟩)
  | recv x pos code =>
    simp only [siteDiag, SiteViolates, immRecvHit]
    cases recv with
    | none => simp
    | some r =>
      cases x with
      | ident n =>
        simp only
        by_cases h0 : n = r.name
        · subst h0
          by_cases h1 : c.env.isImmutable r.pkgPath r.typeName = true
          · by_cases h2f : c.inConstructor fn r.pkgPath r.typeName = true
            · have hin := (inConstructor_iff c fn r.pkgPath r.typeName).1 h2f
              simp only [beq_self_eq_true, h1, h2f, Bool.not_true, Bool.and_false, Bool.false_eq_true, if_false,
                List.not_mem_nil, false_iff]
              rintro ⟨r', hr, _, _, hnot, _⟩
              simp only [Option.some.injEq] at hr
              subst hr
              exact hnot hin
            · have h2' : ¬ (c.curPkg = r.pkgPath ∧ fn ∈ c.env.ctorNames r.pkgPath r.typeName) :=
                fun h => h2f ((inConstructor_iff c fn r.pkgPath r.typeName).2 h)
              simp only [Bool.not_eq_true] at h2f
              simp only [beq_self_eq_true, h1, h2f, Bool.not_false, Bool.and_self, if_true, List.mem_singleton]
              constructor
              · intro e; exact ⟨r, rfl, rfl, h1, h2', e⟩
              · rintro ⟨_, _, _, _, _, e⟩; exact e
          · simp only [Bool.not_eq_true] at h1
            simp only [beq_self_eq_true, h1, Bool.true_and, Bool.false_and, Bool.false_eq_true, if_false, List.not_mem_nil, false_iff]
            rintro ⟨r', hr, _, h, _⟩
            simp only [Option.some.injEq] at hr
            subst hr
            rw [h1] at h; exact absurd h (by simp)
        · have : (n == r.name) = false := by simpa using h0
          simp only [this, Bool.false_and, Bool.false_eq_true, if_false, List.not_mem_nil, false_iff]
          rintro ⟨r', hr, hx, _⟩
          simp only [Option.some.injEq] at hr
          subst hr
          simp only [Lhs.ident.injEq] at hx
          exact h0 hx
      | _ => simp

theorem flatMap_flatMap' {α β γ} (l : List α) (f : α → List β) (g : β → List γ) :
    (l.flatMap f).flatMap g = l.flatMap (fun x => (f x).flatMap g) := by
  induction l with
  | nil => rfl
  | cons a r ih => simp [List.flatMap_cons, List.flatMap_append, ih]

theorem immNode_eq_sites (c : WalkCtx) (fn : Name) (recv : Option RecvCtx) (n : Node) :
    immNode c fn recv n = (sites n).flatMap (siteDiag c fn recv) := by
  unfold immNode sites
  cases hk : n.kind with
  | assign tok lhs =>
    simp only
    by_cases ht : (tok == AssignTok.assign) = true
    · simp only [ht, if_true, flatMap_flatMap']
      congr 1; funext l
      unfold immAssignLhs assignSites
      cases hl : l.unparen with
      | sel xTy f pos => simp [siteDiag]
      | idx x pos =>
        simp only
        cases hx : x.unparen <;> simp [siteDiag]
      | star x pos => simp [siteDiag]
      | _ => simp
    · simp only [ht, Bool.false_eq_true, if_false, flatMap_flatMap']
      congr 1; funext l
      unfold immCompoundLhs compoundSites
      cases hl : l.unparen <;> simp [siteDiag]
  | incDec x =>
    simp only
    unfold immIncDec incDecSites
    cases hx : x.unparen <;> simp [siteDiag]
  | _ => simp

/-- **C01 main theorem**: `CheckImmutable` reports exactly the specified write sites -/
theorem immutable_exact (cfg : Cfg) (c : WalkCtx) (p : Pkg) (hs : PkgShape p) (dg : Diag) :
    dg ∈ checkImmutable cfg c p ↔ ImmReported cfg c p dg := by
  unfold checkImmutable ImmReported
  by_cases hno : c.env.noImmutable = true
  · simp only [hno, if_true, List.not_mem_nil, false_iff]
    rintro ⟨f, _, _, d, _, n, _, s, _, hv⟩
    cases s with
    | field xTy fl pos code =>
      obtain ⟨pkg, ty, _, h2, _⟩ := hv
      rw [isImmutable_of_noImmutable c.env hno] at h2; simp at h2
    | recv x pos code =>
      obtain ⟨r, _, _, h2, _⟩ := hv
      rw [isImmutable_of_noImmutable c.env hno] at h2; simp at h2
  · simp only [hno, Bool.false_eq_true, if_false, List.mem_flatMap]
    constructor
    · rintro ⟨f, hf, d, hd, hmem⟩
      obtain ⟨hf1, hf2⟩ := mem_filesToScan.1 hf
      rw [immDecl_eq c d (hs f hf1 d hd)] at hmem
      simp only [List.mem_flatMap] at hmem
      obtain ⟨n, hn, hv⟩ := hmem
      rw [immNode_eq_sites] at hv
      simp only [List.mem_flatMap] at hv
      obtain ⟨s, hsm, hsv⟩ := hv
      exact ⟨f, hf1, hf2, d, hd, n, hn, s, hsm, (siteDiag_iff c _ _ s dg).1 hsv⟩
    · rintro ⟨f, hf1, hf2, d, hd, n, hn, s, hsm, hv⟩
      refine ⟨f, mem_filesToScan.2 ⟨hf1, hf2⟩, d, hd, ?_⟩
      rw [immDecl_eq c d (hs f hf1 d hd)]
      simp only [List.mem_flatMap]
      refine ⟨n, hn, ?_⟩
      rw [immNode_eq_sites]
      simp only [List.mem_flatMap]
      exact ⟨s, hsm, (siteDiag_iff c _ _ s dg).2 hv⟩

/-- statements that only read, and write forms outside the listed ones, offer no site -/
theorem immutable_silent_reads (n : Node) (h : ∀ tok lhs, n.kind ≠ .assign tok lhs) (h' : ∀ x, n.kind ≠ .incDec x) :
    sites n = [] := by
  unfold sites
  cases hk : n.kind with
  | assign tok lhs => exact absurd hk (h tok lhs)
  | incDec x => exact absurd hk (h' x)
  | _ => rfl

/-- a `@mutable` field is never reported; a type without `@immutable` is never reported -/
theorem immutable_silent (c : WalkCtx) (fn : Name) (recv : Option RecvCtx) (xTy : Option Ty) (f : Name) (pos : Int)
    (code : String) (pkg ty : Name) (hti : typeInfo xTy = some (pkg, ty))
    (h : c.env.isMutableField pkg ty f = true ∨ c.env.isImmutable pkg ty = false) :
    siteDiag c fn recv (.field xTy f pos code) = [] := by
  rcases h with h | h <;> simp [siteDiag, immFieldHit, hti, h]

/-- a write inside a constructor of the type's own package is exempt; the same name in another package is not -/
theorem immutable_receiver_rule (c : WalkCtx) (fn : Name) (r : RecvCtx) (pos : Int) (code : String)
    (himm : c.env.isImmutable r.pkgPath r.typeName = true)
    (hout : ¬ (c.curPkg = r.pkgPath ∧ fn ∈ c.env.ctorNames r.pkgPath r.typeName)) :
    siteDiag c fn (some r) (.recv (.ident r.name) pos code) = [⟨pos, code⟩] := by
  have h2 : c.inConstructor fn r.pkgPath r.typeName = false := by
    cases hb : c.inConstructor fn r.pkgPath r.typeName with
    | false => rfl
    | true => exact absurd ((inConstructor_iff c fn _ _).1 hb) hout
  simp [siteDiag, immRecvHit, himm, h2]

/-! ## Non-vacuity -/
def exEnv : Env := [(ascii "exp/a", { immutable := [ascii "T"], constructors := [(ascii "T", [ascii "NewT"])], mutable := [(ascii "T", ascii "Cache")] })]
def exCtx : WalkCtx := ⟨exEnv, ascii "exp/a", ascii "a"⟩
def tyT : Option Ty := some (.ptr (.named (some (ascii "exp/a")) (ascii "T")))
def exDeclInit : Decl := ⟨.gen (ascii "var") none [], 60, 90, 5,
  [⟨.other, 60, 90, 5, 5, 2⟩, ⟨.assign .assign [.sel tyT (ascii "X") 70], 70, 80, 5, 5, 0⟩,
   ⟨.assign .assign [.sel tyT (ascii "Cache") 82], 82, 88, 5, 5, 0⟩]⟩
def exDeclCtor : Decl := ⟨.func (ascii "NewT") none none, 10, 50, 3,
  [⟨.funcDecl (ascii "NewT"), 10, 50, 1, 3, 1⟩, ⟨.assign .assign [.sel tyT (ascii "X") 30], 30, 40, 2, 2, 0⟩]⟩
example : immDecl exCtx exDeclInit = [⟨70, "IMM01"⟩] := by decide
example : immDecl exCtx exDeclCtor = [] := by decide

end GGV.Props.C01
