import GGV.Props.C07
/-!
# C08 — exclude-checks removes exactly the matching codes, project-wide
-/
namespace GGV.Props.C08
open GGV.Model GGV.Model.Prog

/-- a diagnostic's code is matched by the exclusion list under ALL > category > code -/
def matched (S : List String) (code : String) : Bool := (hier code).any (fun t => S.contains t)

/-- adding project-wide exclusions: suppressed iff matched by the list or suppressed before -/
theorem exclude_module (hr : String → List String) (S : List String) (ops : List Op) (code : String) (pos : Int) :
    C16.Suppressed hr (Op.addModule S :: ops) code pos ↔ (∃ t ∈ hr code, t ∈ S) ∨ C16.Suppressed hr ops code pos := by
  unfold C16.Suppressed
  constructor
  · rintro ⟨t, ht, ⟨cs, hc, h⟩ | ⟨m, hm, h⟩⟩
    · simp only [List.mem_cons, Op.addModule.injEq] at hc
      rcases hc with rfl | hc
      · exact Or.inl ⟨t, ht, h⟩
      · exact Or.inr ⟨t, ht, Or.inl ⟨cs, hc, h⟩⟩
    · simp only [List.mem_cons, reduceCtorEq, false_or] at hm
      exact Or.inr ⟨t, ht, Or.inr ⟨m, hm, h⟩⟩
  · rintro (⟨t, ht, h⟩ | ⟨t, ht, ⟨cs, hc, h⟩ | ⟨m, hm, h⟩⟩)
    · exact ⟨t, ht, Or.inl ⟨S, by simp, h⟩⟩
    · exact ⟨t, ht, Or.inl ⟨cs, List.mem_cons_of_mem _ hc, h⟩⟩
    · exact ⟨t, ht, Or.inr ⟨m, List.mem_cons_of_mem _ hm, h⟩⟩

/-- the hierarchy of any code consists of ALL, the code itself and (for a listed code) its category — nothing else -/
theorem hier_members (tbl : CodeTable) (code t : String) (h : t ∈ hierOf tbl code) :
    t = "ALL" ∨ t = code ∨ categoryOf tbl code = some t := by
  unfold hierOf at h
  split at h
  · rename_i cat hc
    simp only [List.mem_cons, List.not_mem_nil, or_false] at h
    rcases h with rfl | rfl | rfl
    · exact Or.inl rfl
    · exact Or.inr (Or.inr hc)
    · exact Or.inr (Or.inl rfl)
  · simp only [List.mem_cons, List.not_mem_nil, or_false] at h
    rcases h with rfl | rfl
    · exact Or.inl rfl
    · exact Or.inr (Or.inl rfl)

theorem all_in_hier (tbl : CodeTable) (code : String) : "ALL" ∈ hierOf tbl code := by
  unfold hierOf; split <;> simp

/-- `S = ALL` yields none: every code is matched -/
theorem exclude_all_empty (S : List String) (h : "ALL" ∈ S) (code : String) : matched S code = true := by
  unfold matched
  rw [List.any_eq_true]
  exact ⟨"ALL", all_in_hier _ code, by simpa using h⟩

/-- tokens that are neither ALL, nor the code, nor its category exclude nothing -/
theorem junk_excludes_nothing (S : List String) (code : String)
    (h : ∀ t ∈ S, t ≠ "ALL" ∧ t ≠ code ∧ categoryOf GGV.Gen.codesByCategory code ≠ some t) : matched S code = false := by
  cases hb : matched S code with
  | false => rfl
  | true =>
    unfold matched at hb
    rw [List.any_eq_true] at hb
    obtain ⟨t, ht, hs⟩ := hb
    have hs' : t ∈ S := by simpa using hs
    obtain ⟨h1, h2, h3⟩ := h t hs'
    rcases hier_members _ code t ht with e | e | e
    · exact absurd e h1
    · exact absurd e h2
    · exact absurd e h3

/-- report-time filter (IMM, CTOR, IMPL): with exclusions `S` in front, the surviving diagnostics are those of the
    unrestricted filter whose code is not matched -/
theorem exclude_filter_report (S : List String) (ops : List Op) (hv : C16.StartsValid ops) (raw : List Diag) (d : Diag) :
    d ∈ raw.filter (fun d => !(run (Op.addModule S :: ops)).contains d.code d.pos) ↔
      d ∈ (raw.filter (fun d => !(run ops).contains d.code d.pos)) ∧ matched S d.code = false := by
  have hv' : C16.StartsValid (Op.addModule S :: ops) := by
    intro m hm; simp only [List.mem_cons, reduceCtorEq, false_or] at hm; exact hv m hm
  have h1 := C16.contains_iff (Op.addModule S :: ops) hv' d.code d.pos
  have h2 := C16.contains_iff ops hv d.code d.pos
  have h3 := exclude_module hier S ops d.code d.pos
  have hm : matched S d.code = true ↔ ∃ t ∈ hier d.code, t ∈ S := by
    simp [matched, List.any_eq_true]
  simp only [List.mem_filter, Bool.not_eq_true']
  constructor
  · rintro ⟨hr, hc⟩
    have hns : ¬ C16.Suppressed hier (Op.addModule S :: ops) d.code d.pos := by
      intro hs; rw [h1.2 hs] at hc; exact absurd hc (by simp)
    rw [h3] at hns
    refine ⟨⟨hr, ?_⟩, ?_⟩
    · cases hb : (run ops).contains d.code d.pos with
      | false => rfl
      | true => exact absurd (Or.inr (h2.1 hb)) hns
    · cases hb : matched S d.code with
      | false => rfl
      | true => exact absurd (Or.inl (hm.1 hb)) hns
  · rintro ⟨⟨hr, hc⟩, hmf⟩
    refine ⟨hr, ?_⟩
    cases hb : (run (Op.addModule S :: ops)).contains d.code d.pos with
    | false => rfl
    | true =>
      rcases h3.1 (h1.1 hb) with h | h
      · rw [hm.2 h] at hmf; exact absurd hmf (by simp)
      · rw [h2.2 h] at hc; exact absurd hc (by simp)

/-- detection-time filter (TONL, PKGO): excluding a code commutes with the once-per-file deduplication, because the
    deduplicated events of one walk all carry the same code (TONL01 resp. PKGO01): with `m` the exclusion test,
    running with `m ∨ sup` reports exactly the diagnostics of the run with `sup` that `m` does not match -/
theorem exclude_commutes_with_dedup {K : Type} [DecidableEq K] (m sup : Diag → Bool) (evs : List (Ev K)) (b : Bool)
    (hk : ∀ k d, Ev.keyed k d ∈ evs → m d = b) (s s' : DState K)
    (hout : s'.out = s.out.filter (fun d => !m d)) (hrep : b = false → s'.reported = s.reported) :
    (runEvs (fun d => m d || sup d) s' evs).out = ((runEvs sup s evs).out).filter (fun d => !m d) := by
  induction evs generalizing s s' with
  | nil => simpa [runEvs] using hout
  | cons ev rest ih =>
    have hk' : ∀ k d, Ev.keyed k d ∈ rest → m d = b := fun k d h => hk k d (List.mem_cons_of_mem _ h)
    show (runEvs _ (applyEv _ s' ev) rest).out = ((runEvs sup (applyEv sup s ev) rest).out).filter _
    apply ih hk'
    · cases ev with
      | plain d =>
        by_cases hm : m d = true
        · by_cases hs : sup d = true <;> simp [applyEv, hm, hs, hout, List.filter_append]
        · simp only [Bool.not_eq_true] at hm
          by_cases hs : sup d = true <;> simp [applyEv, hm, hs, hout, List.filter_append]
      | keyed k d =>
        have hmd := hk k d (by simp)
        cases b with
        | true =>
          by_cases hs : sup d = true
          · simp [applyEv, hmd, hs, hout]
          · by_cases hr : k ∈ s.reported <;> simp [applyEv, hmd, hs, hr, hout, List.filter_append]
        | false =>
          have hre := hrep rfl
          by_cases hs : sup d = true
          · simp [applyEv, hmd, hs, hout]
          · by_cases hr : k ∈ s.reported <;> simp [applyEv, hmd, hs, hr, hre, hout, List.filter_append]
    · intro hb
      cases ev with
      | plain d => by_cases hm : m d = true <;> by_cases hs : sup d = true <;> simp [applyEv, hm, hs, hrep hb]
      | keyed k d =>
        have hmd := hk k d (by simp)
        subst hb
        have hre := hrep rfl
        by_cases hs : sup d = true
        · simp [applyEv, hmd, hs, hre]
        · by_cases hr : k ∈ s.reported <;> simp [applyEv, hmd, hs, hr, hre]

/-- exclusion depends only on the code -/
theorem matched_code_only (S : List String) (d d' : Diag) (h : d.code = d'.code) : matched S d.code = matched S d'.code := by
  rw [h]

/-- the configuration's exclude-checks enter the ignore set as one project-wide entry, first -/
theorem ignoreOps_exclude (cfg : Cfg) (p : Pkg) (S : List String) (hS : S ≠ []) :
    ignoreOps { cfg with excludeChecks := S } p = Op.addModule S :: ignoreOps { cfg with excludeChecks := [] } p := by
  have h1 : filesToScan { cfg with excludeChecks := S } p = filesToScan { cfg with excludeChecks := [] } p := rfl
  unfold ignoreOps
  rw [h1]
  cases S with
  | nil => exact absurd rfl hS
  | cons a r => simp

/-! ## Non-vacuity over the regenerated table -/
example : matched ["IMM"] "IMM02" = true ∧ matched ["IMM01"] "IMM02" = false ∧ matched ["ALL"] "PKGO03" = true ∧
    matched ["IMM0", "ct", "junk"] "IMM01" = false ∧ matched ["CTOR", "TONL01"] "TONL01" = true := by decide

end GGV.Props.C08
