import GGV.Lemmas.Attach
import GGV.Lemmas.Walk
import GGV.Props.C15
/-!
# C09 — Code without annotations is never reported

If no doc comment line of a top-level declaration (of the scanned files) begins — after `//` and blanks — with one of
the lowercase annotation keywords, the package has no annotations; and a package whose own annotations and whose
direct imports' annotations are empty gets no diagnostic from any of the four walks, under ANY configuration and
whatever `@ignore` comments it contains. Near-misses (mid-sentence, block comments, other case, longer words,
local declarations, trailing comments) are covered by `C15.near_miss_inert` / `keyword_exact_*`: they do not begin
with a keyword, or are not doc lines of a top-level declaration at all.
-/
namespace GGV.Props.C09
open GGV.Model GGV.Model.Prog GGV.Model.Grammar

/-- no annotation anywhere in sight of the package: its own scanned doc lines and its direct imports' facts -/
def AnnotationFree (cfg : Cfg) (facts : List (Name × Annotations)) (p : Pkg) : Prop :=
  (∀ f ∈ filesToScan cfg p, ∀ d ∈ f.decls, ∀ t ∈ d.docLines, ¬ startsWithKeyword t) ∧
  (∀ fa ∈ facts, fa.2 = {})

theorem env_empty (cfg : Cfg) (facts : List (Name × Annotations)) (p : Pkg) (h : AnnotationFree cfg facts p) :
    ∀ pa ∈ ((p.path, readAnnotations cfg p) :: facts), pa.2 = {} := by
  intro pa hpa
  simp only [List.mem_cons] at hpa
  rcases hpa with rfl | hpa
  · exact readAnnotations_empty cfg p h.1
  · exact h.2 pa hpa

/-- **C09 main theorem**: no annotations ⇒ no diagnostics, for every configuration -/
theorem no_annotations_no_diagnostics (cfg : Cfg) (facts : List (Name × Annotations)) (p : Pkg)
    (h : AnnotationFree cfg facts p) : (analyze cfg facts p).diags = [] := by
  have he := env_empty cfg facts p h
  have h1 : Env.noImmutable ((p.path, readAnnotations cfg p) :: facts) = true := by
    unfold Env.noImmutable
    rw [List.all_eq_true]
    intro pa hpa; rw [he pa hpa]; rfl
  have h2 : Env.noConstructors ((p.path, readAnnotations cfg p) :: facts) = true := by
    unfold Env.noConstructors
    rw [List.all_eq_true]
    intro pa hpa; rw [he pa hpa]; rfl
  have h3 : Env.noTestOnly ((p.path, readAnnotations cfg p) :: facts) = true := by
    unfold Env.noTestOnly
    rw [List.all_eq_true]
    intro pa hpa; rw [he pa hpa]; rfl
  have h4 : Env.noPackageOnly ((p.path, readAnnotations cfg p) :: facts) = true := by
    unfold Env.noPackageOnly
    rw [List.all_eq_true]
    intro pa hpa; rw [he pa hpa]; rfl
  simp [analyze, checkImmutable, checkConstructor, checkTestOnly, checkPackageOnly, h1, h2, h3, h4]

/-- … and it exports no annotations either, so annotation-freedom propagates to its importers -/
theorem no_annotations_no_facts (cfg : Cfg) (facts : List (Name × Annotations)) (p : Pkg)
    (h : AnnotationFree cfg facts p) : (analyze cfg facts p).ann = {} := by
  simp [analyze, readAnnotations_empty cfg p h.1]

/-- a line that does not begin with the exact keyword does not begin with a keyword in the sense used above
    (bridge to C15's `near_miss_inert`) -/
theorem near_miss_inert (text : Bytes)
    (h : ∀ kw ∈ [kwImplements, kwConstructor, kwImmutable, kwTestonly, kwMutable, kwPackageonly],
      ¬ ∃ w1 w2 t, AllWs w1 ∧ AllWs w2 ∧ text = w1 ++ slashes ++ w2 ++ kw ++ t) :
    ¬ startsWithKeyword text := by
  rintro ⟨kw, hkw, t, ht⟩
  have hk : IsKw kw := by
    simp only [List.mem_cons, List.not_mem_nil, or_false] at hkw
    rcases hkw with rfl | rfl | rfl | rfl | rfl | rfl
    · exact C15.kw_implements
    · exact C15.kw_constructor
    · exact C15.kw_immutable
    · exact C15.kw_testonly
    · exact C15.kw_mutable
    · exact C15.kw_packageonly
  have := C15.near_miss_inert kw text hk (h kw hkw)
  rw [this] at ht; simp at ht

/-! ## Non-vacuity: near-miss lines are inert, a real annotation is not -/
example : ¬ startsWithKeyword (ascii "// see @immutable for details") := by
  rintro ⟨kw, hkw, t, ht⟩
  simp only [List.mem_cons, List.not_mem_nil, or_false] at hkw
  rcases hkw with rfl | rfl | rfl | rfl | rfl | rfl
  · have h : lead kwImplements (ascii "// see @immutable for details") = none := by decide
    rw [h] at ht; simp at ht
  · have h : lead kwConstructor (ascii "// see @immutable for details") = none := by decide
    rw [h] at ht; simp at ht
  · have h : lead kwImmutable (ascii "// see @immutable for details") = none := by decide
    rw [h] at ht; simp at ht
  · have h : lead kwTestonly (ascii "// see @immutable for details") = none := by decide
    rw [h] at ht; simp at ht
  · have h : lead kwMutable (ascii "// see @immutable for details") = none := by decide
    rw [h] at ht; simp at ht
  · have h : lead kwPackageonly (ascii "// see @immutable for details") = none := by decide
    rw [h] at ht; simp at ht
example : startsWithKeyword (ascii "// @immutable") := ⟨kwImmutable, by simp, [], by decide⟩

end GGV.Props.C09
