import GGV.Lemmas.Attach
import GGV.Lemmas.Dedup
import GGV.Props.C03
import GGV.Props.C04
import GGV.Props.C16
import GGV.Lemmas.RepositionIgnore
/-!
# C12 — Verdicts do not depend on source layout

What the model can carry of the layout transformations:
* the verdict of a declaration depends only on that declaration and on the indices (`immDecl`, `ctorDecl` take
  nothing else), so permuting the declarations of a file, or moving them between scanned files, permutes the
  diagnostics (`perm_decls`, `move_decl`);
* the indices depend only on the *set* of annotations, which is an order-free union over files, declarations
  and doc lines (`annotations_order_free`, `index_order_free`);
* for the once-per-file codes the set of reported keys is the set of keys with at least one unsuppressed use,
  whatever the order of the uses (`reported_keys_order_free`).
* blank lines, comments and gofmt change only where things are: a *re-layout* `ρ` maps byte offsets by a strictly
  increasing function (fixing the "no position" sentinel 0) and line numbers injectively. `relayout_invariant`:
  the annotations are unchanged and the diagnostics of the re-laid-out package are the images of the original
  diagnostics, same codes, same order — for all four walks, the @ignore reader (`ignoreOps_mapPos`), the suppression
  decision (`ignores_agree`) and the report-time filters together.
Renaming local variables changes no position and no identifier the model reads except a receiver name (which is
renamed consistently in declaration and use, `recvCtxOf`); that part stays tied by the metamorphic `layout` suite.
-/
namespace GGV.Props.C12
open GGV.Model GGV.Model.Prog

theorem flatMap_flatMap {α β γ} (l : List α) (f : α → List β) (g : β → List γ) :
    (l.flatMap f).flatMap g = l.flatMap (fun x => (f x).flatMap g) := by
  induction l with
  | nil => rfl
  | cons a r ih => simp [List.flatMap_cons, List.flatMap_append, ih]

/-- all declarations of the files a configuration selects -/
def scannedDecls (cfg : Cfg) (p : Pkg) : List Decl := (filesToScan cfg p).flatMap (·.decls)

theorem checkImmutable_decls (cfg : Cfg) (c : WalkCtx) (p : Pkg) :
    checkImmutable cfg c p = if c.env.noImmutable then [] else (scannedDecls cfg p).flatMap (immDecl c) := by
  unfold checkImmutable scannedDecls
  split
  · rfl
  · rw [flatMap_flatMap]

theorem checkConstructor_decls (cfg : Cfg) (c : WalkCtx) (p : Pkg) :
    checkConstructor cfg c p = if c.env.noConstructors then [] else (scannedDecls cfg p).flatMap (ctorDecl c) := by
  unfold checkConstructor scannedDecls
  split
  · rfl
  · rw [flatMap_flatMap]

/-- **reordering declarations / moving them between scanned files**: if the scanned declarations are a
    permutation, the IMM and CTOR diagnostics are a permutation (same statements, same codes) -/
theorem move_decl (cfg : Cfg) (c : WalkCtx) (p p' : Pkg) (h : (scannedDecls cfg p).Perm (scannedDecls cfg p')) :
    (checkImmutable cfg c p).Perm (checkImmutable cfg c p') ∧ (checkConstructor cfg c p).Perm (checkConstructor cfg c p') := by
  rw [checkImmutable_decls, checkImmutable_decls, checkConstructor_decls, checkConstructor_decls]
  constructor
  · split
    · exact List.Perm.refl _
    · exact List.Perm.flatMap_right _ h
  · split
    · exact List.Perm.refl _
    · exact List.Perm.flatMap_right _ h

/-- reordering the declarations of one file -/
theorem perm_decls (c : WalkCtx) (ds ds' : List Decl) (h : ds.Perm ds') :
    (ds.flatMap (immDecl c)).Perm (ds'.flatMap (immDecl c)) ∧ (ds.flatMap (ctorDecl c)).Perm (ds'.flatMap (ctorDecl c)) :=
  ⟨List.Perm.flatMap_right _ h, List.Perm.flatMap_right _ h⟩

/-- **the annotations of a package are an order-free union** over scanned files and their declarations -/
theorem annotations_order_free (cfg : Cfg) (p : Pkg) (x : Name) :
    x ∈ (readAnnotations cfg p).immutable ↔
      ∃ f ∈ filesToScan cfg p, ∃ d ∈ f.decls, x ∈ (annOfDeclTypes p.path d).immutable := by
  unfold readAnnotations
  rw [mem_concat_immutable]
  constructor
  · rintro ⟨a, ha, hx⟩
    simp only [List.mem_map] at ha
    obtain ⟨f, hf, rfl⟩ := ha
    unfold annOfFile at hx
    rw [append_immutable, List.mem_append, mem_concat_immutable, mem_concat_immutable] at hx
    rcases hx with ⟨a, ha, hxa⟩ | ⟨a, ha, hxa⟩
    · simp only [List.mem_map] at ha
      obtain ⟨d, hd, rfl⟩ := ha
      exact ⟨f, hf, d, hd, hxa⟩
    · simp only [List.mem_map] at ha
      obtain ⟨d, hd, rfl⟩ := ha
      exfalso
      unfold annOfDeclFuncs at hxa
      split at hxa
      · split at hxa
        · simp at hxa
        · rw [mem_concat_immutable] at hxa
          obtain ⟨b, hb, hxb⟩ := hxa
          simp only [List.mem_map] at hb
          obtain ⟨t, _, rfl⟩ := hb
          unfold annOfFuncLine at hxb
          split at hxb <;> simp at hxb
      · simp at hxa
  · rintro ⟨f, hf, d, hd, hx⟩
    refine ⟨annOfFile p.path f, List.mem_map.2 ⟨f, hf, rfl⟩, ?_⟩
    unfold annOfFile
    rw [append_immutable, List.mem_append, mem_concat_immutable]
    exact Or.inl ⟨_, List.mem_map.2 ⟨d, hd, rfl⟩, hx⟩

theorem any_perm {α} (p : α → Bool) {l l' : List α} (h : l.Perm l') : l.any p = l'.any p := by
  induction h with
  | nil => rfl
  | cons x _ ih => simp [List.any_cons, ih]
  | swap x y l => simp only [List.any_cons]; cases p x <;> cases p y <;> rfl
  | trans _ _ ih1 ih2 => rw [ih1, ih2]

/-- **the indices depend only on the set of (package, annotations) entries, not on their order** -/
theorem index_order_free (e e' : Env) (h : e.Perm e') (pkg ty f : Name) (k : AKind) (recv name x : Name) :
    e.isImmutable pkg ty = e'.isImmutable pkg ty ∧
    e.isMutableField pkg ty f = e'.isMutableField pkg ty f ∧
    e.testOnlyType pkg ty = e'.testOnlyType pkg ty ∧
    e.testOnlyFunc pkg f = e'.testOnlyFunc pkg f ∧
    e.testOnlyMethod pkg ty f = e'.testOnlyMethod pkg ty f ∧
    (x ∈ e.ctorNames pkg ty ↔ x ∈ e'.ctorNames pkg ty) ∧
    (x ∈ e.attachments pkg k recv name ↔ x ∈ e'.attachments pkg k recv name) := by
  refine ⟨any_perm _ h, any_perm _ h, any_perm _ h, any_perm _ h, any_perm _ h, ?_, ?_⟩
  · exact (List.Perm.flatMap_right _ h).mem_iff
  · exact (List.Perm.flatMap_right _ h).mem_iff

/-- **once-per-file codes**: which keys get reported does not depend on the order of the uses: a key is
    reported iff it has at least one unsuppressed use -/
theorem reported_keys_order_free {K : Type} [DecidableEq K] (sup : Diag → Bool) (evs : List (Ev K)) (k : K) :
    (∃ d, FirstUnsuppressed sup evs k d) ↔ (∃ d, Ev.keyed k d ∈ evs ∧ sup d = false) := by
  constructor
  · rintro ⟨d, a, b, e, h1, _⟩
    exact ⟨d, by rw [e]; simp, h1⟩
  · rintro ⟨d, hm, hs⟩
    induction evs with
    | nil => simp at hm
    | cons ev rest ih =>
      by_cases hhead : ∃ d0, ev = Ev.keyed k d0 ∧ sup d0 = false
      · obtain ⟨d0, rfl, h0⟩ := hhead
        exact ⟨d0, [], rest, rfl, h0, by simp⟩
      · have hm' : Ev.keyed k d ∈ rest := by
          simp only [List.mem_cons] at hm
          rcases hm with rfl | hm
          · exact absurd ⟨d, rfl, hs⟩ hhead
          · exact hm
        obtain ⟨d1, a, b, e, h1, h2⟩ := ih hm'
        refine ⟨d1, ev :: a, b, by simp [e], h1, ?_⟩
        intro d' hd'
        simp only [List.mem_cons] at hd'
        rcases hd' with rfl | hd'
        · cases hb : sup d' with
          | true => rfl
          | false => exact absurd ⟨d', rfl, hb⟩ hhead
        · exact h2 d' hd'

/-- … and the every-time codes (TONL02/03, PKGO02/03) are reported per use, independent of order -/
theorem plain_order_free {K : Type} [DecidableEq K] (sup : Diag → Bool) (evs evs' : List (Ev K)) (h : evs.Perm evs') (dg : Diag) :
    (Ev.plain dg ∈ evs ∧ sup dg = false) ↔ (Ev.plain dg ∈ evs' ∧ sup dg = false) := by
  rw [h.mem_iff]

/-! ## Non-vacuity -/
example : ([1, 2, 3] : List Nat).Perm [3, 1, 2] := by decide


/-! ## re-layout: blank lines, comments, gofmt -/

/-- strictly increasing position maps preserve "inside the range" -/
theorem suppressed_mapPos (ρ : Relay) (h : ρ.Monotone) (ops : List Op) (code : String) (pos : Int) :
    GGV.Props.C16.Suppressed hier (ops.map (Op.mapPos ρ.pos)) code (ρ.pos pos) ↔ GGV.Props.C16.Suppressed hier ops code pos := by
  unfold GGV.Props.C16.Suppressed
  constructor
  · rintro ⟨t, ht, hc | ⟨m, hm, hcm, h1, h2⟩⟩
    · obtain ⟨cs, hcs, htc⟩ := hc
      simp only [List.mem_map] at hcs
      obtain ⟨op, hop, e⟩ := hcs
      cases op with
      | add m => simp [Op.mapPos] at e
      | addModule cs' =>
        simp only [Op.mapPos, Op.addModule.injEq] at e
        subst e
        exact ⟨t, ht, Or.inl ⟨cs', hop, htc⟩⟩
    · simp only [List.mem_map] at hm
      obtain ⟨op, hop, e⟩ := hm
      cases op with
      | addModule cs' => simp [Op.mapPos] at e
      | add m0 =>
        simp only [Op.mapPos, Op.add.injEq] at e
        subst e
        exact ⟨t, ht, Or.inr ⟨m0, hop, hcm, (h.le_iff _ _).1 h1, (h.le_iff _ _).1 h2⟩⟩
  · rintro ⟨t, ht, hc | ⟨m, hm, hcm, h1, h2⟩⟩
    · obtain ⟨cs, hcs, htc⟩ := hc
      exact ⟨t, ht, Or.inl ⟨cs, List.mem_map.2 ⟨_, hcs, rfl⟩, htc⟩⟩
    · exact ⟨t, ht, Or.inr ⟨Marker.mapPos ρ.pos m, List.mem_map.2 ⟨_, hm, rfl⟩, hcm, (h.le_iff _ _).2 h1, (h.le_iff _ _).2 h2⟩⟩

/-- the ignore set built from the re-laid-out markers answers at `ρ.pos pos` what the original answers at `pos` -/
theorem ignores_agree (ρ : Relay) (h : ρ.Monotone) (ops : List Op) (hv : GGV.Props.C16.StartsValid ops) :
    IgnAgree ρ.pos (run ops) (run (ops.map (Op.mapPos ρ.pos))) := by
  intro code pos
  have hv' : GGV.Props.C16.StartsValid (ops.map (Op.mapPos ρ.pos)) := by
    intro m hm
    simp only [List.mem_map] at hm
    obtain ⟨op, hop, e⟩ := hm
    cases op with
    | addModule cs' => simp [Op.mapPos] at e
    | add m0 =>
      simp only [Op.mapPos, Op.add.injEq] at e
      subst e
      have h0 := hv m0 hop
      have := h.strict 0 m0.start (by omega)
      rw [h.zero] at this
      simp only [Marker.mapPos]
      omega
  rw [Bool.eq_iff_iff, GGV.Props.C16.contains_iff _ hv', GGV.Props.C16.contains_iff _ hv]
  exact suppressed_mapPos ρ h ops code pos

/-- **re-layout invariance** (blank lines, comments, gofmt): for a position map that keeps the order of tokens and a
    line map that keeps lines apart, the annotations read are the same and the diagnostics are the images of the
    original diagnostics — same codes, same statements, in the same order. -/
theorem relayout_invariant (ρ : Relay) (h : ρ.Monotone) (cfg : Cfg) (facts : List (Name × Annotations)) (p : Pkg)
    (hv : GGV.Props.C16.StartsValid (ignoreOps cfg p)) :
    (analyze cfg facts (p.mapPos ρ)).ann = (analyze cfg facts p).ann ∧
    (analyze cfg facts (p.mapPos ρ)).diags = (analyze cfg facts p).diags.map (Diag.mapPos ρ.pos) := by
  have hann := readAnnotations_mapPos ρ cfg p
  have hig : IgnAgree ρ.pos (readIgnores cfg p) (readIgnores cfg (p.mapPos ρ)) := by
    unfold readIgnores
    rw [ignoreOps_mapPos ρ h]
    exact ignores_agree ρ h _ hv
  refine ⟨hann, ?_⟩
  unfold analyze
  simp only [hann, Pkg.mapPos_path, List.map_append]
  have hname : (p.mapPos ρ).name = p.name := rfl
  rw [hname, checkImmutable_mapPos, checkConstructor_mapPos,
    checkTestOnly_mapPos ρ cfg _ _ _ hig, checkPackageOnly_mapPos ρ cfg _ _ _ hig,
    report_mapPos ρ _ _ hig, report_mapPos ρ _ _ hig]

/-- non-vacuity: inserting `k` bytes and `j` lines in front of everything (a leading comment block) is a re-layout -/
example (k j : Nat) : (⟨fun x => if x ≤ 0 then x else x + k, fun l => l + j⟩ : Relay).Monotone :=
  ⟨by intro a b hab; simp only; split <;> split <;> omega, by simp, by intro a b e; simp only at e; omega⟩

end GGV.Props.C12
