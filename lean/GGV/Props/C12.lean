import GGV.Lemmas.Attach
import GGV.Lemmas.Dedup
import GGV.Props.C03
import GGV.Props.C04
/-!
# C12 — Verdicts do not depend on source layout

What the model can carry of the layout transformations:
* the verdict of a declaration depends only on that declaration and on the indices (`immDecl`, `ctorDecl` take
  nothing else), so permuting the declarations of a file, or moving them between scanned files, permutes the
  diagnostics (`perm_decls`, `move_decl`);
* the indices depend only on the *set* of annotations, which is an order-free union over files, declarations
  and doc lines (`annotations_order_free`, `index_order_free`);
* for the once-per-file codes the set of reported keys is the set of keys with at least one unsuppressed use,
  whatever the order of the uses (`reported_keys_order_free`).
Blank lines, comments, gofmt and local renaming change only positions and local identifiers; the model reads
positions only through comparisons and no local identifier except the receiver name — tied by the metamorphic
`layout` suite (real analyzers on layout variants of the same program), not proved here.
-/
namespace GGV.Props.C12
open GGV.Model GGV.Model.Prog

theorem flatMap_flatMap {α β γ} (l : List α) (f : α → List β) (g : β → List γ) :
    (l.flatMap f).flatMap g = l.flatMap (fun x => (f x).flatMap g) := by
  induction l with
  | nil => rfl
  | cons a r ih => simp [List.flatMap_cons, List.flatMap_append, ih]

/-- all declarations of the files a configuration selects -/
def scannedDecls (cfg : Cfg) (p : Pkg) : List Decl := (filesToScan cfg p).flatMap (·.decls)

theorem checkImmutable_decls (cfg : Cfg) (c : WalkCtx) (p : Pkg) :
    checkImmutable cfg c p = if c.env.noImmutable then [] else (scannedDecls cfg p).flatMap (immDecl c) := by
  unfold checkImmutable scannedDecls
  split
  · rfl
  · rw [flatMap_flatMap]

theorem checkConstructor_decls (cfg : Cfg) (c : WalkCtx) (p : Pkg) :
    checkConstructor cfg c p = if c.env.noConstructors then [] else (scannedDecls cfg p).flatMap (ctorDecl c) := by
  unfold checkConstructor scannedDecls
  split
  · rfl
  · rw [flatMap_flatMap]

/-- **reordering declarations / moving them between scanned files**: if the scanned declarations are a
    permutation, the IMM and CTOR diagnostics are a permutation (same statements, same codes) -/
theorem move_decl (cfg : Cfg) (c : WalkCtx) (p p' : Pkg) (h : (scannedDecls cfg p).Perm (scannedDecls cfg p')) :
    (checkImmutable cfg c p).Perm (checkImmutable cfg c p') ∧ (checkConstructor cfg c p).Perm (checkConstructor cfg c p') := by
  rw [checkImmutable_decls, checkImmutable_decls, checkConstructor_decls, checkConstructor_decls]
  constructor
  · split
    · exact List.Perm.refl _
    · exact List.Perm.flatMap_right _ h
  · split
    · exact List.Perm.refl _
    · exact List.Perm.flatMap_right _ h

/-- reordering the declarations of one file -/
theorem perm_decls (c : WalkCtx) (ds ds' : List Decl) (h : ds.Perm ds') :
    (ds.flatMap (immDecl c)).Perm (ds'.flatMap (immDecl c)) ∧ (ds.flatMap (ctorDecl c)).Perm (ds'.flatMap (ctorDecl c)) :=
  ⟨List.Perm.flatMap_right _ h, List.Perm.flatMap_right _ h⟩

/-- **the annotations of a package are an order-free union** over scanned files and their declarations -/
theorem annotations_order_free (cfg : Cfg) (p : Pkg) (x : Name) :
    x ∈ (readAnnotations cfg p).immutable ↔
      ∃ f ∈ filesToScan cfg p, ∃ d ∈ f.decls, x ∈ (annOfDeclTypes p.path d).immutable := by
  unfold readAnnotations
  rw [mem_concat_immutable]
  constructor
  · rintro ⟨a, ha, hx⟩
    simp only [List.mem_map] at ha
    obtain ⟨f, hf, rfl⟩ := ha
    unfold annOfFile at hx
    rw [append_immutable, List.mem_append, mem_concat_immutable, mem_concat_immutable] at hx
    rcases hx with ⟨a, ha, hxa⟩ | ⟨a, ha, hxa⟩
    · simp only [List.mem_map] at ha
      obtain ⟨d, hd, rfl⟩ := ha
      exact ⟨f, hf, d, hd, hxa⟩
    · simp only [List.mem_map] at ha
      obtain ⟨d, hd, rfl⟩ := ha
      exfalso
      unfold annOfDeclFuncs at hxa
      split at hxa
      · split at hxa
        · simp at hxa
        · rw [mem_concat_immutable] at hxa
          obtain ⟨b, hb, hxb⟩ := hxa
          simp only [List.mem_map] at hb
          obtain ⟨t, _, rfl⟩ := hb
          unfold annOfFuncLine at hxb
          split at hxb <;> simp at hxb
      · simp at hxa
  · rintro ⟨f, hf, d, hd, hx⟩
    refine ⟨annOfFile p.path f, List.mem_map.2 ⟨f, hf, rfl⟩, ?_⟩
    unfold annOfFile
    rw [append_immutable, List.mem_append, mem_concat_immutable]
    exact Or.inl ⟨_, List.mem_map.2 ⟨d, hd, rfl⟩, hx⟩

theorem any_perm {α} (p : α → Bool) {l l' : List α} (h : l.Perm l') : l.any p = l'.any p := by
  induction h with
  | nil => rfl
  | cons x _ ih => simp [List.any_cons, ih]
  | swap x y l => simp only [List.any_cons]; cases p x <;> cases p y <;> rfl
  | trans _ _ ih1 ih2 => rw [ih1, ih2]

/-- **the indices depend only on the set of (package, annotations) entries, not on their order** -/
theorem index_order_free (e e' : Env) (h : e.Perm e') (pkg ty f : Name) (k : AKind) (recv name x : Name) :
    e.isImmutable pkg ty = e'.isImmutable pkg ty ∧
    e.isMutableField pkg ty f = e'.isMutableField pkg ty f ∧
    e.testOnlyType pkg ty = e'.testOnlyType pkg ty ∧
    e.testOnlyFunc pkg f = e'.testOnlyFunc pkg f ∧
    e.testOnlyMethod pkg ty f = e'.testOnlyMethod pkg ty f ∧
    (x ∈ e.ctorNames pkg ty ↔ x ∈ e'.ctorNames pkg ty) ∧
    (x ∈ e.attachments pkg k recv name ↔ x ∈ e'.attachments pkg k recv name) := by
  refine ⟨any_perm _ h, any_perm _ h, any_perm _ h, any_perm _ h, any_perm _ h, ?_, ?_⟩
  · exact (List.Perm.flatMap_right _ h).mem_iff
  · exact (List.Perm.flatMap_right _ h).mem_iff

/-- **once-per-file codes**: which keys get reported does not depend on the order of the uses: a key is
    reported iff it has at least one unsuppressed use -/
theorem reported_keys_order_free {K : Type} [DecidableEq K] (sup : Diag → Bool) (evs : List (Ev K)) (k : K) :
    (∃ d, FirstUnsuppressed sup evs k d) ↔ (∃ d, Ev.keyed k d ∈ evs ∧ sup d = false) := by
  constructor
  · rintro ⟨d, a, b, e, h1, _⟩
    exact ⟨d, by rw [e]; simp, h1⟩
  · rintro ⟨d, hm, hs⟩
    induction evs with
    | nil => simp at hm
    | cons ev rest ih =>
      by_cases hhead : ∃ d0, ev = Ev.keyed k d0 ∧ sup d0 = false
      · obtain ⟨d0, rfl, h0⟩ := hhead
        exact ⟨d0, [], rest, rfl, h0, by simp⟩
      · have hm' : Ev.keyed k d ∈ rest := by
          simp only [List.mem_cons] at hm
          rcases hm with rfl | hm
          · exact absurd ⟨d, rfl, hs⟩ hhead
          · exact hm
        obtain ⟨d1, a, b, e, h1, h2⟩ := ih hm'
        refine ⟨d1, ev :: a, b, by simp [e], h1, ?_⟩
        intro d' hd'
        simp only [List.mem_cons] at hd'
        rcases hd' with rfl | hd'
        · cases hb : sup d' with
          | true => rfl
          | false => exact absurd ⟨d', rfl, hb⟩ hhead
        · exact h2 d' hd'

/-- … and the every-time codes (TONL02/03, PKGO02/03) are reported per use, independent of order -/
theorem plain_order_free {K : Type} [DecidableEq K] (sup : Diag → Bool) (evs evs' : List (Ev K)) (h : evs.Perm evs') (dg : Diag) :
    (Ev.plain dg ∈ evs ∧ sup dg = false) ↔ (Ev.plain dg ∈ evs' ∧ sup dg = false) := by
  rw [h.mem_iff]

/-! ## Non-vacuity -/
example : ([1, 2, 3] : List Nat).Perm [3, 1, 2] := by decide

end GGV.Props.C12
