import GGV.Model.Excerpt
/-!
# C19 — Rendered excerpt shows the right line; the caret marks the reported column

All statements are for every byte string `s` (any length, tabs and multi-byte sequences are just
bytes), every display limit `M ≥ 4` (instantiated at the regenerated `Gen.maxLineLength`), every column.
-/
namespace GGV.Props.C19
open GGV.Model

theorem clampPos0_bounds (len : Nat) (pos : Int) (h : 0 < len) :
    0 ≤ clampPos0 len pos ∧ clampPos0 len pos ≤ (len : Int) - 1 := by
  unfold clampPos0
  by_cases h1 : pos - 1 < 0
  · simp only [h1, if_true]; omega
  · by_cases h2 : pos - 1 ≥ len
    · simp only [h1, h2, if_true, if_false]; omega
    · simp only [h1, h2, if_false]; omega

/-- no slice expression of `truncateString` is ever out of range: the Go function cannot panic -/
theorem truncateG_total (s : Bytes) (M : Nat) (pos : Int) :
    truncateG s M pos = some (truncate s M pos) := by
  unfold truncateG truncate
  by_cases hs : s.length ≤ M
  · simp [hs]
  · simp only [hs, if_false]
    by_cases hM : M ≤ 3
    · simp only [hM, if_true]
      unfold slice?
      rw [if_pos (by omega)]
      simp
    · simp only [hM, if_false]
      have hc := clampPos0_bounds s.length pos (by omega)
      generalize clampPos0 s.length pos = p0 at hc ⊢
      by_cases r1 : p0 < (M : Int) - 3
      · simp only [r1, if_true]
        unfold slice?
        rw [if_pos (by omega)]
        have e : ((M : Int) - 3).toNat - 0 = M - 3 := by omega
        simp only [Option.map_some, Int.toNat_zero, List.drop_zero]
        rw [e]
      · simp only [r1, if_false]
        by_cases r2 : p0 ≥ (s.length : Int) - M + 3
        · simp only [r2, if_true]
          unfold slice?
          rw [if_pos (by omega)]
          have h1 : ((s.length : Int) - M + 3).toNat = s.length - M + 3 := by omega
          have h2 : ((s.length : Int)).toNat - (s.length - M + 3) = (s.drop (s.length - M + 3)).length := by
            simp only [List.length_drop]; omega
          simp only [Option.map_some, h1, h2, List.take_length]
        · simp only [r2, if_false]
          unfold slice?
          have hY : (if p0 - ((M:Int) - 3) / 2 < 0 then 0 else p0 - ((M:Int) - 3) / 2).toNat
              = (p0 - (((M - 3) / 2 : Nat) : Int)).toNat := by split <;> omega
          have hX : (if p0 + ((M:Int) - 3 - ((M:Int) - 3) / 2) > (s.length : Int) then (s.length : Int)
                else p0 + ((M:Int) - 3 - ((M:Int) - 3) / 2)).toNat
              = min (p0 + ((M - 3 - (M - 3) / 2 : Nat) : Int)).toNat s.length := by split <;> omega
          rw [if_pos (by refine ⟨?_, ?_, ?_⟩ <;> (repeat' split) <;> omega)]
          simp only [Option.map_some, hX, hY]

/-- **the caret stands under the character at the reported column**, also after truncation -/
theorem caret_under_char (s : Bytes) (M : Nat) (col : Nat) (hM : 4 ≤ M)
    (h1 : 1 ≤ col) (h2 : col ≤ s.length) :
    (truncate s M col)[(displayCol s col M - 1).toNat]? = s[col - 1]? := by
  unfold truncate displayCol clampPos0
  by_cases hs : s.length ≤ M
  · simp [hs]
  · have hM3 : ¬ M ≤ 3 := by omega
    have hneg : ¬ ((col : Int) - 1 < 0) := by omega
    have hge : ¬ ((col : Int) - 1 ≥ s.length) := by omega
    simp only [hs, hM3, hneg, hge, if_false]
    by_cases r1 : ((col : Int) - 1 < (M:Int) - 3)
    · simp only [r1, if_true]
      rw [show ((col : Int) - 1).toNat = col - 1 by omega]
      rw [List.getElem?_append_left (by simp; omega)]
      simp [List.getElem?_take]; omega
    · simp only [r1, if_false]
      by_cases r2 : ((col : Int) - 1 ≥ (s.length : Int) - M + 3)
      · simp only [r2, if_true]
        rw [List.getElem?_append_right (by simp [dots]; omega)]
        simp [dots, List.getElem?_drop]
        congr 1; omega
      · simp only [r2, if_false]
        rw [List.append_assoc, List.getElem?_append_right (by simp [dots]; omega)]
        rw [List.getElem?_append_left (by simp [dots]; omega)]
        simp [dots, List.getElem?_take, List.getElem?_drop]
        rw [if_pos (by omega)]
        congr 1; omega

/-- the display column stays inside the rendered line -/
theorem displayCol_bounds (s : Bytes) (M : Nat) (col : Nat) (hM : 4 ≤ M)
    (h1 : 1 ≤ col) (h2 : col ≤ s.length) :
    1 ≤ displayCol s col M ∧ displayCol s col M ≤ (truncate s M col).length := by
  have h := caret_under_char s M col hM h1 h2
  have hs : s[col - 1]? ≠ none := by simp; omega
  rw [← h] at hs
  have hlt : (displayCol s col M - 1).toNat < (truncate s M col).length := by
    rcases Nat.lt_or_ge (displayCol s col M - 1).toNat (truncate s M col).length with h' | h'
    · exact h'
    · exact absurd (List.getElem?_eq_none h') hs
  have hpos : 1 ≤ displayCol s col M := by
    unfold displayCol
    simp only []
    repeat' split
    all_goals omega
  constructor
  · exact hpos
  · omega

/-- an excerpt line is never longer than the display limit plus the two ellipsis markers -/
theorem truncate_len_le (s : Bytes) (M : Nat) (pos : Int) : (truncate s M pos).length ≤ M + 3 := by
  unfold truncate
  simp only []
  repeat' split
  all_goals (try simp only [dots, List.length_append, List.length_take, List.length_drop, List.length_cons, List.length_nil])
  all_goals omega

/-- the three regimes in detail: only the middle regime carries two ellipses -/
theorem truncate_len_exact (s : Bytes) (M : Nat) (pos : Int) (hM : 4 ≤ M) (hs : M < s.length) :
    (truncate s M pos).length = M ∨ (truncate s M pos).length = M + 3 := by
  unfold truncate
  have hc := clampPos0_bounds s.length pos (by omega)
  generalize clampPos0 s.length pos = p0 at hc ⊢
  rw [if_neg (by omega), if_neg (by omega)]
  simp only
  by_cases r1 : p0 < (M : Int) - 3
  · left; simp [r1, dots]; omega
  · by_cases r2 : p0 ≥ (s.length : Int) - M + 3
    · left; simp [r1, r2, dots]; omega
    · right; simp [r1, r2, dots]; omega

/-- short lines are shown unchanged and the caret column is the reported column -/
theorem truncate_short (s : Bytes) (M : Nat) (pos : Int) (h : s.length ≤ M) :
    truncate s M pos = s ∧ displayCol s pos M = pos := by
  simp [truncate, displayCol, h]

/-- the caret prefix has one byte per column before the caret … -/
theorem caret_prefix_len (t : Bytes) (d : Int) : (caretPrefix t d).length = (d - 1).toNat := by
  simp [caretPrefix]

/-- … and that byte is a tab exactly where the rendered line has a tab (same visual width under any tab stop) -/
theorem caret_prefix_tabs (t : Bytes) (d : Int) (j : Nat) (hj : j < (d - 1).toNat) :
    (caretPrefix t d)[j]? = some (if t[j]? = some 9 then 9 else 32) := by
  unfold caretPrefix
  rw [List.getElem?_map, List.getElem?_range hj]
  rfl

/-- every excerpt line is the source line with the number shown next to it, inside the context window -/
theorem window_sound (lines : List Bytes) (L : Int) (b a : Nat) (n : Nat) (t : Bytes)
    (h : (n, t) ∈ window lines L b a) :
    1 ≤ n ∧ lines[n - 1]? = some t ∧ L - b ≤ n ∧ (n : Int) ≤ L + a := by
  unfold window at h
  by_cases hne : lines = []
  · simp [hne] at h
  · simp only [hne, if_false] at h
    by_cases c1 : L - b - 1 < 0 <;> by_cases c2 : L + a - 1 ≥ lines.length <;>
      simp only [c1, c2, if_true, if_false] at h <;>
      (split at h
       · simp at h
       · simp only [List.mem_filterMap, List.mem_range, Option.map_eq_some_iff] at h
         obtain ⟨k, hk, t', ht', heq⟩ := h
         simp only [Prod.mk.injEq] at heq
         obtain ⟨rfl, rfl⟩ := heq
         obtain ⟨hlt, _⟩ := List.getElem?_eq_some_iff.1 ht'
         refine ⟨by omega, by simpa using ht', by omega, by omega⟩)

/-- every line of the clamped window `max 1 (L-b) .. min |lines| (L+a)` is shown -/
theorem window_complete (lines : List Bytes) (L : Int) (b a : Nat) (n : Nat)
    (h1 : 1 ≤ n) (h2 : n ≤ lines.length) (h3 : L - b ≤ n) (h4 : (n : Int) ≤ L + a) :
    ∃ t, (n, t) ∈ window lines L b a ∧ lines[n - 1]? = some t := by
  have hne : lines ≠ [] := by intro e; simp [e] at h2; omega
  have hlt : n - 1 < lines.length := by omega
  refine ⟨lines[n - 1], ?_, by simp [List.getElem?_eq_getElem hlt]⟩
  unfold window
  rw [if_neg hne]
  simp only
  rw [if_neg (by split <;> omega)]
  simp only [List.mem_filterMap, List.mem_range, Option.map_eq_some_iff]
  by_cases hst : L - b - 1 < 0
  · refine ⟨n - 1, ?_, lines[n - 1], ?_, ?_⟩
    · simp only [hst, if_true]; split <;> omega
    · simp [hst, List.getElem?_eq_getElem hlt]
    · simp [hst]; omega
  · refine ⟨n - 1 - (L - b - 1).toNat, ?_, lines[n - 1], ?_, ?_⟩
    · simp only [hst, if_false]; split <;> omega
    · simp only [hst, if_false]
      rw [show (L - b - 1).toNat + (n - 1 - (L - b - 1).toNat) = n - 1 by omega]
      simp [List.getElem?_eq_getElem hlt]
    · simp only [hst, if_false, Prod.mk.injEq, and_true]; omega

/-- the line numbered like the diagnostic is in the excerpt exactly when the file has such a line -/
theorem window_has_reported_line (lines : List Bytes) (L : Nat) (b a : Nat) :
    (∃ t, (L, t) ∈ window lines L b a) ↔ (1 ≤ L ∧ L ≤ lines.length) := by
  constructor
  · rintro ⟨t, h⟩
    obtain ⟨h1, h2, _, _⟩ := window_sound lines L b a L t h
    refine ⟨h1, ?_⟩
    rcases Nat.lt_or_ge (L - 1) lines.length with h' | h'
    · omega
    · simp [List.getElem?_eq_none h'] at h2
  · rintro ⟨h1, h2⟩
    obtain ⟨t, ht, _⟩ := window_complete lines L b a L h1 h2 (by omega) (by omega)
    exact ⟨t, ht⟩

/-- unreadable file, empty file, or a position beyond the end of the file: the message degrades to its
    header line and the documentation link (no excerpt, no failure) -/
theorem no_excerpt (M b a : Nat) (url code msg : Bytes) (lines : List Bytes) (L C : Int)
    (h : lines = [] ∨ (lines.length : Int) ≤ L - b - 1) :
    render M b a url code msg lines L C
      = str "error: [" ++ code ++ str "] " ++ msg ++ [10] ++ str "   = help: " ++ url ++ [10] := by
  have hw : window lines L b a = [] := by
    unfold window
    rcases h with h | h
    · simp [h]
    · by_cases he : lines = []
      · simp [he]
      · simp only [he, if_false]
        rw [if_pos (by split <;> omega)]
  simp [render, hw]

/-- **every message ends with the documentation link**, whether or not there is an excerpt -/
theorem render_help_link (M b a : Nat) (url code msg : Bytes) (lines : List Bytes) (L C : Int) :
    ∃ pre, render M b a url code msg lines L C = pre ++ str "   = help: " ++ url ++ [10] := by
  unfold render
  simp only
  split
  · exact ⟨str "error: [" ++ code ++ str "] " ++ msg ++ [10], by simp only [List.append_assoc]⟩
  · exact ⟨_, rfl⟩

/-- every message begins with `error: [CODE] ` followed by the violation's own text -/
theorem render_header (M b a : Nat) (url code msg : Bytes) (lines : List Bytes) (L C : Int) :
    ∃ rest, render M b a url code msg lines L C = str "error: [" ++ code ++ str "] " ++ msg ++ [10] ++ rest := by
  unfold render
  simp only
  split
  · exact ⟨_, by simp only [List.append_assoc]; rfl⟩
  · exact ⟨_, by simp only [List.append_assoc]; rfl⟩

/-! ## Instantiation at the constants regenerated from /repo (T5) -/

theorem maxLineLength_ge_4 : 4 ≤ GGV.Gen.maxLineLength := by decide

theorem context_is_2_1 : GGV.Gen.contextBefore = 2 ∧ GGV.Gen.contextAfter = 1 := by decide

theorem caret_under_char_repo (s : Bytes) (col : Nat) (h1 : 1 ≤ col) (h2 : col ≤ s.length) :
    (truncate s GGV.Gen.maxLineLength col)[(displayCol s col GGV.Gen.maxLineLength - 1).toNat]? = s[col - 1]? :=
  caret_under_char s _ col maxLineLength_ge_4 h1 h2

/-! ## Non-vacuity and the repaired defect -/

/-- the F5 witness scaled down (limit 8, 12-byte line, column M-2 = 6): with the repaired `<` the caret is under byte 6 -/
example : (truncate [1,2,3,4,5,6,7,8,9,10,11,12] 8 6)[(displayCol [1,2,3,4,5,6,7,8,9,10,11,12] 6 8 - 1).toNat]?
    = some 6 := by decide

end GGV.Props.C19

namespace GGV.Props.C19
open GGV.Model

/-! ## the gutter: every numbered row and the caret row start the text at the same column -/

theorem natDigits_length (n : Nat) :
    (natDigits n).length = if n < 10 then 1 else (natDigits (n / 10)).length + 1 := by
  rw [natDigits]
  split <;> simp

theorem natDigits_length_pos (n : Nat) : 1 ≤ (natDigits n).length := by
  rw [natDigits_length]; split <;> omega

/-- more digits are never needed for a smaller number -/
theorem natDigits_length_mono : ∀ (m n : Nat), n ≤ m → (natDigits n).length ≤ (natDigits m).length := by
  intro m
  induction m using Nat.strongRecOn with
  | _ m ih =>
    intro n hnm
    rw [natDigits_length n, natDigits_length m]
    by_cases hn : n < 10
    · simp only [hn, if_true]
      split
      · omega
      · have := natDigits_length_pos (m / 10); omega
    · have hm : ¬ m < 10 := by omega
      simp only [hn, hm, if_false]
      have := ih (m / 10) (by omega) (n / 10) (Nat.div_le_div_right hnm)
      omega

theorem le_foldl_max (l : List (Nat × Bytes)) (init : Nat) :
    init ≤ l.foldl (fun m p => max m p.1) init ∧ ∀ p ∈ l, p.1 ≤ l.foldl (fun m p => max m p.1) init := by
  induction l generalizing init with
  | nil => simp
  | cons a r ih =>
    simp only [List.foldl_cons]
    obtain ⟨h1, h2⟩ := ih (max init a.1)
    refine ⟨by omega, ?_⟩
    intro p hp
    simp only [List.mem_cons] at hp
    rcases hp with rfl | hp
    · omega
    · exact h2 p hp

/-- **gutter alignment**: with `w` the digit count of the largest line number of the excerpt, every numbered row
    `%*d | ` and the caret row `spaces | ` put the line's text at the same offset `w + 3` — so the caret, which stands
    `displayCol - 1` places into its row's text, is under byte `displayCol - 1` of the reported row's text
    (`caret_under_char`), whatever the line numbers (9 vs 10, 99 vs 100, …) -/
theorem gutter_aligned (win : List (Nat × Bytes)) (p : Nat × Bytes) (hp : p ∈ win) :
    let w := (natDigits (win.foldl (fun m q => max m q.1) 0)).length
    (padNum w p.1 ++ str " | ").length = (spaces w ++ str " | ").length := by
  intro w
  have hle : p.1 ≤ win.foldl (fun m q => max m q.1) 0 := (le_foldl_max win 0).2 p hp
  have hd : (natDigits p.1).length ≤ w := natDigits_length_mono _ _ hle
  simp only [padNum, spaces, List.length_append, List.length_replicate]
  omega

end GGV.Props.C19
