import GGV.Lemmas.IgnoreSet
/-!
# C16 — Suppression decision = inclusive range + ALL > category > code, nothing more

Property theorems only. `Suppressed` speaks about the *history* of add operations, not about the
indexed state, so the theorems cover every order and every length of history.
-/
namespace GGV.Props.C16
open GGV.Model

/-- the specification: some token of the code's hierarchy is global, or has a range containing `pos` -/
def Suppressed (hier : String → List String) (ops : List Op) (code : String) (pos : Int) : Prop :=
  ∃ t ∈ hier code,
    (∃ cs, Op.addModule cs ∈ ops ∧ t ∈ cs) ∨
    (∃ m, Op.add m ∈ ops ∧ t ∈ m.codes ∧ m.start ≤ pos ∧ pos ≤ m.stop)

/-- real positions are ≥ 1 (`token.NoPos = 0` is the "no position" sentinel) -/
def StartsValid (ops : List Op) : Prop := ∀ m, Op.add m ∈ ops → 1 ≤ m.start

/-- **C16 main theorem** (any hierarchy function): the indexed structure decides exactly `Suppressed`. -/
theorem contains_iffH (hier : String → List String) (ops : List Op) (hpos : StartsValid ops)
    (code : String) (pos : Int) :
    (run ops).containsH hier code pos = true ↔ Suppressed hier ops code pos := by
  have hms : ∀ m ∈ markersOf ops, 1 ≤ m.start := fun m hm => hpos m (mem_markersOf.1 hm)
  rw [contains_iff_of_inv hier (inv_run ops hpos) hms code pos]
  unfold Suppressed
  constructor
  · rintro ⟨t, ht, h | ⟨m, hm, h⟩⟩
    · exact ⟨t, ht, Or.inl (mem_modsOf.1 h)⟩
    · exact ⟨t, ht, Or.inr ⟨m, mem_markersOf.1 hm, h⟩⟩
  · rintro ⟨t, ht, h | ⟨m, hm, h⟩⟩
    · exact ⟨t, ht, Or.inl (mem_modsOf.2 h)⟩
    · exact ⟨t, ht, Or.inr ⟨m, mem_markersOf.2 hm, h⟩⟩

/-- **C16 main theorem** at the code table regenerated from /repo. -/
theorem contains_iff (ops : List Op) (hpos : StartsValid ops) (code : String) (pos : Int) :
    (run ops).contains code pos = true ↔ Suppressed hier ops code pos :=
  contains_iffH hier ops hpos code pos

/-- order independence: any permutation of the history gives the same answers -/
theorem contains_perm (ops ops' : List Op) (hp : ops.Perm ops') (hpos : StartsValid ops)
    (code : String) (pos : Int) :
    (run ops).contains code pos = (run ops').contains code pos := by
  have hpos' : StartsValid ops' := fun m hm => hpos m (hp.mem_iff.2 hm)
  have h1 := contains_iff ops hpos code pos
  have h2 := contains_iff ops' hpos' code pos
  have hs : Suppressed hier ops code pos ↔ Suppressed hier ops' code pos := by
    unfold Suppressed
    constructor
    · rintro ⟨t, ht, ⟨cs, hc, h⟩ | ⟨m, hm, h⟩⟩
      · exact ⟨t, ht, Or.inl ⟨cs, hp.mem_iff.1 hc, h⟩⟩
      · exact ⟨t, ht, Or.inr ⟨m, hp.mem_iff.1 hm, h⟩⟩
    · rintro ⟨t, ht, ⟨cs, hc, h⟩ | ⟨m, hm, h⟩⟩
      · exact ⟨t, ht, Or.inl ⟨cs, hp.mem_iff.2 hc, h⟩⟩
      · exact ⟨t, ht, Or.inr ⟨m, hp.mem_iff.2 hm, h⟩⟩
  cases hb : (run ops).contains code pos <;> cases hb' : (run ops').contains code pos <;> simp_all

/-- the zero value (uninitialised) and the empty history never suppress -/
theorem contains_empty (code : String) (pos : Int) :
    ({} : ISet).contains code pos = false ∧ (run []).contains code pos = false ∧
    containsOpt none code pos = false := by
  refine ⟨rfl, rfl, rfl⟩

/-- tokens outside the code's hierarchy, and ranges not containing `pos`, never suppress -/
theorem other_tokens_never (ops : List Op) (hpos : StartsValid ops) (code : String) (pos : Int)
    (hmod : ∀ cs, Op.addModule cs ∈ ops → ∀ t ∈ cs, t ∉ hier code)
    (hadd : ∀ m, Op.add m ∈ ops → (∀ t ∈ m.codes, t ∉ hier code) ∨ pos < m.start ∨ m.stop < pos) :
    (run ops).contains code pos = false := by
  cases hb : (run ops).contains code pos
  · rfl
  · exfalso
    obtain ⟨t, ht, ⟨cs, hc, h⟩ | ⟨m, hm, htc, h1, h2⟩⟩ := (contains_iff ops hpos code pos).1 hb
    · exact hmod cs hc t h ht
    · rcases hadd m hm with h | h | h
      · exact h t htc ht
      · omega
      · omega

/-! ## The hierarchy over the regenerated table (T1) -/

/-- every listed code has the three-level hierarchy `ALL > its category > itself` -/
theorem hier_table :
    GGV.Gen.codesByCategory.all (fun e => e.2.all (fun c => hier c.1 == ["ALL", e.1, c.1])) = true := by
  decide

/-- a bare category (and ALL itself) has the two-level hierarchy -/
theorem hier_category :
    GGV.Gen.codesByCategory.all (fun e => hier e.1 == ["ALL", e.1]) = true ∧ hier "ALL" = ["ALL", "ALL"] := by
  decide

/-- codes are pairwise distinct, categories are pairwise distinct, and no category is a code:
    each code belongs to exactly one category, so `hier` does not depend on Go's map iteration order -/
theorem code_one_category :
    (allCodes GGV.Gen.codesByCategory).Nodup ∧ (allCategories GGV.Gen.codesByCategory).Nodup ∧
    (allCategories GGV.Gen.codesByCategory).all (fun k => !(allCodes GGV.Gen.codesByCategory).contains k) = true := by
  decide

/-- any string that is not a listed code: hierarchy `ALL > itself` (unknown codes, categories) -/
theorem hier_unknown (code : String) (h : categoryOf GGV.Gen.codesByCategory code = none) :
    hier code = ["ALL", code] := by
  simp [hier, hierOf, h]

/-! ## The `1 ≤ start` hypothesis is forced: position 0 is conflated with "no position" -/

def suppressedB (hier : String → List String) (ops : List Op) (code : String) (pos : Int) : Bool :=
  (hier code).any fun t => ops.any fun
    | .addModule cs => cs.contains t
    | .add m => m.codes.contains t && decide (m.start ≤ pos) && decide (pos ≤ m.stop)

theorem suppressedB_iff (hier : String → List String) (ops : List Op) (code : String) (pos : Int) :
    suppressedB hier ops code pos = true ↔ Suppressed hier ops code pos := by
  unfold suppressedB Suppressed
  simp only [List.any_eq_true]
  constructor
  · rintro ⟨t, ht, op, hop, h⟩
    refine ⟨t, ht, ?_⟩
    cases op with
    | addModule cs => exact Or.inl ⟨cs, hop, by simpa using h⟩
    | add m =>
      simp only [Bool.and_eq_true, decide_eq_true_eq, List.contains_iff_mem] at h
      exact Or.inr ⟨m, hop, h.1.1, h.1.2, h.2⟩
  · rintro ⟨t, ht, ⟨cs, hc, h⟩ | ⟨m, hm, h1, h2, h3⟩⟩
    · exact ⟨t, ht, _, hc, by simpa using h⟩
    · exact ⟨t, ht, _, hm, by simp [h1, h2, h3]⟩

/-- With a marker starting at position 0 the structure is wrong: `Add [0,2]; Add [3,4]; Contains IMM01 1`.
    (Outside the property's quantifier — ranges lie inside 1..5 and real `token.Pos` are ≥ 1 —
    so this is a stated boundary of the theorem, not a finding.) -/
theorem start_hypothesis_forced :
    ∃ ops code pos, (run ops).contains code pos ≠ suppressedB hier ops code pos := by
  refine ⟨[.add ⟨["IMM01"], 0, 2⟩, .add ⟨["IMM01"], 3, 4⟩], "IMM01", 1, ?_⟩
  decide

/-! ## Non-vacuity: a concrete history meeting the hypotheses, suppressed and not suppressed -/
example : StartsValid [.add ⟨["IMM"], 2, 4⟩, .addModule ["CTOR01"]] := by
  intro m hm; simp at hm; subst hm; decide
example : (run [.add ⟨["IMM"], 2, 4⟩, .addModule ["CTOR01"]]).contains "IMM01" 3 = true := by decide
example : (run [.add ⟨["IMM"], 2, 4⟩, .addModule ["CTOR01"]]).contains "IMM01" 5 = false := by decide
example : (run [.add ⟨["IMM"], 2, 4⟩, .addModule ["CTOR01"]]).contains "CTOR01" 9 = true := by decide
example : (run [.add ⟨["IMM"], 2, 4⟩, .addModule ["CTOR01"]]).contains "CTOR02" 3 = false := by decide

end GGV.Props.C16
