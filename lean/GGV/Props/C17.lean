import GGV.Props.C16
import GGV.Props.C19
import GGV.Props.C14
import GGV.Props.C07
/-!
# C17 — Every diagnostic is well-formed, documented, suppressible by the code it shows

Table facts are decided over the tables regenerated from /repo on every run (T1 code table, T2 documentation
URLs + book pages, T3 codes referenced per checker package, T8 documented table of the book).
-/
namespace GGV.Props.C17
open GGV.Model GGV.Model.Prog

/-- the 16 codes the checkers can emit are exactly the documented table of the book, in the same order -/
theorem codes_documented : allCodes GGV.Gen.codesByCategory = GGV.Gen.documentedCodes.map (·.1) := by decide

/-- the documented table is the one the property names -/
theorem codes_are_the_sixteen : allCodes GGV.Gen.codesByCategory =
    ["IMM01", "IMM02", "IMM03", "IMM04", "CTOR01", "CTOR02", "CTOR03", "TONL01", "TONL02", "TONL03",
     "PKGO01", "PKGO02", "PKGO03", "IMPL01", "IMPL02", "IMPL03"] := by decide

/-- every code links to its category's documentation page, and that page exists in the book -/
theorem doc_url_by_category :
    GGV.Gen.docShapeOK = true ∧
    GGV.Gen.codesByCategory.all (fun e => e.2.all (fun c =>
      match GGV.Gen.docCases.find? (fun k => k.1 == e.1) with
      | some k => docPage c.1 == k.2 && GGV.Gen.bookPages.contains k.2
      | none => false)) = true := by decide

/-- every checker package references exactly the codes of its own category -/
def categoryOfChecker : String → String
  | "immutable" => "IMM"
  | "constructor" => "CTOR"
  | "testonly" => "TONL"
  | "packageonly" => "PKGO"
  | "implements" => "IMPL"
  | _ => "?"

theorem analyzer_owns_category :
    GGV.Gen.checkerCodes.all (fun pc =>
      match GGV.Gen.codesByCategory.find? (fun e => e.1 == categoryOfChecker pc.1) with
      | some e => pc.2 == e.2.map (·.1)
      | none => false) = true := by decide

/-- the five checkers are the analyzers of the five categories -/
theorem five_checkers : GGV.Gen.checkerCodes.map (·.1) = ["immutable", "constructor", "testonly", "packageonly", "implements"] := by decide

/-- every message starts with `error: [CODE] ` for the code the violation carries: the same value that is
    passed to the ignore set (one `GetCode()` feeds both) -/
theorem render_header (M b a : Nat) (url code msg : Bytes) (lines : List Bytes) (L C : Int) :
    ∃ rest, render M b a url code msg lines L C = str "error: [" ++ code ++ str "] " ++ msg ++ [10] ++ rest :=
  C19.render_header M b a url code msg lines L C

/-- **appending `// @ignore CODE` to the diagnostic's line removes it**: if the package's markers contain one whose
    codes include the diagnostic's code and whose range covers its position (the inline range
    [line start, end of comment] does, by `C07.scope_line`), the report filter drops it -/
theorem inline_ignore_removes (cfg : Cfg) (p : Pkg) (hv : C07.PosValid p) (raw : List Diag) (d : Diag) (m : Marker)
    (hm : Op.add m ∈ ignoreOps cfg p) (hc : d.code ∈ m.codes) (hr : m.start ≤ d.pos ∧ d.pos ≤ m.stop) :
    d ∉ raw.filter (fun d => !(readIgnores cfg p).contains d.code d.pos) := by
  intro h
  have := ((C07.ignore_exact_report cfg p hv raw d).1 h).2
  apply this
  have hmem : d.code ∈ hier d.code := by
    unfold hier hierOf
    split <;> simp
  exact ⟨d.code, hmem, Or.inr ⟨m, hm, hc, hr.1, hr.2⟩⟩

/-- … and nothing else: a diagnostic that no marker covers-and-matches and no excluded check matches stays -/
theorem inline_ignore_keeps_others (cfg : Cfg) (p : Pkg) (hv : C07.PosValid p) (raw : List Diag) (d : Diag) (hd : d ∈ raw)
    (h : ¬ C16.Suppressed hier (ignoreOps cfg p) d.code d.pos) :
    d ∈ raw.filter (fun d => !(readIgnores cfg p).contains d.code d.pos) :=
  (C07.ignore_exact_report cfg p hv raw d).2 ⟨hd, h⟩

/-- every diagnostic is positioned inside a non-excluded file of the package being analysed -/
theorem diag_in_pkg_file (cfg : Cfg) (facts : List (Name × Annotations)) (p : Pkg)
    (hs : PkgShape p) (hz : ∀ f ∈ p.files, ∀ d ∈ f.decls, C03.DeclSized d) (dg : Diag)
    (h : dg ∈ (analyze cfg facts p).diags) :
    ∃ f ∈ p.files, shouldSkip cfg f.name = false ∧ dg.pos ∈ C14.filePositions f :=
  C14.no_diag_in_excluded cfg facts p hs hz dg h

end GGV.Props.C17
