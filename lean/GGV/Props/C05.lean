import GGV.Model.Implements
/-!
# C05 — @implements verdicts agree with Go's own type checker

The property names go/types as the oracle. The extractor hands the model (a) the method sets go/types computes
(for `*T`, with a flag for methods absent from the method set of `T`; the interface's own methods for a defined
interface type), with method identities (`Func.Id`) and signatures numbered up to `types.Identical`, and (b)
go/types' verdict for every (type, interface, value/pointer) triple. The theorems characterise the cascade and
the missing-method computation in terms of Go's rule *"every method of the interface is in the method set of
the type (value form: methods of T; pointer form: methods of *T) with an identical signature"*; the per-run
comparison `impl = implspec` checks the real tool against (b) on every generated scenario.
-/
namespace GGV.Props.C05
open GGV.Model GGV.Model.Prog

/-- the import list binds the qualifier by one of `ImportMap.Find`'s four rules -/
def Binds (i : ImportSpec) (q : Name) : Prop :=
  i.alias = some q ∨ i.declName = some q ∨ i.path = q ∨ (47 :: q).isSuffixOf i.path = true

/-- **IMPL01 iff the package qualifier is not bound by any import of the file** (explicit alias, the imported
    package's declared name; and the path fallbacks the pinned suite demands) -/
theorem importFind_none_iff (imports : List ImportSpec) (q : Name) (hq : q ≠ []) :
    importFind imports q = none ↔ ∀ i ∈ imports, ¬ Binds i q := by
  unfold importFind
  simp only [hq, if_false]
  constructor
  · intro h i hi hb
    have h1 : imports.find? (fun i => i.alias == some q) = none := by
      cases hf : imports.find? (fun i => i.alias == some q) with
      | none => rfl
      | some x => rw [hf] at h; simp at h
    rw [h1] at h
    have h2 : imports.find? (fun i => i.declName == some q && q != []) = none := by
      cases hf : imports.find? (fun i => i.declName == some q && q != []) with
      | none => rfl
      | some x => rw [hf] at h; simp at h
    rw [h2] at h
    have h3 : imports.find? (fun i => i.path == q) = none := by
      cases hf : imports.find? (fun i => i.path == q) with
      | none => rfl
      | some x => rw [hf] at h; simp at h
    rw [h3] at h
    have h4 : imports.find? (fun i => (47 :: q).isSuffixOf i.path) = none := by
      cases hf : imports.find? (fun i => (47 :: q).isSuffixOf i.path) with
      | none => rfl
      | some x => rw [hf] at h; simp at h
    rw [List.find?_eq_none] at h1 h2 h3 h4
    rcases hb with hb | hb | hb | hb
    · exact h1 i hi (by simp [hb])
    · exact h2 i hi (by simp [hb, hq])
    · exact h3 i hi (by simp [hb])
    · exact h4 i hi hb
  · intro h
    have n1 : imports.find? (fun i => i.alias == some q) = none := by
      rw [List.find?_eq_none]; intro i hi hc; exact h i hi (Or.inl (by simpa using hc))
    have n2 : imports.find? (fun i => i.declName == some q && q != []) = none := by
      rw [List.find?_eq_none]; intro i hi hc
      simp only [Bool.and_eq_true, beq_iff_eq] at hc
      exact h i hi (Or.inr (Or.inl hc.1))
    have n3 : imports.find? (fun i => i.path == q) = none := by
      rw [List.find?_eq_none]; intro i hi hc; exact h i hi (Or.inr (Or.inr (Or.inl (by simpa using hc))))
    have n4 : imports.find? (fun i => (47 :: q).isSuffixOf i.path) = none := by
      rw [List.find?_eq_none]; intro i hi hc; exact h i hi (Or.inr (Or.inr (Or.inr (by simpa using hc))))
    simp [n1, n2, n3, n4]

/-- an explicit alias wins over every other rule (priority 1) -/
theorem importFind_alias_first (imports : List ImportSpec) (q : Name) (hq : q ≠ []) (i : ImportSpec)
    (h : imports.find? (fun i => i.alias == some q) = some i) : importFind imports q = some i.path := by
  simp [importFind, hq, h]

/-- **the cascade is exclusive and ordered**: IMPL01 iff the package is not resolved; otherwise IMPL02 iff no interface of
    that name is declared there; otherwise IMPL03 iff some method is missing; a correct annotation yields nothing -/
theorem cascade_exclusive (info : ImplInfo) (a : ImplAnn) :
    (implOutcome info a = .impl01 ↔ a.path = none) ∧
    (implOutcome info a = .impl02 ↔ ∃ p, a.path = some p ∧ info.ifaces.find? (fun i => i.pkg == p && i.name == a.iface) = none) ∧
    (∀ m, implOutcome info a = .impl03 m → ∃ p iface t, a.path = some p ∧
        info.ifaces.find? (fun i => i.pkg == p && i.name == a.iface) = some iface ∧
        info.types.find? (fun t => t.name == a.onType && t.isNamed) = some t ∧
        m = (missingMethods t iface a.isPtr).map (·.name) ∧ m ≠ []) := by
  unfold implOutcome
  refine ⟨?_, ?_, ?_⟩
  · cases hp : a.path with
    | none => simp
    | some p =>
      simp only [reduceCtorEq, iff_false]
      split
      · simp
      · split
        · simp
        · split <;> simp
  · cases hp : a.path with
    | none => simp
    | some p =>
      simp only [Option.some.injEq, exists_eq_left']
      cases hf : info.ifaces.find? (fun i => i.pkg == p && i.name == a.iface) with
      | none => simp
      | some iface =>
        simp only [reduceCtorEq, iff_false]
        split
        · simp
        · split <;> simp
  · intro m h
    cases hp : a.path with
    | none => rw [hp] at h; simp at h
    | some p =>
      rw [hp] at h
      simp only at h
      cases hf : info.ifaces.find? (fun i => i.pkg == p && i.name == a.iface) with
      | none => rw [hf] at h; simp at h
      | some iface =>
        rw [hf] at h
        simp only at h
        cases ht : info.types.find? (fun t => t.name == a.onType && t.isNamed) with
        | none => rw [ht] at h; simp at h
        | some t =>
          rw [ht] at h
          simp only at h
          split at h
          · simp at h
          · rename_i hne
            simp only [ImplOutcome.impl03.injEq] at h
            refine ⟨p, iface, t, rfl, hf, rfl, h.symm, ?_⟩
            rw [← h]
            intro he
            apply hne
            simpa using he

/-- the method set the form `T` / `*T` offers: all methods of `*T` for the pointer form (none if `T` is an
    interface type: a pointer to an interface has no methods), the methods of `T` itself for the value form -/
def methodSetOf (t : ImplType) (ptr : Bool) : List TypeMeth :=
  if ptr && t.isInterface then []
  else if ptr then t.methods
  else t.methods.filter (fun m => !m.needsPtr)

/-- **the methods IMPL03 lists are exactly the interface methods that are not in the method set with an identical
    signature** (method identities are unique within a method set, as in go/types) -/
theorem missing_exact (t : ImplType) (iface : IfaceDecl) (ptr : Bool)
    (huniq : ∀ m1 ∈ methodSetOf t ptr, ∀ m2 ∈ methodSetOf t ptr, m1.id = m2.id → m1 = m2) (im : MSig) :
    im ∈ missingMethods t iface ptr ↔
      im ∈ iface.methods ∧ ¬ ∃ tm ∈ methodSetOf t ptr, tm.id = im.id ∧ tm.sig = im.sig := by
  unfold missingMethods
  have hset : (if (ptr && t.isInterface) = true then [] else if ptr = true then t.methods else t.methods.filter (fun m => !m.needsPtr))
      = methodSetOf t ptr := rfl
  simp only [hset, List.mem_filter]
  constructor
  · rintro ⟨h1, h2⟩
    refine ⟨h1, ?_⟩
    rintro ⟨tm, htm, hid, hsig⟩
    cases hf : (methodSetOf t ptr).find? (fun x => x.id == im.id) with
    | none =>
      rw [List.find?_eq_none] at hf
      exact hf tm htm (by simp [hid])
    | some x =>
      rw [hf] at h2
      have hx := List.find?_some hf
      have hxm := List.mem_of_find?_eq_some hf
      have hxid : x.id = im.id := by simpa using hx
      have : x = tm := huniq x hxm tm htm (by rw [hxid, hid])
      subst this
      simp [hsig] at h2
  · rintro ⟨h1, h2⟩
    refine ⟨h1, ?_⟩
    cases hf : (methodSetOf t ptr).find? (fun x => x.id == im.id) with
    | none => rfl
    | some x =>
      have hx := List.find?_some hf
      have hxm := List.mem_of_find?_eq_some hf
      simp only [bne_iff_ne, ne_eq]
      intro hs
      exact h2 ⟨x, hxm, by simpa using hx, hs⟩

/-- a correct annotation produces no diagnostic -/
theorem correct_is_silent (a : ImplAnn) : implDiagOf a .ok = none ∧ implDiagOf a .skipped = none := ⟨rfl, rfl⟩

/-- two signatures match iff go/types calls them identical: signatures are numbered up to `types.Identical` by the
    extractor, so this is equality of class ids (the reduction is the encoding; `typesMatch` uses `types.Identical` since F9) -/
theorem match_iff_identical (tm : TypeMeth) (im : MSig) : (tm.sig != im.sig) = false ↔ tm.sig = im.sig := by
  simp

/-- value form: a method that needs a pointer receiver (absent from the method set of T) does not count, also when it
    is promoted through an embedded field -/
theorem value_form_excludes_pointer_methods (t : ImplType) (m : TypeMeth) (h : m ∈ methodSetOf t false) : m.needsPtr = false := by
  simp only [methodSetOf, Bool.false_and, Bool.false_eq_true, if_false, List.mem_filter] at h
  simpa using h.2

/-! ## Non-vacuity -/
def exIface : IfaceDecl := ⟨ascii "exp/d", ascii "Sealed", [⟨ascii "Name", ascii "Name", 0⟩, ⟨ascii "exp/d.seal", ascii "seal", 1⟩]⟩
def exType : ImplType := ⟨ascii "T", true, false, [⟨ascii "Name", ascii "Name", 0, false⟩, ⟨ascii "exp/p.seal", ascii "seal", 1, false⟩], []⟩
/-- F17's witness: p.seal is not d.seal -/
example : (missingMethods exType exIface false).map (·.name) = [ascii "seal"] := by decide
example : importFind [⟨some (ascii "yml"), ascii "exp/e/yaml.v3", some (ascii "yaml")⟩] (ascii "yaml") = some (ascii "exp/e/yaml.v3") := by decide
example : importFind [⟨none, ascii "exp/e/yaml.v3", some (ascii "yaml")⟩] (ascii "v3") = none := by decide

end GGV.Props.C05
