import GGV.Lemmas.Walk
import GGV.Lemmas.Dedup
/-!
# C04 — @packageonly is enforced exactly against the union of allowed packages
-/
namespace GGV.Props.C04
open GGV.Model GGV.Model.Prog

abbrev Key := Name × Name

/-- a reference from the current package to an item of package `p` is forbidden: the item carries
    @packageonly and neither the current package's path nor its name is in the union of the lists -/
def forbidden (c : WalkCtx) (att : List Name) : Bool := !(att.isEmpty || pkgoAllowed c att)

/-- what a selector node contributes -/
def pkgoEv (c : WalkCtx) (n : Node) : Option (Ev Key) :=
  match n.kind with
  | .selector (.typeName (some p) t) =>
    if p == c.curPkg then none
    else if forbidden c (c.env.attachments p .onType [] t) then some (.keyed (p, t) ⟨n.pos, "PKGO01"⟩) else none
  | .selector (.func (some p) f) =>
    if p == c.curPkg then none
    else if forbidden c (c.env.attachments p .onFunc [] f) then some (.plain ⟨n.pos, "PKGO02"⟩) else none
  | .selector (.method (some p) m recv) =>
    if p == c.curPkg then none
    else if forbidden c (c.env.attachments p .onMethod (typeName recv) m) then some (.plain ⟨n.pos, "PKGO03"⟩) else none
  | _ => none

def fileEvs (c : WalkCtx) (f : File) : List (Ev Key) := f.decls.flatMap fun d => d.nodes.filterMap (pkgoEv c)

def sup (ig : ISet) (d : Diag) : Bool := ig.contains d.code d.pos

def toD (s : PkgoState) : DState Key := ⟨s.reported, s.out⟩

theorem pkgoNode_eq (c : WalkCtx) (ig : ISet) (s : PkgoState) (n : Node) :
    toD (pkgoNode c ig s n) = match pkgoEv c n with
      | some ev => applyEv (sup ig) (toD s) ev
      | none => toD s := by
  unfold pkgoNode pkgoEv forbidden
  cases hk : n.kind with
  | selector o =>
    cases o with
    | typeName p t =>
      cases p with
      | none => simp
      | some p =>
        simp only
        by_cases h1 : (p == c.curPkg) = true
        · simp [h1]
        · by_cases h2 : ((c.env.attachments p .onType [] t).isEmpty || pkgoAllowed c (c.env.attachments p .onType [] t)) = true
          · simp [h1, h2]
          · simp only [h1, h2, Bool.false_eq_true, if_false, Bool.not_false, if_true, applyEv, sup, toD]
            by_cases hi : ig.contains "PKGO01" n.pos = true
            · simp [hi]
            · by_cases hr : (p, t) ∈ s.reported
              · simp [hi, hr]
              · simp [hi, hr]
    | func p f =>
      cases p with
      | none => simp
      | some p =>
        simp only
        by_cases h1 : (p == c.curPkg) = true
        · simp [h1]
        · by_cases h2 : ((c.env.attachments p .onFunc [] f).isEmpty || pkgoAllowed c (c.env.attachments p .onFunc [] f)) = true
          · simp [h1, h2]
          · simp only [h1, h2, Bool.false_eq_true, if_false, Bool.not_false, if_true, applyEv, sup, toD]
            by_cases hi : ig.contains "PKGO02" n.pos = true <;> simp [hi]
    | method p m recv =>
      cases p with
      | none => simp
      | some p =>
        simp only
        by_cases h1 : (p == c.curPkg) = true
        · simp [h1]
        · by_cases h2 : ((c.env.attachments p .onMethod (typeName recv) m).isEmpty || pkgoAllowed c (c.env.attachments p .onMethod (typeName recv) m)) = true
          · simp [h1, h2]
          · simp only [h1, h2, Bool.false_eq_true, if_false, Bool.not_false, if_true, applyEv, sup, toD]
            by_cases hi : ig.contains "PKGO03" n.pos = true <;> simp [hi]
    | none => simp
    | other p => simp
  | _ => simp

theorem foldl_pkgoNode (c : WalkCtx) (ig : ISet) (ns : List Node) (s : PkgoState) :
    toD (ns.foldl (pkgoNode c ig) s) = runEvs (sup ig) (toD s) (ns.filterMap (pkgoEv c)) := by
  induction ns generalizing s with
  | nil => rfl
  | cons n r ih =>
    simp only [List.foldl_cons, List.filterMap_cons]
    rw [ih]
    have := pkgoNode_eq c ig s n
    cases he : pkgoEv c n with
    | none => rw [he] at this; simp [this]
    | some ev => rw [he] at this; simp [this, runEvs]

theorem foldl_decls (c : WalkCtx) (ig : ISet) (ds : List Decl) (s : PkgoState) :
    toD (ds.foldl (fun s d => d.nodes.foldl (pkgoNode c ig) s) s) =
      runEvs (sup ig) (toD s) (ds.flatMap fun d => d.nodes.filterMap (pkgoEv c)) := by
  induction ds generalizing s with
  | nil => rfl
  | cons d r ih =>
    simp only [List.foldl_cons, List.flatMap_cons]
    rw [ih, foldl_pkgoNode]
    simp [runEvs, List.foldl_append]

theorem pkgoFile_eq (c : WalkCtx) (ig : ISet) (f : File) :
    pkgoFile c ig f = (runEvs (sup ig) {} (fileEvs c f)).out := by
  unfold pkgoFile fileEvs
  have := foldl_decls c ig f.decls {}
  have h2 : (f.decls.foldl (fun s d => d.nodes.foldl (pkgoNode c ig) s) ({} : PkgoState)).out
      = (toD (f.decls.foldl (fun s d => d.nodes.foldl (pkgoNode c ig) s) ({} : PkgoState))).out := rfl
  rw [h2, this]; rfl

/-- the specification: per non-excluded file, every unsuppressed forbidden reference to a function / method,
    and for each forbidden type its first unsuppressed reference -/
def PkgoReported (cfg : Cfg) (c : WalkCtx) (ig : ISet) (p : Pkg) (dg : Diag) : Prop :=
  ∃ f ∈ p.files, shouldSkip cfg f.name = false ∧
    ((Ev.plain dg ∈ fileEvs c f ∧ sup ig dg = false) ∨ ∃ k, FirstUnsuppressed (sup ig) (fileEvs c f) k dg)

theorem attachments_of_noPackageOnly (e : Env) (h : e.noPackageOnly = true) (pkg : Name) (k : AKind) (recv name : Name) :
    e.attachments pkg k recv name = [] := by
  unfold Env.noPackageOnly at h
  unfold Env.attachments
  rw [List.all_eq_true] at h
  apply List.flatMap_eq_nil_iff.2
  intro pa hpa
  have h1 := h pa hpa
  rw [List.all_eq_true] at h1
  split
  · apply List.flatMap_eq_nil_iff.2
    intro a ha
    have := h1 a ha
    split
    · simpa using this
    · rfl
  · rfl

theorem pkgoEv_of_noPackageOnly (c : WalkCtx) (h : c.env.noPackageOnly = true) (n : Node) : pkgoEv c n = none := by
  unfold pkgoEv forbidden
  split <;> simp [attachments_of_noPackageOnly c.env h]

/-- **C04 main theorem** -/
theorem packageonly_exact (cfg : Cfg) (c : WalkCtx) (ig : ISet) (p : Pkg) (dg : Diag) :
    dg ∈ checkPackageOnly cfg c ig p ↔ PkgoReported cfg c ig p dg := by
  unfold checkPackageOnly PkgoReported
  by_cases hno : c.env.noPackageOnly = true
  · simp only [hno, if_true, List.not_mem_nil, false_iff]
    have hempty : ∀ f : File, fileEvs c f = [] := by
      intro f
      unfold fileEvs
      apply List.flatMap_eq_nil_iff.2
      intro d _
      apply List.filterMap_eq_nil_iff.2
      intro n _; exact pkgoEv_of_noPackageOnly c hno n
    rintro ⟨f, _, _, h⟩
    rw [hempty f] at h
    rcases h with ⟨h, _⟩ | ⟨k, a, b, e, _⟩
    · simp at h
    · cases a <;> simp at e
  · simp only [hno, Bool.false_eq_true, if_false, List.mem_flatMap]
    constructor
    · rintro ⟨f, hf, hmem⟩
      obtain ⟨hf1, hf2⟩ := mem_filesToScan.1 hf
      rw [pkgoFile_eq] at hmem
      exact ⟨f, hf1, hf2, (mem_runEvs_init _ _ _).1 hmem⟩
    · rintro ⟨f, hf1, hf2, h⟩
      refine ⟨f, mem_filesToScan.2 ⟨hf1, hf2⟩, ?_⟩
      rw [pkgoFile_eq]
      exact (mem_runEvs_init _ _ _).2 h

/-- **the allow-list of an item is the union of all its @packageonly lines**: membership does not depend on the
    order of the lines, on duplicates, or on which line names a package -/
theorem allow_union (e : Env) (pkg : Name) (k : AKind) (recv name x : Name) :
    x ∈ e.attachments pkg k recv name ↔
      ∃ pa ∈ e, pa.1 = pkg ∧ ∃ a ∈ pa.2.packageonly, a.kind = k ∧ a.name = name ∧ a.recv = recv ∧ x ∈ a.allowed := by
  unfold Env.attachments
  simp only [List.mem_flatMap]
  constructor
  · rintro ⟨pa, hpa, hx⟩
    by_cases h1 : (pa.1 == pkg) = true
    · simp only [h1, if_true, List.mem_flatMap] at hx
      obtain ⟨a, ha, hxa⟩ := hx
      by_cases h2 : (a.kind == k && a.name == name && a.recv == recv) = true
      · simp only [h2, if_true] at hxa
        simp only [Bool.and_eq_true, beq_iff_eq] at h2
        exact ⟨pa, hpa, by simpa using h1, a, ha, h2.1.1, h2.1.2, h2.2, hxa⟩
      · simp [h2] at hxa
    · simp [h1] at hx
  · rintro ⟨pa, hpa, h1, a, ha, hk, hn, hr, hx⟩
    refine ⟨pa, hpa, ?_⟩
    have : (pa.1 == pkg) = true := by simpa using h1
    simp only [this, if_true, List.mem_flatMap]
    refine ⟨a, ha, ?_⟩
    have : (a.kind == k && a.name == name && a.recv == recv) = true := by simp [hk, hn, hr]
    simp [this, hx]

/-- a user package is allowed iff its import path or its package name is in that union -/
theorem allowed_iff (c : WalkCtx) (att : List Name) :
    pkgoAllowed c att = true ↔ (c.curPkg ∈ att ∨ c.curName ∈ att) := by
  simp [pkgoAllowed]

/-- items without the annotation are never reported -/
theorem unannotated_silent (c : WalkCtx) (att : List Name) (h : att = []) : forbidden c att = false := by
  simp [forbidden, h]

/-- the declaring package itself is always allowed: references inside D never produce an event -/
theorem declaring_always_allowed (c : WalkCtx) (n : Node) (t : Name) (h : n.kind = .selector (.typeName (some c.curPkg) t)) :
    pkgoEv c n = none := by
  simp [pkgoEv, h]

/-- every @packageonly annotation read from a doc line lists the declaring package first (so a bare
    `@packageonly` allows only D) -/
theorem bare_only_D (pkgPath : Name) (ts : TypeSpecInfo) (text : Bytes) (a : PkgOnlyAnn)
    (h : a ∈ (annOfTypeLine pkgPath ts text).packageonly) :
    ∃ extra, a.allowed = pkgPath :: extra ∧ Grammar.parsePackageOnly text = some extra := by
  unfold annOfTypeLine at h
  split at h
  · simp at h
  · simp only at h
    split at h
    · rename_i extra he
      simp only [List.mem_singleton] at h
      subst h
      exact ⟨extra, rfl, he⟩
    · simp at h

/-! ## Non-vacuity -/
def exEnv : Env := [(ascii "exp/u", {}), (ascii "exp/d", { packageonly :=
  [⟨.onType, ascii "H", [], [ascii "exp/d", ascii "okname"]⟩, ⟨.onType, ascii "H", [], [ascii "exp/d", ascii "exp/other"]⟩] })]
example : exEnv.attachments (ascii "exp/d") .onType [] (ascii "H") = [ascii "exp/d", ascii "okname", ascii "exp/d", ascii "exp/other"] := by decide
example : forbidden ⟨exEnv, ascii "exp/u", ascii "u"⟩ (exEnv.attachments (ascii "exp/d") .onType [] (ascii "H")) = true := by decide
example : forbidden ⟨exEnv, ascii "exp/x", ascii "okname"⟩ (exEnv.attachments (ascii "exp/d") .onType [] (ascii "H")) = false := by decide
example : forbidden ⟨exEnv, ascii "exp/other", ascii "o"⟩ (exEnv.attachments (ascii "exp/d") .onType [] (ascii "H")) = false := by decide

end GGV.Props.C04
