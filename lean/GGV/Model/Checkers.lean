import GGV.Model.Prog
/-!
# Whole-program model: annotation reading, indices, the four walks, @ignore scopes, filtering

Mirrors (statement by statement, after the `fix:` commits):
  annotations.ReadAllAnnotations, indexing.Build*Index, immutable.CheckImmutable, constructor.CheckConstructor,
  testonly.CheckTestOnly, packageonly.CheckPackageOnly, ignore.ReadIgnoreAnnotations and the reporting filters.
-/
namespace GGV.Model.Prog
open GGV.Model GGV.Model.Grammar

structure Diag where
  pos : Int
  code : String
deriving Repr, DecidableEq, Inhabited

inductive AKind where
  | onType | onFunc | onMethod
deriving Repr, DecidableEq, Inhabited

structure TestOnlyAnn where
  kind : AKind
  name : Name
  recv : Name
deriving Repr, DecidableEq, Inhabited

structure PkgOnlyAnn where
  kind : AKind
  name : Name
  recv : Name
  allowed : List Name        -- declaring package path first
deriving Repr, DecidableEq, Inhabited

/-- `annotations.PackageAnnotations` (positions dropped: no checker reads an imported position) -/
structure Annotations where
  immutable : List Name := []
  constructors : List (Name × List Name) := []
  testonly : List TestOnlyAnn := []
  mutable : List (Name × Name) := []          -- (type, field)
  packageonly : List PkgOnlyAnn := []
deriving Repr, DecidableEq, Inhabited

def Annotations.append (a b : Annotations) : Annotations :=
  { immutable := a.immutable ++ b.immutable
    constructors := a.constructors ++ b.constructors
    testonly := a.testonly ++ b.testonly
    mutable := a.mutable ++ b.mutable
    packageonly := a.packageonly ++ b.packageonly }

instance : Append Annotations := ⟨Annotations.append⟩

def Annotations.isEmpty (a : Annotations) : Bool :=
  a.immutable.isEmpty && a.constructors.isEmpty && a.testonly.isEmpty && a.mutable.isEmpty && a.packageonly.isEmpty

/-- the configuration as the analyzers see it -/
structure Cfg where
  scanTests : Bool := false
  excludePaths : List Bytes := [ascii "testdata"]
  excludeChecks : List String := []
deriving Repr, Inhabited

def testSuffix : Bytes := ascii "_test.go"

/-- `Config.ShouldSkipFile` -/
def shouldSkip (c : Cfg) (filename : Bytes) : Bool :=
  c.excludePaths.any (fun p => isInfix p filename) || (!c.scanTests && testSuffix.isSuffixOf filename)

def filesToScan (c : Cfg) (p : Pkg) : List File := p.files.filter (fun f => !shouldSkip c f.name)

/-! ## annotations.ReadAllAnnotations -/

/-- `readFieldAnnotationsForType` -/
def fieldMutables (ts : TypeSpecInfo) : List (Name × Name) :=
  if !ts.isStruct then [] else
  ts.fields.flatMap fun fd =>
    match fd.doc with
    | none => []
    | some lines =>
      fd.names.flatMap fun nm =>
        lines.flatMap fun text =>
          if prefilterAnnotations text && recogniseBare kwMutable text then [(ts.name, nm.1)] else []

/-- the annotations one doc-comment line of a type declaration contributes -/
def annOfTypeLine (pkgPath : Name) (ts : TypeSpecInfo) (text : Bytes) : Annotations :=
  if !prefilterAnnotations text then {} else
  let imm := recogniseBare kwImmutable text
  { constructors := match parseConstructor text with
      | some names => [(ts.name, names)]
      | none => []
    immutable := if imm then [ts.name] else []
    mutable := if imm then fieldMutables ts else []
    testonly := if recogniseBare kwTestonly text then [⟨.onType, ts.name, []⟩] else []
    packageonly := match parsePackageOnly text with
      | some extra => [⟨.onType, ts.name, [], pkgPath :: extra⟩]
      | none => [] }

def annOfFuncLine (pkgPath : Name) (name : Name) (kind : AKind) (recv : Name) (text : Bytes) : Annotations :=
  if !prefilterAnnotations text then {} else
  { testonly := if recogniseBare kwTestonly text then [⟨kind, name, recv⟩] else []
    packageonly := match parsePackageOnly text with
      | some extra => [⟨kind, name, recv, pkgPath :: extra⟩]
      | none => [] }

def concatAnn (l : List Annotations) : Annotations := l.foldl (· ++ ·) {}

/-- doc of a type spec: its own doc if present, else the doc of the enclosing `type (...)` declaration -/
def specDoc (genDoc : Doc) (ts : TypeSpecInfo) : Doc :=
  match ts.doc with
  | some l => some l
  | none => genDoc

def annOfDeclTypes (pkgPath : Name) (d : Decl) : Annotations :=
  match d.info with
  | .gen tok genDoc specs =>
    if tok != ascii "type" then {} else
    concatAnn (specs.map fun ts =>
      match specDoc genDoc ts with
      | none => {}
      | some lines => concatAnn (lines.map (annOfTypeLine pkgPath ts)))
  | .func .. => {}

def annOfDeclFuncs (pkgPath : Name) (d : Decl) : Annotations :=
  match d.info with
  | .func name doc recv =>
    match doc with
    | none => {}
    | some lines =>
      let (kind, rt) := match recv with
        | some r => (AKind.onMethod, r.synName)
        | none => (AKind.onFunc, [])
      concatAnn (lines.map (annOfFuncLine pkgPath name kind rt))
  | .gen .. => {}

def annOfFile (pkgPath : Name) (f : File) : Annotations :=
  concatAnn (f.decls.map (annOfDeclTypes pkgPath)) ++ concatAnn (f.decls.map (annOfDeclFuncs pkgPath))

/-- `ReadAllAnnotations(cfg, pass)` -/
def readAnnotations (c : Cfg) (p : Pkg) : Annotations :=
  concatAnn ((filesToScan c p).map (annOfFile p.path))

/-! ## indices (indexing.Build*Index): current package + facts of direct imports -/

abbrev Env := List (Name × Annotations)     -- (package path, annotations); current package first

def Env.isImmutable (e : Env) (pkg ty : Name) : Bool :=
  e.any fun pa => pa.1 == pkg && pa.2.immutable.contains ty

def Env.noImmutable (e : Env) : Bool := e.all fun pa => pa.2.immutable.isEmpty

/-- all constructor names registered for (pkg, type), in registration order -/
def Env.ctorNames (e : Env) (pkg ty : Name) : List Name :=
  e.flatMap fun pa => if pa.1 == pkg then pa.2.constructors.flatMap (fun c => if c.1 == ty then c.2 else []) else []

def Env.noConstructors (e : Env) : Bool := e.all fun pa => pa.2.constructors.all (fun c => c.2.isEmpty)

def Env.isMutableField (e : Env) (pkg ty field : Name) : Bool :=
  e.any fun pa => pa.1 == pkg && pa.2.mutable.contains (ty, field)

def Env.testOnlyType (e : Env) (pkg ty : Name) : Bool :=
  e.any fun pa => pa.1 == pkg && pa.2.testonly.any (fun a => a.kind == .onType && a.name == ty)

def Env.testOnlyFunc (e : Env) (pkg fn : Name) : Bool :=
  e.any fun pa => pa.1 == pkg && pa.2.testonly.any (fun a => a.kind == .onFunc && a.name == fn)

def Env.testOnlyMethod (e : Env) (pkg ty m : Name) : Bool :=
  e.any fun pa => pa.1 == pkg && pa.2.testonly.any (fun a => a.kind == .onMethod && a.name == m && a.recv == ty)

def Env.noTestOnly (e : Env) : Bool := e.all fun pa => pa.2.testonly.isEmpty

/-- `util.AttachmentsMap`: all allowed packages attached to an item, in registration order -/
def Env.attachments (e : Env) (pkg : Name) (kind : AKind) (recv name : Name) : List Name :=
  e.flatMap fun pa =>
    if pa.1 == pkg then
      pa.2.packageonly.flatMap fun a => if a.kind == kind && a.name == name && a.recv == recv then a.allowed else []
    else []

def Env.noPackageOnly (e : Env) : Bool := e.all fun pa => pa.2.packageonly.all (fun a => a.allowed.isEmpty)

/-! ## type classification -/

def Ty.unalias : Ty → Ty
  | .alias _ _ r => r.unalias
  | t => t

/-- `types.Unalias`, strip one pointer, `types.Unalias`, then `*types.Named` with a package:
    (package path, type name) -/
def typeInfo (t : Option Ty) : Option (Name × Name) :=
  match t with
  | none => none
  | some t =>
    match t.unalias with
    | .ptr e => match e.unalias with
      | .named (some p) n => some (p, n)
      | _ => none
    | .named (some p) n => some (p, n)
    | _ => none

/-- `util.ExtractTypeName`: like `typeInfo` but only the name, and a universe type still has a name -/
def typeName (t : Ty) : Name :=
  match t.unalias with
  | .ptr e => match e.unalias with
    | .named _ n => n
    | _ => []
  | .named _ n => n
  | _ => []

/-- `checkVarDeclaration`: aliases looked through, pointer types skipped (no strip) -/
def varTypeInfo (t : Option Ty) : Option (Name × Name) :=
  match t with
  | none => none
  | some t =>
    match t.unalias with
    | .named (some p) n => some (p, n)
    | _ => none

def Lhs.unparen : Lhs → Lhs
  | .paren x => x.unparen
  | l => l

/-! ## immutable.CheckImmutable -/

structure RecvCtx where
  name : Name
  typeName : Name
  pkgPath : Name
deriving Repr, DecidableEq

/-- `extractReceiverInfo` -/
def recvCtxOf (r : Option RecvInfo) : Option RecvCtx :=
  match r with
  | none => none
  | some r =>
    match r.name, typeInfo r.ty with
    | some n, some (p, t) => some ⟨n, t, p⟩
    | _, _ => none

structure WalkCtx where
  env : Env
  curPkg : Name           -- pass.Pkg.Path()
  curName : Name          -- pass.Pkg.Name()

def WalkCtx.inConstructor (c : WalkCtx) (curFn : Name) (pkg ty : Name) : Bool :=
  c.curPkg == pkg && (c.env.ctorNames pkg ty).contains curFn

/-- field write `x.f`: reportable? -/
def immFieldHit (c : WalkCtx) (curFn : Name) (xTy : Option Ty) (field : Name) : Bool :=
  match typeInfo xTy with
  | none => false
  | some (p, t) => c.env.isImmutable p t && !c.inConstructor curFn p t && !c.env.isMutableField p t field

/-- `*r` with `r` the receiver of the enclosing method of an immutable type -/
def immRecvHit (c : WalkCtx) (curFn : Name) (recv : Option RecvCtx) (x : Lhs) : Bool :=
  match recv, x with
  | some r, .ident n => n == r.name && c.env.isImmutable r.pkgPath r.typeName && !c.inConstructor curFn r.pkgPath r.typeName
  | _, _ => false

/-- `checkLHS` (plain `=`) -/
def immAssignLhs (c : WalkCtx) (curFn : Name) (recv : Option RecvCtx) (l : Lhs) : List Diag :=
  match l.unparen with
  | .sel xTy f pos => if immFieldHit c curFn xTy f then [⟨pos, "IMM01"⟩] else []
  | .idx x pos =>
    match x.unparen with
    | .sel xTy f _ => if immFieldHit c curFn xTy f then [⟨pos, "IMM04"⟩] else []
    | _ => []
  | .star x pos => if immRecvHit c curFn recv x then [⟨pos, "IMM01"⟩] else []
  | _ => []

/-- `checkCompoundLHS` (`op=`, and syntactically also `:=`) -/
def immCompoundLhs (c : WalkCtx) (curFn : Name) (l : Lhs) : List Diag :=
  match l.unparen with
  | .sel xTy f pos => if immFieldHit c curFn xTy f then [⟨pos, "IMM02"⟩] else []
  | _ => []

/-- `checkIncDec` -/
def immIncDec (c : WalkCtx) (curFn : Name) (recv : Option RecvCtx) (nodePos : Int) (x : Lhs) : List Diag :=
  match x.unparen with
  | .sel xTy f _ => if immFieldHit c curFn xTy f then [⟨nodePos, "IMM03"⟩] else []
  | .star y pos => if immRecvHit c curFn recv y then [⟨pos, "IMM03"⟩] else []
  | _ => []

def immNode (c : WalkCtx) (curFn : Name) (recv : Option RecvCtx) (n : Node) : List Diag :=
  match n.kind with
  | .assign tok lhs =>
    if tok == .assign then lhs.flatMap (immAssignLhs c curFn recv)
    else lhs.flatMap (immCompoundLhs c curFn)
  | .incDec x => immIncDec c curFn recv n.pos x
  | _ => []

/-- the walk of one top-level declaration: state = (current function, current receiver), set at a FuncDecl node -/
def immWalk (c : WalkCtx) (declRecv : Option RecvInfo) : Name → Option RecvCtx → List Node → List Diag
  | _, _, [] => []
  | curFn, recv, n :: r =>
    match n.kind with
    | .funcDecl name => immWalk c declRecv name (recvCtxOf declRecv) r
    | _ => immNode c curFn recv n ++ immWalk c declRecv curFn recv r

def declRecv (d : Decl) : Option RecvInfo :=
  match d.info with
  | .func _ _ r => r
  | .gen .. => none

def immDecl (c : WalkCtx) (d : Decl) : List Diag := immWalk c (declRecv d) [] none d.nodes

/-- `CheckImmutable` -/
def checkImmutable (cfg : Cfg) (c : WalkCtx) (p : Pkg) : List Diag :=
  if c.env.noImmutable then [] else
  (filesToScan cfg p).flatMap fun f => f.decls.flatMap (immDecl c)

/-! ## constructor.CheckConstructor -/

def ctorHit (c : WalkCtx) (curFn : Name) (ti : Option (Name × Name)) : Bool :=
  match ti with
  | none => false
  | some (p, t) => !(c.env.ctorNames p t).isEmpty && !c.inConstructor curFn p t

def ctorVarSpec (c : WalkCtx) (curFn : Name) (s : VarSpec) : List Diag :=
  if s.hasValues then [] else
  s.names.flatMap fun v =>
    if v.name == ascii "_" then []
    else if ctorHit c curFn (varTypeInfo v.ty) then [⟨v.pos, "CTOR03"⟩] else []

def ctorNode (c : WalkCtx) (curFn : Name) (n : Node) : List Diag :=
  match n.kind with
  | .compLit ty => if ctorHit c curFn (typeInfo ty) then [⟨n.pos, "CTOR01"⟩] else []
  | .call (.ident name _) nargs arg0 =>
    if name == ascii "new" && nargs == 1 && ctorHit c curFn (typeInfo arg0) then [⟨n.pos, "CTOR02"⟩] else []
  | .genVar specs => specs.flatMap (ctorVarSpec c curFn)
  | _ => []

def ctorWalk (c : WalkCtx) : Name → List Node → List Diag
  | _, [] => []
  | curFn, n :: r =>
    match n.kind with
    | .funcDecl name => ctorWalk c name r
    | _ => ctorNode c curFn n ++ ctorWalk c curFn r

def ctorDecl (c : WalkCtx) (d : Decl) : List Diag := ctorWalk c [] d.nodes

/-- `CheckConstructor` -/
def checkConstructor (cfg : Cfg) (c : WalkCtx) (p : Pkg) : List Diag :=
  if c.env.noConstructors then [] else
  (filesToScan cfg p).flatMap fun f => f.decls.flatMap (ctorDecl c)

/-! ## testonly.CheckTestOnly -/

/-- `isInTestOnlyContext` -/
def inTestOnlyContext (c : WalkCtx) (d : Decl) : Bool :=
  match d.info with
  | .func name _ (some r) => c.env.testOnlyMethod c.curPkg r.synName name
  | .func name _ none => c.env.testOnlyFunc c.curPkg name
  | .gen .. => false

/-- `findFunctionCallViolation` -/
def tonlCall (c : WalkCtx) (callee : Callee) : Option String :=
  match callee with
  | .ident name (.func (some p) _) => if c.env.testOnlyFunc p name then some "TONL02" else none
  | .ident _ _ => none
  | .sel (some p) name _ => if c.env.testOnlyFunc p name then some "TONL02" else none
  | .sel none name xTy =>
    match typeInfo xTy with
    | some (p, t) => if c.env.testOnlyMethod p t name then some "TONL03" else none
    | none => none
  | .other => none

/-- a use of a @testonly type: the dedup key (package path, type name) -/
def tonlTypeUse (c : WalkCtx) (ty : Option Ty) : Option (Name × Name) :=
  match typeInfo ty with
  | some (p, t) => if c.env.testOnlyType p t then some (p, t) else none
  | none => none

structure TonlState where
  reported : List (Name × Name) := []
  out : List Diag := []

/-- one visited node; the FuncDecl pruning is handled by the walk -/
def tonlNode (c : WalkCtx) (ig : ISet) (s : TonlState) (n : Node) : TonlState :=
  let typeUse (ty : Option Ty) : TonlState :=
    match tonlTypeUse c ty with
    | none => s
    | some key =>
      if ig.contains "TONL01" n.pos then s
      else if s.reported.contains key then s
      else { reported := s.reported ++ [key], out := s.out ++ [⟨n.pos, "TONL01"⟩] }
  match n.kind with
  | .call callee _ _ =>
    match tonlCall c callee with
    | some code => if ig.contains code n.pos then s else { s with out := s.out ++ [⟨n.pos, code⟩] }
    | none => s
  | .compLit ty => typeUse ty
  | .valueSpec ty => typeUse ty
  | .field ty => typeUse ty
  | _ => s

/-- walk with pruning: `skip` counts nodes still to be skipped (descendants of a pruned node) -/
def tonlWalk (c : WalkCtx) (ig : ISet) (prune : Bool) : TonlState → Nat → List Node → TonlState
  | s, _, [] => s
  | s, k + 1, _ :: r => tonlWalk c ig prune s k r
  | s, 0, n :: r =>
    match n.kind with
    | .funcDecl _ => if prune then tonlWalk c ig prune s n.size r else tonlWalk c ig prune s 0 r
    | _ => tonlWalk c ig prune (tonlNode c ig s n) 0 r

def tonlFile (c : WalkCtx) (ig : ISet) (f : File) : List Diag :=
  if testSuffix.isSuffixOf f.name then [] else
  (f.decls.foldl (fun s d => tonlWalk c ig (inTestOnlyContext c d) s 0 d.nodes) ({ } : TonlState)).out

/-- `CheckTestOnly` (already filtered by the ignore set) -/
def checkTestOnly (cfg : Cfg) (c : WalkCtx) (ig : ISet) (p : Pkg) : List Diag :=
  if c.env.noTestOnly then [] else
  (filesToScan cfg p).flatMap (tonlFile c ig)

/-! ## packageonly.CheckPackageOnly -/

def pkgoAllowed (c : WalkCtx) (att : List Name) : Bool := att.contains c.curPkg || att.contains c.curName

structure PkgoState where
  reported : List (Name × Name) := []
  out : List Diag := []

/-- `findSelectorExprViolation` -/
def pkgoNode (c : WalkCtx) (ig : ISet) (s : PkgoState) (n : Node) : PkgoState :=
  match n.kind with
  | .selector (.typeName (some p) t) =>
    if p == c.curPkg then s else
    let att := c.env.attachments p .onType [] t
    if att.isEmpty || pkgoAllowed c att then s
    else if ig.contains "PKGO01" n.pos then s
    else if s.reported.contains (p, t) then s
    else { reported := s.reported ++ [(p, t)], out := s.out ++ [⟨n.pos, "PKGO01"⟩] }
  | .selector (.func (some p) f) =>
    if p == c.curPkg then s else
    let att := c.env.attachments p .onFunc [] f
    if att.isEmpty || pkgoAllowed c att then s
    else if ig.contains "PKGO02" n.pos then s
    else { s with out := s.out ++ [⟨n.pos, "PKGO02"⟩] }
  | .selector (.method (some p) m recv) =>
    if p == c.curPkg then s else
    let att := c.env.attachments p .onMethod (typeName recv) m
    if att.isEmpty || pkgoAllowed c att then s
    else if ig.contains "PKGO03" n.pos then s
    else { s with out := s.out ++ [⟨n.pos, "PKGO03"⟩] }
  | _ => s

def pkgoFile (c : WalkCtx) (ig : ISet) (f : File) : List Diag :=
  (f.decls.foldl (fun s d => d.nodes.foldl (pkgoNode c ig) s) ({ } : PkgoState)).out

/-- `CheckPackageOnly` (already filtered by the ignore set) -/
def checkPackageOnly (cfg : Cfg) (c : WalkCtx) (ig : ISet) (p : Pkg) : List Diag :=
  if c.env.noPackageOnly then [] else
  (filesToScan cfg p).flatMap (pkgoFile c ig)

/-! ## ignore.ReadIgnoreAnnotations -/

/-- index of the first declaration with `End() > pos` (`sort.Search` over positions increasing with the index) -/
def declIndex (decls : List Decl) (pos : Int) : Nat :=
  match decls.findIdx? (fun d => d.stop > pos) with
  | some i => i
  | none => decls.length

/-- the `ast.Inspect` of `findInlineNode`: is there code on the comment's line before the comment? -/
def inlineWalk (cpos cline : Int) : Bool → Nat → List Node → Bool
  | found, _, [] => found
  | found, k + 1, _ :: r => inlineWalk cpos cline found k r
  | found, 0, n :: r =>
    if n.pos ≥ cpos then inlineWalk cpos cline found n.size r            -- return false: skip the subtree
    else if n.startLine == cline || n.endLine == cline then inlineWalk cpos cline true n.size r
    else inlineWalk cpos cline found 0 r

/-- the declaration before the one found for the comment ends on the comment's line
    (the comment trails the last token of that declaration) -/
def prevEndsOnLine (f : File) (cm : Comment) : Bool :=
  match declIndex f.decls cm.pos with
  | 0 => false
  | i + 1 => match f.decls[i]? with
    | some d => d.endLine == cm.line
    | none => false

/-- `findInlineNode`: the marker range if the comment trails code -/
def findInline (f : File) (cm : Comment) : Option (Int × Int) :=
  if prevEndsOnLine f cm then some (cm.lineStart, cm.stop)
  else match f.decls[declIndex f.decls cm.pos]? with
    | none => none
    | some d =>
      if cm.pos < d.pos then none
      else if inlineWalk cm.pos cm.line false 0 d.nodes then some (cm.lineStart, cm.stop)
      else none

/-- the `ast.Inspect` of `findNextNodeAfterComment`: (nextPos, nextEnd) -/
def nextWalk (cpos : Int) : Int × Int → Nat → List Node → Int × Int
  | st, _, [] => st
  | st, k + 1, _ :: r => nextWalk cpos st k r
  | st, 0, n :: r =>
    if n.pos ≤ cpos then nextWalk cpos st 0 r
    else if st.1 == 0 || n.pos < st.1 then nextWalk cpos (n.pos, n.stop) n.size r
    else nextWalk cpos st 0 r

/-- `findNextNodeAfterComment`: end of the scope, 0 (`token.NoPos`) if none -/
def findNext (f : File) (cpos : Int) : Int :=
  match f.decls[declIndex f.decls cpos]? with
  | none => 0
  | some d => if cpos < d.pos then d.stop else (nextWalk cpos (0, 0) 0 d.nodes).2

def codeString (b : Bytes) : String := String.ofList (b.map fun x => Char.ofNat x.toNat)

/-- the range an `@ignore` comment covers -/
def scopeOf (f : File) (cm : Comment) : Int × Int :=
  if cm.pos < f.packagePos then (cm.pos, f.fileEnd)
  else match findInline f cm with
    | some r => r
    | none =>
      let e := findNext f cm.pos
      (cm.pos, if e == 0 then cm.stop else e)

/-- the marker one comment contributes -/
def markerOf (f : File) (cm : Comment) : Option Marker :=
  if !prefilterIgnore cm.text then none else
  match parseIgnore cm.text with
  | some codes => some ⟨codes.map codeString, (scopeOf f cm).1, (scopeOf f cm).2⟩
  | none => none

def ignoreOps (cfg : Cfg) (p : Pkg) : List Op :=
  (if cfg.excludeChecks.isEmpty then [] else [Op.addModule cfg.excludeChecks]) ++
  (filesToScan cfg p).flatMap fun f => f.comments.filterMap fun cm => (markerOf f cm).map Op.add

/-- `ReadIgnoreAnnotations(cfg, pass)` -/
def readIgnores (cfg : Cfg) (p : Pkg) : ISet := run (ignoreOps cfg p)

/-! ## the analyzers together -/

structure Result where
  ann : Annotations
  diags : List Diag

/-- one package: `facts` are the annotations of `pass.Pkg.Imports()` (path, annotations), in that order -/
def analyze (cfg : Cfg) (facts : List (Name × Annotations)) (p : Pkg) : Result :=
  let ann := readAnnotations cfg p
  let env : Env := (p.path, ann) :: facts
  let c : WalkCtx := ⟨env, p.path, p.name⟩
  let ig := readIgnores cfg p
  let report (ds : List Diag) := ds.filter fun d => !ig.contains d.code d.pos
  { ann := ann
    diags := report (checkImmutable cfg c p) ++ report (checkConstructor cfg c p) ++
             checkTestOnly cfg c ig p ++ checkPackageOnly cfg c ig p }

end GGV.Model.Prog
