import GGV.Model.Codes
/-!
# Model of `util.IgnoreSet` (src/util/ignoreset.go)

Statement-by-statement model. A Go `map[string][]int` is a total function with default `[]`.
`token.NoPos` is `0`; positions are `Int` (unbounded: no property here is about overflow).
-/
namespace GGV.Model

structure Marker where
  codes : List String
  start : Int
  stop  : Int
deriving Repr, DecidableEq

structure ISet where
  markers : List Marker := []
  index   : String → List Nat := fun _ => []
  modIgn  : List String := []
  minPos  : Int := 0
  maxPos  : Int := 0
  init    : Bool := false

/-- `ensureInitialized` -/
def ISet.ensure (s : ISet) : ISet :=
  if s.init then s else { s with markers := [], index := fun _ => [], minPos := 0, maxPos := 0, init := true }

/-- `Add` -/
def ISet.add (s0 : ISet) (m : Marker) : ISet :=
  let s := s0.ensure
  let idx := s.markers.length
  { s with
    markers := s.markers ++ [m]
    index := fun c => if c ∈ m.codes then s.index c ++ [idx] else s.index c
    minPos := if s.minPos = 0 ∨ m.start < s.minPos then m.start else s.minPos
    maxPos := if s.maxPos = 0 ∨ m.stop > s.maxPos then m.stop else s.maxPos }

/-- `AddModuleIgnore` -/
def ISet.addModule (s0 : ISet) (cs : List String) : ISet :=
  let s := s0.ensure
  { s with modIgn := s.modIgn ++ cs }

/-- `Contains`, parametrised by the code hierarchy -/
def ISet.containsH (hier : String → List String) (s : ISet) (code : String) (pos : Int) : Bool :=
  if !s.init then false
  else if (hier code).any (fun c => s.modIgn.contains c) then true
  else if s.minPos = 0 ∨ pos < s.minPos ∨ pos > s.maxPos then false
  else (hier code).any fun c => (s.index c).any fun i =>
    match s.markers[i]? with
    | some m => decide (m.start ≤ pos) && decide (pos ≤ m.stop)
    | none => false   -- Go: index out of range panic; unreachable by `contains_index_safe`

/-- `Contains` with the regenerated code table -/
def ISet.contains (s : ISet) (code : String) (pos : Int) : Bool := s.containsH hier code pos

/-- `Contains` on a possibly-nil receiver (`Reporter` is given `nil` by testonly / packageonly) -/
def containsOpt (s : Option ISet) (code : String) (pos : Int) : Bool :=
  match s with
  | none => false
  | some s => s.contains code pos

inductive Op where
  | add (m : Marker)
  | addModule (cs : List String)
deriving Repr

def step (s : ISet) : Op → ISet
  | .add m => s.add m
  | .addModule cs => s.addModule cs

def run (ops : List Op) : ISet := ops.foldl step {}

end GGV.Model
