import GGV.Model.Grammar
import GGV.Model.IgnoreSet
import GGV.Model.Config
/-!
# Abstract programs (APF) — what the whole-program models read

The abstraction of a type-checked Go package that `ggvh` extracts with go/ast + go/types (independent of
gogreement). Declarations carry their whole subtree as the *preorder* list that `ast.Inspect` visits, each node
with its number of descendants (`size`), so that every walk of the code is a list fold and "return false"
(pruning) is "drop `size`".
-/
namespace GGV.Model.Prog
open GGV.Model

/-- identifiers, type names, package paths: UTF-8 bytes -/
abbrev Name := Bytes

/-- go/types types as far as the code looks at them -/
inductive Ty where
  | named (pkg : Option Name) (name : Name)     -- *types.Named (pkg = none: universe, e.g. error)
  | ptr (elem : Ty)                                 -- *types.Pointer
  | alias (pkg : Option Name) (name : Name) (rhs : Ty)   -- *types.Alias
  | other                                           -- anything else
deriving Repr, DecidableEq, Inhabited

/-- what `TypesInfo.Uses` / `ObjectOf` resolves an identifier to -/
inductive Obj where
  | none
  | typeName (pkg : Option Name) (name : Name)
  | func (pkg : Option Name) (name : Name)
  | method (pkg : Option Name) (name : Name) (recv : Ty)
  | other (pkg : Option Name)
deriving Repr, DecidableEq, Inhabited

/-- left-hand side expressions, syntactically -/
inductive Lhs where
  | sel (xTy : Option Ty) (name : Name) (pos : Int)   -- x.name ; pos = selector.Pos()
  | idx (x : Lhs) (pos : Int)                           -- x[i]
  | star (x : Lhs) (pos : Int)                          -- *x
  | paren (x : Lhs)                                     -- (x)
  | ident (name : Name)
  | other
deriving Repr, Inhabited

inductive Callee where
  | ident (name : Name) (obj : Obj)                   -- f(…) ; obj = Uses[f]
  | sel (pkgPath : Option Name) (name : Name) (xTy : Option Ty)  -- x.name(…) ; pkgPath if x is a package name
  | other
deriving Repr, Inhabited

inductive AssignTok where
  | assign | define | op
deriving Repr, DecidableEq, Inhabited

structure VarName where
  name : Name
  pos : Int
  ty : Option Ty
deriving Repr, Inhabited

structure VarSpec where
  hasValues : Bool
  names : List VarName
deriving Repr, Inhabited

inductive Kind where
  | other
  | comment            -- *ast.Comment / *ast.CommentGroup reached through a Doc / Comment field
  | funcDecl (name : Name)
  | assign (tok : AssignTok) (lhs : List Lhs)
  | incDec (x : Lhs)
  | compLit (ty : Option Ty)
  | call (c : Callee) (nargs : Nat) (arg0 : Option Ty)
  | genVar (specs : List VarSpec)
  | valueSpec (ty : Option Ty)        -- type of node.Type (none if the spec has no type or TypeOf is nil)
  | field (ty : Option Ty)
  | selector (obj : Obj)
deriving Repr, Inhabited

structure Node where
  kind : Kind
  pos : Int
  stop : Int
  startLine : Int
  endLine : Int
  size : Nat           -- number of descendants in the preorder
deriving Repr, Inhabited

abbrev Doc := Option (List Bytes)   -- a comment group: the texts of its comments (`none` = no doc)

structure FieldDecl where
  doc : Doc
  names : List (Name × Int)
deriving Repr, Inhabited

structure TypeSpecInfo where
  name : Name
  pos : Int
  doc : Doc
  isStruct : Bool
  fields : List FieldDecl
deriving Repr, Inhabited

structure RecvInfo where
  synName : Name            -- annotations.ExtractReceiverType(recv type expr): "" unless T or *T
  name : Option Name        -- receiver variable name (none if unnamed)
  ty : Option Ty              -- TypesInfo.TypeOf(recv type expr)
deriving Repr, Inhabited

inductive DeclInfo where
  | func (name : Name) (doc : Doc) (recv : Option RecvInfo)
  | gen (tok : Name) (doc : Doc) (specs : List TypeSpecInfo)    -- tok ∈ type / var / const / import
deriving Repr, Inhabited

structure Decl where
  info : DeclInfo
  pos : Int
  stop : Int
  endLine : Int
  nodes : List Node           -- preorder of the whole declaration; the declaration itself first
deriving Repr, Inhabited

structure Comment where
  pos : Int
  stop : Int
  line : Int                  -- physical line of the comment
  lineStart : Int             -- token.File.LineStart(line)
  text : Bytes
deriving Repr, Inhabited

structure ImportSpec where
  alias : Option Name
  path : Name
  declName : Option Name    -- declared name of the imported package (none if it could not be resolved)
deriving Repr, Inhabited

structure File where
  name : Name               -- as Fset.Position(file.Pos()).Filename reports it
  packagePos : Int
  fileEnd : Int
  imports : List ImportSpec
  comments : List Comment     -- file.Comments flattened, in order
  decls : List Decl
deriving Repr, Inhabited

structure Pkg where
  id : Name                 -- unique id of the package (variant) in the session
  path : Name
  name : Name
  imports : List Name       -- ids of pass.Pkg.Imports(), in that order
  files : List File
deriving Repr, Inhabited

end GGV.Model.Prog
