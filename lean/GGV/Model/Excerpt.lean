import GGV.Model.Bytes
import GGV.Model.Codes
/-!
# Model of `reporting.Reporter` message rendering (src/reporting/reporter.go)

`truncateG` / `displayCol` / `window` / `render` follow the Go statement by statement; Go `int` is `Int`.
Slice expressions go through `slice?` so that "no out-of-range slice" is a theorem (`truncateG_total`),
not a convention. `truncate` is the total version used by the other theorems.
-/
namespace GGV.Model

def dots : Bytes := [46, 46, 46]

/-- `pos0` of truncateString: 0-based, clamped into the string -/
def clampPos0 (len : Nat) (pos : Int) : Int :=
  if pos - 1 < 0 then 0 else if pos - 1 ≥ len then (len : Int) - 1 else pos - 1

/-- `truncateString(s, maxLen, pos)` with Go's slice-bounds checks explicit -/
def truncateG (s : Bytes) (M : Nat) (pos : Int) : Option Bytes :=
  if s.length ≤ M then some s
  else if M ≤ 3 then slice? s 0 M
  else
    let pos0 := clampPos0 s.length pos
    if pos0 < (M : Int) - 3 then (slice? s 0 ((M : Int) - 3)).map (· ++ dots)
    else if pos0 ≥ (s.length : Int) - M + 3 then (slice? s ((s.length : Int) - M + 3) s.length).map (dots ++ ·)
    else
      let before : Int := ((M : Int) - 3) / 2
      let after : Int := ((M : Int) - 3) - before
      let start : Int := if pos0 - before < 0 then 0 else pos0 - before
      let stop : Int := if pos0 + after > s.length then s.length else pos0 + after
      (slice? s start stop).map (fun mid => dots ++ mid ++ dots)

/-- total version (what `truncateG` returns whenever it does not panic — always, by `truncateG_total`) -/
def truncate (s : Bytes) (M : Nat) (pos : Int) : Bytes :=
  if s.length ≤ M then s
  else if M ≤ 3 then s.take M
  else
    let pos0 := clampPos0 s.length pos
    if pos0 < (M : Int) - 3 then s.take (M - 3) ++ dots
    else if pos0 ≥ (s.length : Int) - M + 3 then dots ++ s.drop (s.length - M + 3)
    else
      let before := (M - 3) / 2
      let after := (M - 3) - before
      let start := (pos0 - before).toNat
      let stop := min (pos0 + after).toNat s.length
      dots ++ (s.drop start).take (stop - start) ++ dots

/-- `calculateDisplayColumn(originalLine, originalPos, maxLen)` -/
def displayCol (s : Bytes) (pos : Int) (M : Nat) : Int :=
  if s.length ≤ M then pos
  else if pos - 1 < 0 then 1
  else
    let pos0 : Int := if pos - 1 ≥ s.length then (s.length : Int) - 1 else pos - 1
    if pos0 < (M : Int) - 3 then pos
    else if pos0 ≥ (s.length : Int) - M + 3 then 4 + (pos0 - ((s.length : Int) - M + 3))
    else 4 + (((M - 3) / 2 : Nat) : Int)

/-- `readSourceLines`: (1-based line number, text) of lines `L-before .. L+after` clamped to the file -/
def window (lines : List Bytes) (L : Int) (before after : Nat) : List (Nat × Bytes) :=
  if lines = [] then [] else
  let start : Int := if L - before - 1 < 0 then 0 else L - before - 1
  let stop : Int := if L + after - 1 ≥ lines.length then (lines.length : Int) - 1 else L + after - 1
  if start ≥ lines.length then []
  else
    (List.range (stop + 1 - start).toNat).filterMap fun k =>
      let i := start.toNat + k
      (lines[i]?).map fun t => (i + 1, t)

/-- the run of blanks / tabs before the caret: one byte per display column before `displayColumn` -/
def caretPrefix (trunc : Bytes) (dcol : Int) : Bytes :=
  (List.range (dcol - 1).toNat).map fun j =>
    if trunc[j]? = some (9 : UInt8) then (9 : UInt8) else 32

/-- left-pad with blanks to `w` (`%*d`) -/
def padNum (w : Nat) (n : Nat) : Bytes :=
  let d := natDigits n
  spaces (w - d.length) ++ d

/-- `formatPrettyError`: the whole message. `lines = []` stands for an unreadable file. Without an excerpt the
    message is the header line and the documentation link (since the F20 repair). -/
def render (M before after : Nat) (url : Bytes) (code msg : Bytes) (lines : List Bytes) (L C : Int) : Bytes :=
  let header := str "error: [" ++ code ++ str "] " ++ msg ++ [10]
  let win := window lines L before after
  if win = [] then header ++ str "   = help: " ++ url ++ [10] else
  let maxNum := win.foldl (fun m p => max m p.1) 0
  let w := (natDigits maxNum).length
  let border := spaces w ++ str " |\n"
  let body := win.flatMap fun (p : Nat × Bytes) =>
    let trunc := truncate p.2 M C
    let row := padNum w p.1 ++ str " | " ++ trunc ++ [10]
    if (p.1 : Int) = L then
      row ++ spaces w ++ str " | " ++ caretPrefix trunc (displayCol p.2 C M) ++ str "^\n"
    else row
  header ++ border ++ body ++ border ++ str "   = help: " ++ url ++ [10]

/-- `bufio.Scanner` with `ScanLines` as `getFileLines` uses it: split at LF, drop one trailing CR,
    a final unterminated non-empty line counts, and scanning stops (error ignored) at the first line
    of `limit` bytes or more (`bufio.MaxScanTokenSize`). -/
def splitLinesAux (limit : Nat) : Bytes → Bytes → List Bytes → List Bytes
  | [], cur, acc =>
    if cur = [] then acc.reverse
    else if cur.length ≥ limit then acc.reverse
    else (dropCR cur.reverse :: acc).reverse
  | b :: r, cur, acc =>
    if b = 10 then
      if cur.length ≥ limit then acc.reverse
      else splitLinesAux limit r [] (dropCR cur.reverse :: acc)
    else splitLinesAux limit r (b :: cur) acc
where
  dropCR (l : Bytes) : Bytes := if l.getLast? = some 13 then l.dropLast else l

def splitLines (limit : Nat) (content : Bytes) : List Bytes := splitLinesAux limit content [] []

end GGV.Model
