/-! Byte strings. All string models are over `List UInt8` (exact: Go strings are byte sequences; every
    character class the code uses is ASCII; `token.Position.Column` counts bytes). -/
namespace GGV.Model

abbrev Bytes := List UInt8

def str (s : String) : Bytes := s.toUTF8.toList

/-- an ASCII literal as bytes; unlike `str` this reduces in the kernel (`decide`) -/
def ascii (s : String) : Bytes := s.toList.map (fun c => UInt8.ofNat c.toNat)

/-- Go slice expression `s[a:b]` on a string: `none` is the run-time panic "slice bounds out of range" -/
def slice? (s : Bytes) (a b : Int) : Option Bytes :=
  if 0 ≤ a ∧ a ≤ b ∧ b ≤ s.length then some ((s.drop a.toNat).take (b.toNat - a.toNat)) else none

/-- decimal rendering of a natural number as bytes (`fmt.Sprintf("%d", n)` for n ≥ 0) -/
def natDigits (n : Nat) : Bytes :=
  if h : n < 10 then [UInt8.ofNat (48 + n)]
  else natDigits (n / 10) ++ [UInt8.ofNat (48 + n % 10)]
termination_by n
decreasing_by omega

def spaces (n : Nat) : Bytes := List.replicate n 32

end GGV.Model
