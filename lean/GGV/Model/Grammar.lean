import GGV.Model.Bytes
/-!
# Model of the annotation grammar (src/annotations/annotation.go, src/ignore/ignore.go)

One functional recogniser per keyword, written after the regexes' leftmost-first behaviour:

    ^\s*//\s*@K                                        lead
    (?:\s+.*)?$                                        tail: empty, or blank then anything without LF
    (?:\s+(ID(?:\s*,\s*ID)*(?:\s*,)?))?                list argument (constructor / packageonly / ignore)
    \s+(&)?(?:(\w+)\.)?(\w+)                           implements argument

and the post-processing of the capture (split on commas, trim, drop empties, upper-case for ignore).
The regexes themselves are tied to these functions by the bounded-exhaustive + fuzz correspondence
(`gram` suite); the theorems in Props/C15 relate these functions to the documented grammar.
-/
namespace GGV.Model.Grammar
open GGV.Model

/-- RE2 `\s` = `[\t\n\f\r ]` -/
def isWs (b : UInt8) : Bool := b == 9 || b == 10 || b == 12 || b == 13 || b == 32

def dropWs : Bytes → Bytes
  | [] => []
  | b :: r => if isWs b then dropWs r else b :: r

def stripPrefix : Bytes → Bytes → Option Bytes
  | [], s => some s
  | _ :: _, [] => none
  | p :: ps, b :: s => if p = b then stripPrefix ps s else none

def slashes : Bytes := [47, 47]

/-- `(?:\s+.*)?$` on the rest of the line: empty; or a blank, and no LF after the run of blanks
    (`.` does not match LF; the run of blanks may) -/
def tailOk : Bytes → Bool
  | [] => true
  | b :: r => isWs b && !(dropWs (b :: r)).contains 10

/-- `^\s*//\s*@K`: the rest of the line after the keyword, if the line starts that way -/
def lead (kw : Bytes) (line : Bytes) : Option Bytes :=
  match stripPrefix slashes (dropWs line) with
  | none => none
  | some r => stripPrefix kw (dropWs r)

/-- keywords (with their `@`) -/
def kwImmutable : Bytes := ascii "@immutable"
def kwTestonly : Bytes := ascii "@testonly"
def kwMutable : Bytes := ascii "@mutable"
def kwConstructor : Bytes := ascii "@constructor"
def kwPackageonly : Bytes := ascii "@packageonly"
def kwIgnore : Bytes := ascii "@ignore"
def kwImplements : Bytes := ascii "@implements"

/-- no-argument annotations: `@immutable`, `@testonly`, `@mutable` -/
def recogniseBare (kw : Bytes) (line : Bytes) : Bool :=
  match lead kw line with
  | none => false
  | some t => tailOk t

/-! ## list arguments -/

def isAlpha (b : UInt8) : Bool := (65 ≤ b && b ≤ 90) || (97 ≤ b && b ≤ 122)
def isDigit (b : UInt8) : Bool := 48 ≤ b && b ≤ 57
/-- `\w` -/
def isWord (b : UInt8) : Bool := isAlpha b || isDigit b || b == 95

structure IdClass where
  start : UInt8 → Bool
  rest : UInt8 → Bool

/-- `[a-zA-Z_][a-zA-Z0-9_]*` -/
def goIdent : IdClass := ⟨fun b => isAlpha b || b == 95, isWord⟩
/-- `[a-zA-Z0-9_/.-]+` -/
def pkgPath : IdClass := let c := fun b => isWord b || b == 47 || b == 46 || b == 45; ⟨c, c⟩
/-- `[A-Za-z0-9]+` -/
def codeTok : IdClass := let c := fun b => isAlpha b || isDigit b; ⟨c, c⟩

def spanP (p : UInt8 → Bool) : Bytes → Bytes × Bytes
  | [] => ([], [])
  | b :: r => if p b then let (a, t) := spanP p r; (b :: a, t) else ([], b :: r)

/-- a maximal identifier at the head -/
def parseId (k : IdClass) : Bytes → Option (Bytes × Bytes)
  | [] => none
  | b :: r => if k.start b then let (a, t) := spanP k.rest r; some (b :: a, t) else none

/-- `\s*,\s*ID` at the head -/
def parseSep (k : IdClass) (s : Bytes) : Option (Bytes × Bytes) :=
  match dropWs s with
  | 44 :: r => parseId k (dropWs r)
  | _ => none

/-- the maximal chain `ID₀ sep ID₁ … sep IDₖ`, as `(IDⱼ, text after IDⱼ)`; `fuel` bounds the recursion -/
def chain (k : IdClass) : Nat → Bytes → Bytes → List (Bytes × Bytes)
  | 0, id, rest => [(id, rest)]
  | fuel + 1, id, rest =>
    match parseSep k rest with
    | some (id', rest') => (id, rest) :: chain k fuel id' rest'
    | none => [(id, rest)]

/-- after `IDⱼ` the regex can finish: `(?:\s*,)?(?:\s+.*)?$` -/
def acceptAfter (rest : Bytes) : Bool :=
  tailOk rest || (match dropWs rest with
    | 44 :: r => tailOk r
    | _ => false)

/-- names `ID₀..IDⱼ` for the largest `j` after which the regex can finish (leftmost-first backtracking) -/
def longestAccepted : List (Bytes × Bytes) → Option (List Bytes)
  | [] => none
  | (id, rest) :: more =>
    match longestAccepted more with
    | some names => some (id :: names)
    | none => if acceptAfter rest then some [id] else none

/-- a list annotation: `none` = the regex does not match at all; `some []` = it matches without
    argument; `some names` = the captured names in order -/
def recogniseList (kw : Bytes) (k : IdClass) (line : Bytes) : Option (List Bytes) :=
  match lead kw line with
  | none => none
  | some [] => some []
  | some (b :: t) =>
    if !isWs b then none
    else
      let noArg := if tailOk (b :: t) then some [] else none
      match parseId k (dropWs (b :: t)) with
      | none => noArg
      | some (id0, r0) =>
        match longestAccepted (chain k (r0.length + 1) id0 r0) with
        | some names => some names
        | none => noArg

def upperAscii (b : UInt8) : UInt8 := if 97 ≤ b && b ≤ 122 then b - 32 else b

/-- `parseConstructorAnnotation`: `none` = not an annotation -/
def parseConstructor (line : Bytes) : Option (List Bytes) :=
  match recogniseList kwConstructor goIdent line with
  | some (n :: ns) => some (n :: ns)
  | _ => none

/-- `parseIgnoreAnnotation`: codes upper-cased -/
def parseIgnore (line : Bytes) : Option (List Bytes) :=
  match recogniseList kwIgnore codeTok line with
  | some (n :: ns) => some ((n :: ns).map (·.map upperAscii))
  | _ => none

/-- `parsePackageOnlyAnnotation`: the extra allowed packages (the declaring package is prepended by the caller);
    the bare form yields `some []` -/
def parsePackageOnly (line : Bytes) : Option (List Bytes) :=
  recogniseList kwPackageonly pkgPath line

/-- `parseImplementsAnnotation`: (pointer?, package qualifier or empty, interface name) -/
def parseImplements (line : Bytes) : Option (Bool × Bytes × Bytes) :=
  match lead kwImplements line with
  | none => none
  | some [] => none
  | some (b :: t) =>
    if !isWs b then none
    else
      let s := dropWs (b :: t)
      let (amp, s) := match s with
        | 38 :: r => (true, r)
        | _ => (false, s)
      match spanP isWord s with
      | ([], _) => none
      | (w1, r1) =>
        let qualified : Option (Bool × Bytes × Bytes) :=
          match r1 with
          | 46 :: r2 =>
            match spanP isWord r2 with
            | ([], _) => none
            | (w2, r3) => if tailOk r3 then some (amp, w1, w2) else none
          | _ => none
        match qualified with
        | some x => some x
        | none => if tailOk r1 then some (amp, [], w1) else none

/-- the Aho-Corasick pre-filter of annotation.go: the text contains one of the six keywords -/
def isInfix (p s : Bytes) : Bool :=
  match s with
  | [] => p.isEmpty
  | _ :: r => p.isPrefixOf s || isInfix p r

def prefilterAnnotations (text : Bytes) : Bool :=
  [kwImplements, kwConstructor, kwImmutable, kwTestonly, kwMutable, kwPackageonly].any (isInfix · text)

def prefilterIgnore (text : Bytes) : Bool := isInfix kwIgnore text

end GGV.Model.Grammar
