import GGV.Model.Checkers
/-!
# Model of the @implements pipeline
(annotations.parseImplementsAnnotation + util.ImportMap.Find, implements.LoadInterfaces / LoadTypes,
FindMissingPackages / FindMissingInterfaces / FindMissingMethods, after the F7, F9, F10, F17, F18 repairs)

Signatures are identity classes: the extractor numbers method signatures up to `types.Identical` (which is what
`typesMatch` decides since F9), so "same signature" is equality of class ids. Methods carry their go/types
identity (`Func.Id`: the name for exported methods, `pkgpath.name` for unexported ones) since F17.
`GoVerdict` is the oracle the property names: what go/types says about `T` / `*T` and the interface.
-/
namespace GGV.Model.Prog
open GGV.Model GGV.Model.Grammar

structure MSig where
  id : Name
  name : Name
  sig : Nat
deriving Repr, DecidableEq, Inhabited

structure IfaceDecl where
  pkg : Name
  name : Name
  methods : List MSig
deriving Repr, Inhabited

structure TypeMeth where
  id : Name
  name : Name
  sig : Nat
  needsPtr : Bool      -- not in the method set of T itself
deriving Repr, Inhabited

/-- go/types on (T or *T, interface): does it implement, and which interface methods are missing or of wrong type -/
structure GoVerdict where
  ifacePkg : Name
  ifaceName : Name
  ptr : Bool
  implements : Bool
  missing : List Name
deriving Repr, Inhabited

structure ImplType where
  name : Name
  isNamed : Bool
  isInterface : Bool
  methods : List TypeMeth          -- method set of *T (of T itself for an interface type)
  go : List GoVerdict
deriving Repr, Inhabited

structure ImplInfo where
  ifaces : List IfaceDecl := []     -- interfaces of the current package and its direct imports (by package path, name)
  types : List ImplType := []       -- the annotated types of the current package
deriving Repr, Inhabited

/-- `util.ImportMap.Find`: explicit alias, then declared package name, then exact path, then `/name` path suffix -/
def importFind (imports : List ImportSpec) (short : Name) : Option Name :=
  if short = [] then none else
  match imports.find? (fun i => i.alias == some short) with
  | some i => some i.path
  | none =>
    match imports.find? (fun i => i.declName == some short && short != []) with
    | some i => some i.path
    | none =>
      match imports.find? (fun i => i.path == short) with
      | some i => some i.path
      | none =>
        match imports.find? (fun i => (47 :: short).isSuffixOf i.path) with
        | some i => some i.path
        | none => none

/-- a parsed `@implements` annotation on a type -/
structure ImplAnn where
  onType : Name
  pos : Int
  isPtr : Bool
  qualifier : Name      -- "" = current package
  iface : Name
  path : Option Name    -- resolved package path; none = package not found
deriving Repr, Inhabited

def implAnnOfLine (pkgPath : Name) (imports : List ImportSpec) (ts : TypeSpecInfo) (text : Bytes) : Option ImplAnn :=
  if !prefilterAnnotations text then none else
  match parseImplements text with
  | none => none
  | some (amp, q, i) =>
    let path := if q = [] then some pkgPath else importFind imports q
    some ⟨ts.name, ts.pos, amp, q, i, path⟩

def implAnnsOfFile (pkgPath : Name) (f : File) : List ImplAnn :=
  f.decls.flatMap fun d =>
    match d.info with
    | .gen tok genDoc specs =>
      if tok != ascii "type" then [] else
      specs.flatMap fun ts =>
        match specDoc genDoc ts with
        | none => []
        | some lines => lines.filterMap (implAnnOfLine pkgPath f.imports ts)
    | .func .. => []

/-- `checkImplementation`: the interface methods that are missing or have a different signature -/
def missingMethods (t : ImplType) (iface : IfaceDecl) (requirePointer : Bool) : List MSig :=
  let usable : List TypeMeth :=
    if requirePointer && t.isInterface then []
    else if requirePointer then t.methods
    else t.methods.filter (fun m => !m.needsPtr)
  iface.methods.filter fun im =>
    match usable.find? (fun tm => tm.id == im.id) with
    | none => true
    | some tm => tm.sig != im.sig

inductive ImplOutcome where
  | ok
  | impl01                       -- package not found
  | impl02                       -- interface not found
  | impl03 (missing : List Name)
  | skipped                      -- annotated name is not a defined type of the package: nothing is checked
deriving Repr, DecidableEq, Inhabited

/-- the cascade for one annotation -/
def implOutcome (info : ImplInfo) (a : ImplAnn) : ImplOutcome :=
  match a.path with
  | none => .impl01
  | some path =>
    match info.ifaces.find? (fun i => i.pkg == path && i.name == a.iface) with
    | none => .impl02
    | some iface =>
      match info.types.find? (fun t => t.name == a.onType && t.isNamed) with
      | none => .skipped
      | some t =>
        let miss := missingMethods t iface a.isPtr
        if miss.isEmpty then .ok else .impl03 (miss.map (·.name))

/-- what Go says (the oracle): for an annotation whose package and interface resolve -/
def goOutcome (info : ImplInfo) (a : ImplAnn) : ImplOutcome :=
  match a.path with
  | none => .impl01
  | some path =>
    match info.ifaces.find? (fun i => i.pkg == path && i.name == a.iface) with
    | none => .impl02
    | some _ =>
      match info.types.find? (fun t => t.name == a.onType && t.isNamed) with
      | none => .skipped
      | some t =>
        match t.go.find? (fun g => g.ifacePkg == path && g.ifaceName == a.iface && g.ptr == a.isPtr) with
        | none => .skipped
        | some g => if g.implements then .ok else .impl03 g.missing

structure ImplDiag where
  pos : Int
  code : String
  ann : ImplAnn
  missing : List Name
deriving Repr, Inhabited

def implDiagOf (a : ImplAnn) : ImplOutcome → Option ImplDiag
  | .impl01 => some ⟨a.pos, "IMPL01", a, []⟩
  | .impl02 => some ⟨a.pos, "IMPL02", a, []⟩
  | .impl03 m => some ⟨a.pos, "IMPL03", a, m⟩
  | _ => none

/-- `runImplementsChecker`: all annotations of the scanned files, cascade, report-time @ignore filter -/
def checkImplements (cfg : Cfg) (info : ImplInfo) (p : Pkg) (outcome : ImplInfo → ImplAnn → ImplOutcome) : List ImplDiag :=
  let ig := readIgnores cfg p
  ((filesToScan cfg p).flatMap (implAnnsOfFile p.path)).filterMap fun a =>
    match implDiagOf a (outcome info a) with
    | some d => if ig.contains d.code d.pos then none else some d
    | none => none

end GGV.Model.Prog
