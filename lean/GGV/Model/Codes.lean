import GGV.Gen.Tables
/-!
# Model of `codes` (src/codes/codes.go)

`hierOf tbl code` is `codes.GetCodesForCheck` over `codes.CodesByCategory` = `tbl`:
`codeToCheckList` maps every category `k` to `["ALL", k]` and then every code `c` of category `k`
to `["ALL", k, c]` (the second loop overwrites the first on a clash); an unknown code yields
`["ALL", code]` — which is also what a bare category yields.  So the only distinction is whether
`code` is listed as a specific code of some category.
-/
namespace GGV.Model

abbrev CodeTable := List (String × List (String × String))

/-- the category under which `code` is listed as a specific code (first one in table order) -/
def categoryOf (tbl : CodeTable) (code : String) : Option String :=
  (tbl.find? (fun e => e.2.any (fun c => c.1 == code))).map (·.1)

/-- `codes.GetCodesForCheck` -/
def hierOf (tbl : CodeTable) (code : String) : List String :=
  match categoryOf tbl code with
  | some cat => ["ALL", cat, code]
  | none => ["ALL", code]

/-- instantiated at the table regenerated from /repo -/
def hier (code : String) : List String := hierOf GGV.Gen.codesByCategory code

def allCodes (tbl : CodeTable) : List String := tbl.flatMap (fun e => e.2.map (·.1))
def allCategories (tbl : CodeTable) : List String := tbl.map (·.1)

/-- `codes.GetDocumentationURL`: the page chosen — first `HasPrefix` case wins, else the default
    (prefix test on character lists so that it reduces in the kernel) -/
def docPageOf (cases : List (String × String)) (dflt : String) (code : String) : String :=
  match cases.find? (fun c => c.1.toList.isPrefixOf code.toList) with
  | some c => c.2
  | none => dflt

def docPage (code : String) : String := docPageOf GGV.Gen.docCases GGV.Gen.docDefault code

/-- the whole URL: base ++ page -/
def docUrl (code : String) : String := GGV.Gen.docBase ++ docPage code

end GGV.Model
