import GGV.Gen.Tables
/-!
# Model of `config` (src/config/config.go): list / bool parsing and flag > env > default resolution

Strings are lists of Unicode code points (`List Nat`): `strings.TrimSpace`, `ToUpper`, `ToLower` work on
runes. `upper` / `lower` are parameters (Go's `unicode.ToUpper/ToLower`); the theorems state exactly which
facts about them they use (`UpperOK`), and the harness validates those facts for Go's tables over all
0x110000 runes on every run.
-/
namespace GGV.Model.Config

abbrev Str := List Nat

def comma : Nat := 44

/-- Go's `unicode.IsSpace` -/
def isSpace (c : Nat) : Bool :=
  c == 9 || c == 10 || c == 11 || c == 12 || c == 13 || c == 32 || c == 0x85 || c == 0xA0 ||
  c == 0x1680 || (0x2000 ≤ c && c ≤ 0x200A) || c == 0x2028 || c == 0x2029 || c == 0x202F ||
  c == 0x205F || c == 0x3000

def dropSpaces : Str → Str
  | [] => []
  | c :: r => if isSpace c then dropSpaces r else c :: r

/-- `strings.TrimSpace` -/
def trim (s : Str) : Str := (dropSpaces (dropSpaces s).reverse).reverse

/-- `strings.Split(s, ",")` (never empty: `Split("", ",") = [""]`) -/
def splitComma : Str → List Str
  | [] => [[]]
  | c :: r =>
    if c == comma then [] :: splitComma r
    else match splitComma r with
      | [] => [[c]]      -- unreachable
      | p :: ps => (c :: p) :: ps

/-- `strings.Join(items, ",")` -/
def joinComma : List Str → Str
  | [] => []
  | [x] => x
  | x :: y :: r => x ++ comma :: joinComma (y :: r)

/-- `parseStringList(input, toUpper)` -/
def parseList (upper : Nat → Nat) (toUpper : Bool) (input : Str) : List Str :=
  if input = [] then []
  else (splitComma input).filterMap fun part =>
    let t := trim part
    if t = [] then none else some (if toUpper then t.map upper else t)

def ofString (s : String) : Str := s.toList.map Char.toNat

/-- `parseBool`: lower-case the trimmed value; `strconv.ParseBool` accepts (after lowering) 1, t, true
    as true and 0, f, false as false; otherwise yes / on are true, everything else false -/
def parseBool (lower : Nat → Nat) (s : Str) : Bool :=
  let v := (trim s).map lower
  v == ofString "1" || v == ofString "t" || v == ofString "true" || v == ofString "yes" || v == ofString "on"

structure Cfg where
  scanTests : Bool
  excludePaths : List Str
  excludeChecks : List Str
deriving Repr, DecidableEq

/-- what the process environment holds for the three variables (`none` = unset) -/
structure Env where
  scan : Option Str
  paths : Option Str
  checks : Option Str

/-- what the command line holds for the three flags (`none` = flag not given) -/
structure Flags where
  scan : Option Bool        -- the flag package has already parsed the boolean
  paths : Option Str
  checks : Option Str

structure Defaults where
  scanTests : Bool
  excludePaths : List Str
  excludeChecks : List Str

/-- `FromEnv()` -/
def fromEnv (upper lower : Nat → Nat) (d : Defaults) (e : Env) : Cfg :=
  { scanTests := match e.scan with
      | some v => if v = [] then d.scanTests else parseBool lower v
      | none => d.scanTests
    excludePaths := match e.paths with
      | some v => parseList upper false v
      | none => d.excludePaths
    excludeChecks := match e.checks with
      | some v => parseList upper true v
      | none => d.excludeChecks }

/-- `CreateFlagSet()` (flag defaults = the environment's configuration, lists re-joined with commas)
    followed by flag parsing and `ParseFlagsFromFlagSet` -/
def resolve (upper lower : Nat → Nat) (d : Defaults) (e : Env) (f : Flags) : Cfg :=
  let envCfg := fromEnv upper lower d e
  let scan := f.scan.getD envCfg.scanTests
  let pathsStr := f.paths.getD (joinComma envCfg.excludePaths)
  let checksStr := f.checks.getD (joinComma envCfg.excludeChecks)
  { scanTests := scan
    excludePaths := parseList upper false pathsStr
    excludeChecks := parseList upper true checksStr }

/-- the defaults regenerated from `config.Default()` / `FromEnv` (T5) -/
def repoDefaults : Defaults :=
  { scanTests := GGV.Gen.defaultScanTests
    excludePaths := GGV.Gen.defaultExcludePaths.map ofString
    excludeChecks := GGV.Gen.defaultExcludeChecks.map ofString }

/-- `Config.ShouldSkipFile`: exclude-path substrings first, then the `_test.go` suffix unless scan-tests -/
def isInfixOf (p s : Str) : Bool :=
  match s with
  | [] => p.isEmpty
  | _ :: r => p.isPrefixOf s || isInfixOf p r

def shouldSkip (c : Cfg) (filename : Str) : Bool :=
  c.excludePaths.any (fun p => isInfixOf p filename) ||
  (!c.scanTests && (ofString "_test.go").isSuffixOf filename)

end GGV.Model.Config
