import GGV.Run.Proto
import GGV.Model.Grammar
/-! `gram` suite: `recog <hex comment text>` → the verdict of all seven recognisers:
    `imm=0|1 test=0|1 mut=0|1 ctor=<-|hex,hex> pko=<-|_|hex,…> ign=<-|hex,…> impl=<-|0/1:hexpkg:hexname> pre=0|1 prei=0|1` -/
namespace GGV.Run
open GGV.Model GGV.Model.Grammar

def encNames (l : List Bytes) : String :=
  if l.isEmpty then "_" else ",".intercalate (l.map hex)

def gramRecogBytes (t : Bytes) : String :=
  let ctor := match parseConstructor t with | some ns => encNames ns | none => "-"
  let pko := match parsePackageOnly t with | some ns => encNames ns | none => "-"
  let ign := match parseIgnore t with | some ns => encNames ns | none => "-"
  let impl := match parseImplements t with
    | some (amp, p, n) => s!"{bit amp}:{hex p}:{hex n}"
    | none => "-"
  s!"imm={bit (recogniseBare kwImmutable t)} test={bit (recogniseBare kwTestonly t)} mut={bit (recogniseBare kwMutable t)} ctor={ctor} pko={pko} ign={ign} impl={impl} pre={bit (prefilterAnnotations t)} prei={bit (prefilterIgnore t)}"

def gramSuite (op : String) (args : List String) : String :=
  match op, args with
  | "recog", [h] => match unhex h with
    | some t => gramRecogBytes t
    | none => "bad-op"
  | _, _ => "bad-op"

end GGV.Run
