import GGV.Run.Proto
import GGV.Model.IgnoreSet
/-! `iset` suite: replay an IgnoreSet history and answer queries.
    payload: `<op>|<op>|… <q>,<q>,…` with op = `A:c1+c2:start:stop` | `G:c1+c2`, q = `code:pos`;
    an empty history is `-`. Codes are plain ASCII tokens; an empty code list is written `_`. -/
namespace GGV.Run
open GGV.Model

def parseCodes (s : String) : List String :=
  if s == "_" then [] else s.splitOn "+"

def parseOp (s : String) : Option Op :=
  match s.splitOn ":" with
  | ["A", cs, a, b] => do
    let a ← parseInt a
    let b ← parseInt b
    some (.add ⟨parseCodes cs, a, b⟩)
  | ["G", cs] => some (.addModule (parseCodes cs))
  | _ => none

def isetHist (args : List String) : String :=
  match args with
  | [opsS, qsS] =>
    let opsO : Option (List Op) := if opsS == "-" then some [] else (opsS.splitOn "|").mapM parseOp
    match opsO with
    | none => "bad-op"
    | some ops =>
      let s := run ops
      let answers := (qsS.splitOn ",").map fun q =>
        match q.splitOn ":" with
        | [c, p] => match parseInt p with
          | some p => bit (s.contains c p)
          | none => '?'
        | _ => '?'
      String.ofList answers
  | _ => "bad-op"

/-- `hier <code>`: the hierarchy of one code, `+`-joined -/
def isetHier (args : List String) : String :=
  match args with
  | [c] => "+".intercalate (hier c)
  | _ => "bad-op"

def isetSuite (op : String) (args : List String) : String :=
  match op with
  | "hist" => isetHist args
  | "hier" => isetHier args
  | _ => "bad-op"

end GGV.Run
