import GGV.Run.Proto
import GGV.Model.Codes
/-! `tables` suite: read-only access to facts of the regenerated tables.
    `docurl <code>` → the documentation URL; `diag <Cxx>` → entries of the tables that falsify the
    table theorems of the property (`ok` if none) — used to turn a broken `decide` into a concrete witness. -/
namespace GGV.Run
open GGV.Model

def tablesDiag (pid : String) : String :=
  let tbl := GGV.Gen.codesByCategory
  let problems : List String :=
    match pid with
    | "C16" | "C08" =>
      (if (allCodes tbl).eraseDups.length != (allCodes tbl).length then ["duplicate-code-in-CodesByCategory"] else []) ++
      (allCategories tbl).filterMap (fun k => if (allCodes tbl).contains k then some s!"category-{k}-is-also-a-code" else none)
    | "C17" =>
      let doc := GGV.Gen.documentedCodes.map (·.1)
      (allCodes tbl).filterMap (fun c => if doc.contains c then none else some s!"code-{c}-emitted-but-not-in-the-documented-table") ++
      doc.filterMap (fun c => if (allCodes tbl).contains c then none else some s!"code-{c}-documented-but-not-in-CodesByCategory") ++
      tbl.flatMap (fun e => e.2.filterMap fun c =>
        match GGV.Gen.docCases.find? (fun k => k.1 == e.1) with
        | some k => if docPage c.1 == k.2 && GGV.Gen.bookPages.contains k.2 then none else some s!"code-{c.1}-links-to-{docPage c.1}-expected-{k.2}"
        | none => some s!"category-{e.1}-has-no-documentation-case") ++
      GGV.Gen.checkerCodes.filterMap (fun pc =>
        let cat := match pc.1 with
          | "immutable" => "IMM" | "constructor" => "CTOR" | "testonly" => "TONL" | "packageonly" => "PKGO" | "implements" => "IMPL" | _ => "?"
        match tbl.find? (fun e => e.1 == cat) with
        | some e => if pc.2 == e.2.map (·.1) then none else some s!"package-{pc.1}-references-codes-{"+".intercalate pc.2}"
        | none => some s!"package-{pc.1}-has-no-category")
    | "C06" =>
      GGV.Gen.factFields.filterMap (fun f => if f.2.2.1 && f.2.2.2.2 then none else some s!"fact-field-{f.1}.{f.2.1}-of-type-{f.2.2.2.1}-not-exported-or-not-gob-transmissible") ++
      GGV.Gen.analyzers.flatMap (fun a =>
        a.facts.filterMap fun f => if a.exportedOnEmpty.contains f then none else some s!"analyzer-{a.name}-exports-no-{f}-for-a-package-without-declarations") ++
      GGV.Gen.analyzers.filterMap (fun a =>
        if !a.facts.isEmpty && a.name != "annotationreader" && !(a.requires.contains "annotationreader") then some s!"analyzer-{a.name}-does-not-require-the-annotation-reader" else none)
    | "C11" =>
      GGV.Gen.packageVarWrites.filterMap (fun w =>
        if w.2.2.1 == "assign-under-once" ||
           (w.2.2.1 == "ptrcall" && w.2.2.2.1 == "sync.Once" && w.2.2.2.2 == "Do") ||
           (w.2.2.1 == "ptrcall" && w.2.2.2.1 == "regexp.Regexp" && w.2.2.2.2 != "Longest") ||
           (w.2.2.1 == "ptrcall" && w.2.2.2.1 == "ahocorasick.Matcher" && (w.2.2.2.2 == "Contains" || w.2.2.2.2 == "MatchThreadSafe")) then none
        else some s!"package-level-{w.1}-written-in-{w.2.1}-by-{w.2.2.1}-{w.2.2.2.1}.{w.2.2.2.2}") ++
      GGV.Gen.packageVars.filterMap (fun v =>
        if v.2 == "*analysis.Analyzer" || v.2 == "*regexp.Regexp" || v.2 == "*ahocorasick.Matcher" ||
           v.2 == "map[string][]codes.Code" || v.2 == "map[string][]string" || v.2 == "*config.Config" || v.2 == "sync.Once" || v.2 == "read-only data" || v.2 == "read-only list" then none
        else some s!"package-level-variable-{v.1}-of-type-{v.2.replace " " "_"}") ++
      GGV.Gen.sharedReadMethods.filterMap (fun m =>
        if m.2.1 == "" || m.2.2 == "src/indexing" then none
        else some s!"lookup-{m.1}-called-from-{m.2.2.replace " " ","}-writes-its-receiver-at-{m.2.1.replace " " ","}")
    | "C19" => if GGV.Gen.maxLineLength < 4 then ["MaxLineLength-below-4"] else
               (if GGV.Gen.contextBefore != 2 || GGV.Gen.contextAfter != 1 then [s!"context-is-{GGV.Gen.contextBefore}-{GGV.Gen.contextAfter}-not-2-1"] else [])
    | "C18" => if GGV.Gen.defaultScanTests != false || GGV.Gen.defaultExcludePaths != ["testdata"] || GGV.Gen.defaultExcludeChecks != [] then ["defaults-differ-from-documented"] else []
    | _ => []
  if problems.isEmpty then "ok" else ",".intercalate problems

def tablesSuite (op : String) (args : List String) : String :=
  match op, args with
  | "docurl", [c] => docUrl c
  | "diag", [p] => tablesDiag p
  | _, _ => "bad-op"

end GGV.Run
