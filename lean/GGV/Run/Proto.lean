/-! Line-protocol helpers shared by the suite handlers of `ggmodel` (tooling, no proofs). -/
namespace GGV.Run

def hexVal (c : Char) : Option Nat :=
  if '0' ≤ c ∧ c ≤ '9' then some (c.toNat - '0'.toNat)
  else if 'a' ≤ c ∧ c ≤ 'f' then some (c.toNat - 'a'.toNat + 10)
  else if 'A' ≤ c ∧ c ≤ 'F' then some (c.toNat - 'A'.toNat + 10)
  else none

/-- decode a lowercase hex string into bytes; "-" is the empty string -/
def unhex (s : String) : Option (List UInt8) :=
  if s == "-" then some [] else
  let rec go : List Char → List UInt8 → Option (List UInt8)
    | [], acc => some acc.reverse
    | [_], _ => none
    | a :: b :: r, acc => do
      let x ← hexVal a
      let y ← hexVal b
      go r (UInt8.ofNat (x * 16 + y) :: acc)
  go s.toList []

def hexDigit (n : Nat) : Char :=
  if n < 10 then Char.ofNat (n + '0'.toNat) else Char.ofNat (n - 10 + 'a'.toNat)

def hex (bs : List UInt8) : String :=
  if bs.isEmpty then "-" else
  String.ofList (bs.flatMap fun b => [hexDigit (b.toNat / 16), hexDigit (b.toNat % 16)])

/-- decode a hex payload as a (UTF-8) string; invalid UTF-8 is not expected on this channel -/
def unhexStr (s : String) : Option String := do
  let bs ← unhex s
  String.fromUTF8? (ByteArray.mk bs.toArray)

def hexStr (s : String) : String := hex s.toUTF8.toList

def bit (b : Bool) : Char := if b then '1' else '0'

def parseInt (s : String) : Option Int := s.toInt?

end GGV.Run
