import GGV.Run.Proto
import GGV.Model.Checkers
import GGV.Model.Implements
/-! `apf` suite: reader of the abstract program format and the stateful session
    (configuration, facts of the packages analysed so far). Tooling, not part of any proof. -/
namespace GGV.Run
open GGV.Model GGV.Model.Prog

abbrev P := StateT Nat (Except String)

structure Toks where
  a : Array String

def Toks.next (t : Toks) : P String := do
  let i ← get
  match t.a[i]? with
  | some s => set (i + 1); pure s
  | none => throw s!"unexpected end of input at token {i}"

def Toks.expect (t : Toks) (s : String) : P Unit := do
  let x ← t.next
  if x != s then throw s!"expected {s}, got {x} at token {(← get) - 1}"

def Toks.int (t : Toks) : P Int := do
  let s ← t.next
  match s.toInt? with
  | some v => pure v
  | none => throw s!"bad int {s}"

def Toks.nat (t : Toks) : P Nat := do
  let s ← t.next
  match s.toNat? with
  | some v => pure v
  | none => throw s!"bad nat {s}"

def Toks.bytes (t : Toks) : P Bytes := do
  let s ← t.next
  match unhex s with
  | some v => pure v
  | none => throw s!"bad hex {s}"

/-- `~` = none, else hex -/
def Toks.optBytes (t : Toks) : P (Option Bytes) := do
  let s ← t.next
  if s == "~" then pure none else
  match unhex s with
  | some v => pure (some v)
  | none => throw s!"bad hex {s}"

def Toks.bool (t : Toks) : P Bool := do
  let s ← t.next
  pure (s == "1")

def rep {α} (n : Nat) (p : P α) : P (List α) := do
  let mut acc : Array α := #[]
  for _ in [0:n] do
    acc := acc.push (← p)
  pure acc.toList

partial def pTy (t : Toks) : P Ty := do
  match ← t.next with
  | "n" => let p ← t.optBytes; let n ← t.bytes; pure (.named p n)
  | "p" => let e ← pTy t; pure (.ptr e)
  | "a" => let p ← t.optBytes; let n ← t.bytes; let r ← pTy t; pure (.alias p n r)
  | "x" => pure .other
  | s => throw s!"bad type tag {s}"

def pOptTy (t : Toks) : P (Option Ty) := do
  let i ← get
  match t.a[i]? with
  | some "~" => set (i + 1); pure none
  | _ => some <$> pTy t

def pObj (t : Toks) : P Obj := do
  match ← t.next with
  | "~" => pure .none
  | "t" => let p ← t.optBytes; let n ← t.bytes; pure (.typeName p n)
  | "f" => let p ← t.optBytes; let n ← t.bytes; pure (.func p n)
  | "m" => let p ← t.optBytes; let n ← t.bytes; let r ← pTy t; pure (.method p n r)
  | "v" => let p ← t.optBytes; pure (.other p)
  | s => throw s!"bad obj tag {s}"

partial def pLhs (t : Toks) : P Lhs := do
  match ← t.next with
  | "sel" => let ty ← pOptTy t; let n ← t.bytes; let pos ← t.int; pure (.sel ty n pos)
  | "idx" => let x ← pLhs t; let pos ← t.int; pure (.idx x pos)
  | "star" => let x ← pLhs t; let pos ← t.int; pure (.star x pos)
  | "par" => let x ← pLhs t; pure (.paren x)
  | "ident" => let n ← t.bytes; pure (.ident n)
  | "oth" => pure .other
  | s => throw s!"bad lhs tag {s}"

def pCallee (t : Toks) : P Callee := do
  match ← t.next with
  | "i" => let n ← t.bytes; let o ← pObj t; pure (.ident n o)
  | "s" => let p ← t.optBytes; let n ← t.bytes; let ty ← pOptTy t; pure (.sel p n ty)
  | "x" => pure .other
  | s => throw s!"bad callee tag {s}"

def pKind (t : Toks) : P Kind := do
  match ← t.next with
  | "o" => pure .other
  | "cm" => pure .comment
  | "fd" => let n ← t.bytes; pure (.funcDecl n)
  | "as" =>
    let tok ← t.next
    let tok := if tok == "a" then AssignTok.assign else if tok == "d" then .define else .op
    let n ← t.nat
    let l ← rep n (pLhs t)
    pure (.assign tok l)
  | "id" => let x ← pLhs t; pure (.incDec x)
  | "cl" => let ty ← pOptTy t; pure (.compLit ty)
  | "ca" => let c ← pCallee t; let n ← t.nat; let a ← pOptTy t; pure (.call c n a)
  | "gv" =>
    let n ← t.nat
    let specs ← rep n (do
      t.expect "VS"
      let hv ← t.bool
      let k ← t.nat
      let names ← rep k (do
        let nm ← t.bytes; let pos ← t.int; let ty ← pOptTy t
        pure (⟨nm, pos, ty⟩ : VarName))
      pure (⟨hv, names⟩ : VarSpec))
    pure (.genVar specs)
  | "vs" => let ty ← pOptTy t; pure (.valueSpec ty)
  | "fl" => let ty ← pOptTy t; pure (.field ty)
  | "se" => let o ← pObj t; pure (.selector o)
  | s => throw s!"bad node kind {s}"

def pNode (t : Toks) : P Node := do
  t.expect "N"
  let pos ← t.int; let stop ← t.int; let sl ← t.int; let el ← t.int; let size ← t.nat
  let k ← pKind t
  pure ⟨k, pos, stop, sl, el, size⟩

def pDoc (t : Toks) : P Doc := do
  match ← t.next with
  | "~" => pure none
  | "D" => let n ← t.nat; let l ← rep n t.bytes; pure (some l)
  | s => throw s!"bad doc tag {s}"

def pDecl (t : Toks) : P Decl := do
  match ← t.next with
  | "FUNC" =>
    let pos ← t.int; let stop ← t.int; let el ← t.int
    let name ← t.bytes
    let doc ← pDoc t
    let recv ← (do
      match ← t.next with
      | "~" => pure none
      | "R" =>
        let syn ← t.bytes; let nm ← t.optBytes; let ty ← pOptTy t
        pure (some (⟨syn, nm, ty⟩ : RecvInfo))
      | s => throw s!"bad recv tag {s}")
    let n ← t.nat
    let nodes ← rep n (pNode t)
    pure ⟨.func name doc recv, pos, stop, el, nodes⟩
  | "GEN" =>
    let pos ← t.int; let stop ← t.int; let el ← t.int
    let tok ← t.bytes
    let doc ← pDoc t
    let ns ← t.nat
    let specs ← rep ns (do
      t.expect "TS"
      let name ← t.bytes; let pos ← t.int; let doc ← pDoc t; let isS ← t.bool
      let nf ← t.nat
      let fields ← rep nf (do
        t.expect "FLD"
        let d ← pDoc t
        let k ← t.nat
        let names ← rep k (do let nm ← t.bytes; let p ← t.int; pure (nm, p))
        pure (⟨d, names⟩ : FieldDecl))
      pure (⟨name, pos, doc, isS, fields⟩ : TypeSpecInfo))
    let n ← t.nat
    let nodes ← rep n (pNode t)
    pure ⟨.gen tok doc specs, pos, stop, el, nodes⟩
  | s => throw s!"bad decl tag {s}"

def pFile (t : Toks) : P File := do
  t.expect "FILE"
  let name ← t.bytes
  let ppos ← t.int; let fend ← t.int
  let ni ← t.nat
  let imps ← rep ni (do
    t.expect "IMP"
    let a ← t.optBytes; let p ← t.bytes; let d ← t.optBytes
    pure (⟨a, p, d⟩ : ImportSpec))
  let nc ← t.nat
  let cms ← rep nc (do
    t.expect "C"
    let pos ← t.int; let stop ← t.int; let line ← t.int; let ls ← t.int; let text ← t.bytes
    pure (⟨pos, stop, line, ls, text⟩ : Comment))
  let nd ← t.nat
  let decls ← rep nd (pDecl t)
  pure ⟨name, ppos, fend, imps, cms, decls⟩

def pImpl (t : Toks) : P ImplInfo := do
  let i ← get
  match t.a[i]? with
  | some "IMPL" =>
    set (i + 1)
    let ni ← t.nat
    let ifaces ← rep ni (do
      t.expect "IF"
      let pkg ← t.bytes; let name ← t.bytes
      let nm ← t.nat
      let ms ← rep nm (do let id ← t.bytes; let n ← t.bytes; let s ← t.nat; pure (⟨id, n, s⟩ : MSig))
      pure (⟨pkg, name, ms⟩ : IfaceDecl))
    let nt ← t.nat
    let types ← rep nt (do
      t.expect "TY"
      let name ← t.bytes; let isNamed ← t.bool; let isIface ← t.bool
      let nm ← t.nat
      let ms ← rep nm (do let id ← t.bytes; let n ← t.bytes; let s ← t.nat; let np ← t.bool; pure (⟨id, n, s, np⟩ : TypeMeth))
      let ng ← t.nat
      let gos ← rep ng (do
        t.expect "GO"
        let ip ← t.bytes; let iname ← t.bytes; let ptr ← t.bool; let impl ← t.bool
        let k ← t.nat
        let miss ← rep k t.bytes
        pure (⟨ip, iname, ptr, impl, miss⟩ : GoVerdict))
      pure (⟨name, isNamed, isIface, ms, gos⟩ : ImplType))
    pure ⟨ifaces, types⟩
  | _ => pure {}

def pPkg (t : Toks) : P (Pkg × ImplInfo) := do
  t.expect "PKG"
  let id ← t.bytes; let path ← t.bytes; let name ← t.bytes
  let ni ← t.nat
  let imps ← rep ni t.bytes
  let nf ← t.nat
  let files ← rep nf (pFile t)
  let impl ← pImpl t
  pure (⟨id, path, name, imps, files⟩, impl)

/-! ## well-formedness of an abstract program (decidable; evaluated on every input) -/

/-- children lie inside their parent, sizes are consistent with the list, FuncDecl nodes only head a FUNC declaration -/
def nodesWF : List Node → Bool
  | [] => true
  | n :: r =>
    decide (n.size ≤ r.length) && decide (n.pos ≤ n.stop) &&
    (r.take n.size).all (fun m => (match m.kind with | .comment => true | _ => decide (n.pos ≤ m.pos) && decide (m.stop ≤ n.stop))) &&
    nodesWF r

def declWF (d : Decl) : Bool :=
  nodesWF d.nodes &&
  (match d.nodes with
   | [] => false
   | n :: r =>
     decide (n.size = r.length) && n.pos == d.pos && n.stop == d.stop &&
     r.all (fun m => match m.kind with | .funcDecl _ => false | _ => true) &&
     (match d.info, n.kind with
      | .func name _ _, .funcDecl name' => name == name'
      | .gen .., .funcDecl _ => false
      | .func .., _ => false
      | .gen .., _ => true))

def fileWF (f : File) : Bool :=
  f.decls.all declWF &&
  -- declarations in source order, not overlapping
  (f.decls.zip f.decls.tail).all (fun p => decide (p.1.stop ≤ p.2.pos))

def pkgWF (p : Pkg) : Bool := p.files.all fileWF

/-! ## session -/

structure Session where
  cfg : Cfg := {}
  facts : List (Name × Name × Annotations) := []    -- (package id, package path, annotations)

def encDiags (ds : List Diag) : String :=
  if ds.isEmpty then "_" else ",".intercalate (ds.map fun d => s!"{d.pos}:{d.code}")

def akindTag : AKind → String
  | .onType => "0"
  | .onFunc => "1"
  | .onMethod => "2"

/-- every annotation as one item, order-free (the harness sorts both sides) -/
def encAnn (a : Annotations) : String :=
  let items : List String :=
    a.immutable.map (fun t => s!"I:{hex t}") ++
    a.constructors.map (fun c => s!"K:{hex c.1}:{"+".intercalate (c.2.map hex)}") ++
    a.testonly.map (fun t => s!"T:{akindTag t.kind}:{hex t.name}:{hex t.recv}") ++
    a.mutable.map (fun m => s!"M:{hex m.1}:{hex m.2}") ++
    a.packageonly.map (fun p => s!"P:{akindTag p.kind}:{hex p.name}:{hex p.recv}:{"+".intercalate (p.allowed.map hex)}")
  if items.isEmpty then "_" else ",".intercalate items

def encMarkers (ops : List Op) : String :=
  let ms := ops.filterMap fun
    | .add m => some s!"{m.start}-{m.stop}:{"+".intercalate m.codes}"
    | .addModule _ => none
  if ms.isEmpty then "_" else ",".intercalate ms

def implDisplay (a : ImplAnn) : Bytes := if a.qualifier = [] then a.iface else a.qualifier ++ [46] ++ a.iface

def encImpl (ds : List ImplDiag) : String :=
  if ds.isEmpty then "_" else
  ",".intercalate (ds.map fun d =>
    if d.code == "IMPL01" then s!"{d.pos}:IMPL01:{hex d.ann.qualifier}"
    else if d.code == "IMPL02" then s!"{d.pos}:IMPL02:{hex (implDisplay d.ann)}"
    else s!"{d.pos}:IMPL03:{hex (implDisplay d.ann)}:{"+".intercalate (d.missing.map hex)}")

def apfPkg (s : Session) (args : List String) : Session × String :=
  let t : Toks := ⟨args.toArray⟩
  match (pPkg t).run 0 with
  | .error e => (s, "parse-error:" ++ e.replace " " "_")
  | .ok ((p, info), used) =>
    if used != args.length then (s, s!"parse-error:trailing-tokens-{used}-of-{args.length}") else
    let facts := p.imports.filterMap fun id =>
      (s.facts.find? (fun f => f.1 == id)).map fun f => (f.2.1, f.2.2)
    let missing := p.imports.filter fun id => !(s.facts.any (fun f => f.1 == id))
    let r := analyze s.cfg facts p
    let s' := { s with facts := (p.id, p.path, r.ann) :: s.facts.filter (fun f => f.1 != p.id) }
    let wf := if pkgWF p then "ok" else "bad"
    let impl := checkImplements s.cfg info p implOutcome
    let spec := checkImplements s.cfg info p goOutcome
    (s', s!"diags={encDiags r.diags} wf={wf} missingfacts={missing.length} ann={encAnn r.ann} ign={encMarkers (ignoreOps s.cfg p)} impl={encImpl impl} implspec={encImpl spec}")

def decodeNames (a : String) : Option (List Bytes) :=
  if a == "_" then some [] else (a.splitOn ",").mapM unhex

def apfCfg (s : Session) (args : List String) : Session × String :=
  match args with
  | [scan, paths, checks] =>
    match decodeNames paths, decodeNames checks with
    | some ps, some cs => ({ s with cfg := ⟨scan == "1", ps, cs.map codeString⟩ }, "ok")
    | _, _ => (s, "bad-op")
  | _ => (s, "bad-op")

def apfSuite (s : Session) (op : String) (args : List String) : Session × String :=
  match op with
  | "reset" => ({}, "ok")
  | "cfg" => apfCfg s args
  | "pkg" => apfPkg s args
  | _ => (s, "bad-op")

end GGV.Run
