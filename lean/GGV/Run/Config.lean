import GGV.Run.Proto
import GGV.Model.Config
/-! `cfg` suite.
    `resolve <fscan> <fpaths> <fchecks> <escan> <epaths> <echecks>`: `~` = absent, else hex of UTF-8
    (flag scan: `~`/`0`/`1`) → `<0|1> <paths> <checks>` with lists as `,`-joined hex items (`_` = empty list).
    `skip <scan 0|1> <paths> <hex filename>` → `0|1` (Config.ShouldSkipFile).
    The case mappings are ASCII-only here; the harness only sends strings on which Go's unicode tables
    agree with that (checked on the Go side, rune by rune). -/
namespace GGV.Run
open GGV.Model.Config

def asciiUpper (c : Nat) : Nat := if 97 ≤ c ∧ c ≤ 122 then c - 32 else c
def asciiLower (c : Nat) : Nat := if 65 ≤ c ∧ c ≤ 90 then c + 32 else c

def decodeStr (h : String) : Option Str := (unhexStr h).map ofString

def encodeStr (s : Str) : String := hexStr (String.ofList (s.map Char.ofNat))

def optStr (a : String) : Option (Option Str) :=
  if a == "~" then some none else (decodeStr a).map some

def encodeList (l : List Str) : String :=
  if l.isEmpty then "_" else ",".intercalate (l.map encodeStr)

def decodeList (a : String) : Option (List Str) :=
  if a == "_" then some [] else (a.splitOn ",").mapM decodeStr

def cfgResolve (args : List String) : String :=
  match args with
  | [fs, fp, fc, es, ep, ec] =>
    let fscan : Option (Option Bool) :=
      if fs == "~" then some none else if fs == "1" then some (some true) else if fs == "0" then some (some false) else none
    match fscan, optStr fp, optStr fc, optStr es, optStr ep, optStr ec with
    | some fscan, some fp, some fc, some es, some ep, some ec =>
      let c := resolve asciiUpper asciiLower repoDefaults ⟨es, ep, ec⟩ ⟨fscan, fp, fc⟩
      s!"{bit c.scanTests} {encodeList c.excludePaths} {encodeList c.excludeChecks}"
    | _, _, _, _, _, _ => "bad-op"
  | _ => "bad-op"

def cfgSkip (args : List String) : String :=
  match args with
  | [scan, paths, name] =>
    match decodeList paths, decodeStr name with
    | some ps, some n => String.singleton (bit (shouldSkip ⟨scan == "1", ps, []⟩ n))
    | _, _ => "bad-op"
  | _ => "bad-op"

def cfgSuite (op : String) (args : List String) : String :=
  match op with
  | "resolve" => cfgResolve args
  | "skip" => cfgSkip args
  | _ => "bad-op"

end GGV.Run
