import GGV.Run.Proto
import GGV.Model.Excerpt
/-! `excerpt` suite.
    `render <hex file content | !> <L> <C> <hex code> <hex msg>` → hex of the whole message
    (`!` = the file cannot be read). Constants come from the regenerated tables. -/
namespace GGV.Run
open GGV.Model

def excerptRender (args : List String) : String :=
  match args with
  | [content, l, c, code, msg] =>
    match parseInt l, parseInt c, unhex code, unhex msg with
    | some l, some c, some code, some msg =>
      let lines? : Option (List Bytes) :=
        if content == "!" then some [] else (unhex content).map (splitLines 65536)
      match lines? with
      | none => "bad-op"
      | some lines =>
        let codeStr := (String.fromUTF8? (ByteArray.mk code.toArray)).getD ""
        let url := str (docUrl codeStr)
        hex (render GGV.Gen.maxLineLength GGV.Gen.contextBefore GGV.Gen.contextAfter url code msg lines l c)
    | _, _, _, _ => "bad-op"
  | _ => "bad-op"

/-- `trunc <hex line> <M> <pos>` → `<hex truncated> <display column>`; also checks `truncateG` agrees -/
def excerptTrunc (args : List String) : String :=
  match args with
  | [line, m, p] =>
    match unhex line, m.toNat?, parseInt p with
    | some s, some m, some p =>
      let t := truncate s m p
      let g := if truncateG s m p == some t then "total" else "PANIC"
      hex t ++ " " ++ toString (displayCol s p m) ++ " " ++ g
    | _, _, _ => "bad-op"
  | _ => "bad-op"

def excerptSuite (op : String) (args : List String) : String :=
  match op with
  | "render" => excerptRender args
  | "trunc" => excerptTrunc args
  | _ => "bad-op"

end GGV.Run
