import GGV.Model.Checkers
/-!
# Re-spelling: the analysis reads a type only through its alias-free normal form

`mapTy σ` rewrites every go/types type the extractor attached to a use site (operands of selectors, literals, `new`,
declared variables, fields / parameters, receivers). If `σ` only re-spells (`norm (σ t) = norm t`: local alias, alias
from a third package, alias of a pointer, pointer to an alias), every walk returns the same result.
-/
namespace GGV.Model.Prog
open GGV.Model

/-- alias-free normal form (what `types.Identical` compares, as far as aliases go) -/
def Ty.norm : Ty → Ty
  | .alias _ _ r => r.norm
  | .ptr e => .ptr e.norm
  | t => t

theorem Ty.norm_unalias (t : Ty) : t.norm.unalias = t.norm := by
  induction t with
  | alias p n r ih => simpa [Ty.norm] using ih
  | _ => rfl

theorem Ty.unalias_cases (t : Ty) :
    (∃ p n, t.unalias = .named p n ∧ t.norm = .named p n) ∨
    (∃ e, t.unalias = .ptr e ∧ t.norm = .ptr e.norm) ∨
    (t.unalias = .other ∧ t.norm = .other) := by
  induction t with
  | alias p n r ih => simpa [Ty.unalias, Ty.norm] using ih
  | named p n => exact Or.inl ⟨p, n, rfl, rfl⟩
  | ptr e _ => exact Or.inr (Or.inl ⟨e, rfl, rfl⟩)
  | other => exact Or.inr (Or.inr ⟨rfl, rfl⟩)

theorem typeInfo_norm' (t : Ty) : typeInfo (some t) = typeInfo (some t.norm) := by
  unfold typeInfo
  simp only
  rw [Ty.norm_unalias]
  rcases Ty.unalias_cases t with ⟨p, n, h1, h2⟩ | ⟨e, h1, h2⟩ | ⟨h1, h2⟩
  · rw [h1, h2]
  · rw [h1, h2]
    simp only
    rw [Ty.norm_unalias]
    rcases Ty.unalias_cases e with ⟨p, n, h3, h4⟩ | ⟨e', h3, h4⟩ | ⟨h3, h4⟩ <;> rw [h3, h4]
  · rw [h1, h2]

theorem varTypeInfo_norm' (t : Ty) : varTypeInfo (some t) = varTypeInfo (some t.norm) := by
  unfold varTypeInfo
  simp only
  rw [Ty.norm_unalias]
  rcases Ty.unalias_cases t with ⟨p, n, h1, h2⟩ | ⟨e, h1, h2⟩ | ⟨h1, h2⟩ <;> rw [h1, h2]

theorem typeName_norm' (t : Ty) : typeName t = typeName t.norm := by
  unfold typeName
  rw [Ty.norm_unalias]
  rcases Ty.unalias_cases t with ⟨p, n, h1, h2⟩ | ⟨e, h1, h2⟩ | ⟨h1, h2⟩
  · rw [h1, h2]
  · rw [h1, h2]
    simp only
    rw [Ty.norm_unalias]
    rcases Ty.unalias_cases e with ⟨p, n, h3, h4⟩ | ⟨e', h3, h4⟩ | ⟨h3, h4⟩ <;> rw [h3, h4]
  · rw [h1, h2]

/-- `σ` only re-spells types -/
def Respells (σ : Ty → Ty) : Prop := ∀ t, (σ t).norm = t.norm

section
variable (σ : Ty → Ty) (hσ : Respells σ)
include hσ

theorem typeInfo_map (t : Option Ty) : typeInfo (t.map σ) = typeInfo t := by
  cases t with
  | none => rfl
  | some t => simp only [Option.map_some]; rw [typeInfo_norm' (σ t), typeInfo_norm' t, hσ t]

theorem varTypeInfo_map (t : Option Ty) : varTypeInfo (t.map σ) = varTypeInfo t := by
  cases t with
  | none => rfl
  | some t => simp only [Option.map_some]; rw [varTypeInfo_norm' (σ t), varTypeInfo_norm' t, hσ t]

theorem typeName_map (t : Ty) : typeName (σ t) = typeName t := by
  rw [typeName_norm' (σ t), typeName_norm' t, hσ t]
end

def Lhs.mapTy (σ : Ty → Ty) : Lhs → Lhs
  | .sel t n p => .sel (t.map σ) n p
  | .idx x p => .idx (x.mapTy σ) p
  | .star x p => .star (x.mapTy σ) p
  | .paren x => .paren (x.mapTy σ)
  | .ident n => .ident n
  | .other => .other

def Obj.mapTy (σ : Ty → Ty) : Obj → Obj
  | .method p n r => .method p n (σ r)
  | o => o

def Callee.mapTy (σ : Ty → Ty) : Callee → Callee
  | .sel pk n xTy => .sel pk n (xTy.map σ)
  | c => c

def VarSpec.mapTy (σ : Ty → Ty) (s : VarSpec) : VarSpec :=
  { s with names := s.names.map fun v => { v with ty := v.ty.map σ } }

def Kind.mapTy (σ : Ty → Ty) : Kind → Kind
  | .assign tok lhs => .assign tok (lhs.map (Lhs.mapTy σ))
  | .incDec x => .incDec (x.mapTy σ)
  | .compLit ty => .compLit (ty.map σ)
  | .call c n a0 => .call (c.mapTy σ) n (a0.map σ)
  | .genVar specs => .genVar (specs.map (VarSpec.mapTy σ))
  | .valueSpec ty => .valueSpec (ty.map σ)
  | .field ty => .field (ty.map σ)
  | .selector o => .selector (o.mapTy σ)
  | k => k

def Node.mapTy (σ : Ty → Ty) (n : Node) : Node := { n with kind := n.kind.mapTy σ }

def DeclInfo.mapTy (σ : Ty → Ty) : DeclInfo → DeclInfo
  | .func name doc (some r) => .func name doc (some { r with ty := r.ty.map σ })
  | i => i

def Decl.mapTy (σ : Ty → Ty) (d : Decl) : Decl := { d with info := d.info.mapTy σ, nodes := d.nodes.map (Node.mapTy σ) }
def File.mapTy (σ : Ty → Ty) (f : File) : File := { f with decls := f.decls.map (Decl.mapTy σ) }
def Pkg.mapTy (σ : Ty → Ty) (p : Pkg) : Pkg := { p with files := p.files.map (File.mapTy σ) }

@[simp] theorem Node.mapTy_kind (σ : Ty → Ty) (n : Node) : (n.mapTy σ).kind = n.kind.mapTy σ := rfl
@[simp] theorem Node.mapTy_pos (σ : Ty → Ty) (n : Node) : (n.mapTy σ).pos = n.pos := rfl
@[simp] theorem Node.mapTy_stop (σ : Ty → Ty) (n : Node) : (n.mapTy σ).stop = n.stop := rfl
@[simp] theorem Node.mapTy_size (σ : Ty → Ty) (n : Node) : (n.mapTy σ).size = n.size := rfl
@[simp] theorem Node.mapTy_startLine (σ : Ty → Ty) (n : Node) : (n.mapTy σ).startLine = n.startLine := rfl
@[simp] theorem Node.mapTy_endLine (σ : Ty → Ty) (n : Node) : (n.mapTy σ).endLine = n.endLine := rfl
@[simp] theorem Decl.mapTy_nodes (σ : Ty → Ty) (d : Decl) : (d.mapTy σ).nodes = d.nodes.map (Node.mapTy σ) := rfl
@[simp] theorem Decl.mapTy_info (σ : Ty → Ty) (d : Decl) : (d.mapTy σ).info = d.info.mapTy σ := rfl
@[simp] theorem Decl.mapTy_pos (σ : Ty → Ty) (d : Decl) : (d.mapTy σ).pos = d.pos := rfl
@[simp] theorem Decl.mapTy_stop (σ : Ty → Ty) (d : Decl) : (d.mapTy σ).stop = d.stop := rfl
@[simp] theorem Decl.mapTy_endLine (σ : Ty → Ty) (d : Decl) : (d.mapTy σ).endLine = d.endLine := rfl
@[simp] theorem File.mapTy_name (σ : Ty → Ty) (f : File) : (f.mapTy σ).name = f.name := rfl
@[simp] theorem File.mapTy_decls (σ : Ty → Ty) (f : File) : (f.mapTy σ).decls = f.decls.map (Decl.mapTy σ) := rfl
@[simp] theorem File.mapTy_comments (σ : Ty → Ty) (f : File) : (f.mapTy σ).comments = f.comments := rfl
@[simp] theorem File.mapTy_packagePos (σ : Ty → Ty) (f : File) : (f.mapTy σ).packagePos = f.packagePos := rfl
@[simp] theorem File.mapTy_fileEnd (σ : Ty → Ty) (f : File) : (f.mapTy σ).fileEnd = f.fileEnd := rfl
@[simp] theorem Pkg.mapTy_path (σ : Ty → Ty) (p : Pkg) : (p.mapTy σ).path = p.path := rfl
@[simp] theorem Pkg.mapTy_name (σ : Ty → Ty) (p : Pkg) : (p.mapTy σ).name = p.name := rfl

theorem filesToScan_mapTy (σ : Ty → Ty) (cfg : Cfg) (p : Pkg) :
    filesToScan cfg (p.mapTy σ) = (filesToScan cfg p).map (File.mapTy σ) := by
  unfold filesToScan Pkg.mapTy
  simp only [List.filter_map]
  congr 1

theorem Lhs.unparen_mapTy (σ : Ty → Ty) (l : Lhs) : (l.mapTy σ).unparen = l.unparen.mapTy σ := by
  induction l with
  | paren x ih => simpa [Lhs.mapTy, Lhs.unparen] using ih
  | sel t n p => rfl
  | idx x p _ => rfl
  | star x p _ => rfl
  | ident n => rfl
  | other => rfl

theorem immRecvHit_mapTy (σ : Ty → Ty) (c : WalkCtx) (fn : Name) (recv : Option RecvCtx) (x : Lhs) :
    immRecvHit c fn recv (x.mapTy σ) = immRecvHit c fn recv x := by
  unfold immRecvHit
  cases x <;> simp [Lhs.mapTy]

theorem kind_funcDecl_mapTy (σ : Ty → Ty) (k : Kind) (name : Name) : k.mapTy σ = .funcDecl name ↔ k = .funcDecl name := by
  cases k <;> simp [Kind.mapTy]

section
variable (σ : Ty → Ty) (hσ : Respells σ)
include hσ

theorem immFieldHit_map (c : WalkCtx) (fn : Name) (t : Option Ty) (f : Name) :
    immFieldHit c fn (t.map σ) f = immFieldHit c fn t f := by
  unfold immFieldHit; rw [typeInfo_map σ hσ]

theorem immAssignLhs_mapTy (c : WalkCtx) (fn : Name) (recv : Option RecvCtx) (l : Lhs) :
    immAssignLhs c fn recv (l.mapTy σ) = immAssignLhs c fn recv l := by
  unfold immAssignLhs
  rw [Lhs.unparen_mapTy]
  cases h : l.unparen with
  | sel t n p => simp only [Lhs.mapTy, immFieldHit_map σ hσ]
  | idx x p =>
    simp only [Lhs.mapTy]
    rw [Lhs.unparen_mapTy]
    cases hx : x.unparen with
    | sel t n q => simp only [Lhs.mapTy, immFieldHit_map σ hσ]
    | _ => simp [Lhs.mapTy]
  | star x p => simp only [Lhs.mapTy, immRecvHit_mapTy]
  | _ => simp [Lhs.mapTy]

theorem immCompoundLhs_mapTy (c : WalkCtx) (fn : Name) (l : Lhs) :
    immCompoundLhs c fn (l.mapTy σ) = immCompoundLhs c fn l := by
  unfold immCompoundLhs
  rw [Lhs.unparen_mapTy]
  cases h : l.unparen with
  | sel t n p => simp only [Lhs.mapTy, immFieldHit_map σ hσ]
  | _ => simp [Lhs.mapTy]

theorem immIncDec_mapTy (c : WalkCtx) (fn : Name) (recv : Option RecvCtx) (np : Int) (x : Lhs) :
    immIncDec c fn recv np (x.mapTy σ) = immIncDec c fn recv np x := by
  unfold immIncDec
  rw [Lhs.unparen_mapTy]
  cases h : x.unparen with
  | sel t n p => simp only [Lhs.mapTy, immFieldHit_map σ hσ]
  | star y p => simp only [Lhs.mapTy, immRecvHit_mapTy]
  | _ => simp [Lhs.mapTy]

theorem immNode_mapTy (c : WalkCtx) (fn : Name) (recv : Option RecvCtx) (n : Node) :
    immNode c fn recv (n.mapTy σ) = immNode c fn recv n := by
  unfold immNode
  simp only [Node.mapTy_kind, Node.mapTy_pos]
  cases n.kind with
  | assign tok lhs =>
    simp only [Kind.mapTy]
    split
    · simp only [List.flatMap_map]; congr 1; funext l; exact immAssignLhs_mapTy σ hσ c fn recv l
    · simp only [List.flatMap_map]; congr 1; funext l; exact immCompoundLhs_mapTy σ hσ c fn l
  | incDec x => simp only [Kind.mapTy]; exact immIncDec_mapTy σ hσ c fn recv n.pos x
  | _ => simp [Kind.mapTy]

theorem immWalk_mapTy (c : WalkCtx) (dr : Option RecvInfo) (dr' : Option RecvInfo) (hdr : recvCtxOf dr' = recvCtxOf dr) :
    ∀ (ns : List Node) (fn : Name) (recv : Option RecvCtx),
      immWalk c dr' fn recv (ns.map (Node.mapTy σ)) = immWalk c dr fn recv ns := by
  intro ns
  induction ns with
  | nil => intros; rfl
  | cons n r ih =>
    intro fn recv
    simp only [List.map_cons]
    cases hk : n.kind with
    | funcDecl name =>
      have : (n.mapTy σ).kind = .funcDecl name := by simp [Node.mapTy_kind, hk, Kind.mapTy]
      simp only [immWalk, this, hk, hdr]
      exact ih name _
    | _ =>
      all_goals
        simp only [immWalk, Node.mapTy_kind, hk, Kind.mapTy]
        rw [ih fn recv]
        have := immNode_mapTy σ hσ c fn recv n
        simp only [immNode, Node.mapTy_kind, hk, Kind.mapTy, Node.mapTy_pos] at this ⊢
        try (first | rw [this] | rfl)


theorem recvCtxOf_mapTy (r : Option RecvInfo) :
    recvCtxOf (r.map fun r => { r with ty := r.ty.map σ }) = recvCtxOf r := by
  cases r with
  | none => rfl
  | some r => simp only [Option.map_some, recvCtxOf, typeInfo_map σ hσ]

theorem declRecv_mapTy (d : Decl) : recvCtxOf (declRecv (d.mapTy σ)) = recvCtxOf (declRecv d) := by
  unfold declRecv
  simp only [Decl.mapTy_info]
  cases d.info with
  | gen tok doc specs => rfl
  | func name doc recv =>
    cases recv with
    | none => rfl
    | some r => simp only [DeclInfo.mapTy, recvCtxOf, typeInfo_map σ hσ]

theorem immDecl_mapTy (c : WalkCtx) (d : Decl) : immDecl c (d.mapTy σ) = immDecl c d := by
  unfold immDecl
  simp only [Decl.mapTy_nodes]
  exact immWalk_mapTy σ hσ c (declRecv d) (declRecv (d.mapTy σ)) (declRecv_mapTy σ hσ d) d.nodes [] none

theorem checkImmutable_mapTy (cfg : Cfg) (c : WalkCtx) (p : Pkg) :
    checkImmutable cfg c (p.mapTy σ) = checkImmutable cfg c p := by
  unfold checkImmutable
  split
  · rfl
  · rw [filesToScan_mapTy]
    simp only [List.flatMap_map, File.mapTy_decls]
    congr 1; funext f
    congr 1; funext d
    exact immDecl_mapTy σ hσ c d

/-! constructor -/

theorem ctorVarSpec_mapTy (c : WalkCtx) (fn : Name) (s : VarSpec) : ctorVarSpec c fn (s.mapTy σ) = ctorVarSpec c fn s := by
  unfold ctorVarSpec VarSpec.mapTy
  simp only
  split
  · rfl
  · simp only [List.flatMap_map]
    congr 1; funext v
    simp only [varTypeInfo_map σ hσ]

theorem ctorNode_mapTy (c : WalkCtx) (fn : Name) (n : Node) : ctorNode c fn (n.mapTy σ) = ctorNode c fn n := by
  unfold ctorNode
  simp only [Node.mapTy_kind, Node.mapTy_pos]
  cases n.kind with
  | compLit ty => simp only [Kind.mapTy, typeInfo_map σ hσ]
  | call callee nargs arg0 =>
    simp only [Kind.mapTy]
    cases callee with
    | ident name obj => simp only [Callee.mapTy, typeInfo_map σ hσ]
    | _ => simp [Callee.mapTy]
  | genVar specs =>
    simp only [Kind.mapTy, List.flatMap_map]
    congr 1; funext s; exact ctorVarSpec_mapTy σ hσ c fn s
  | _ => simp [Kind.mapTy]

theorem ctorWalk_mapTy (c : WalkCtx) :
    ∀ (ns : List Node) (fn : Name), ctorWalk c fn (ns.map (Node.mapTy σ)) = ctorWalk c fn ns := by
  intro ns
  induction ns with
  | nil => intros; rfl
  | cons n r ih =>
    intro fn
    simp only [List.map_cons]
    cases hk : n.kind with
    | funcDecl name =>
      have : (n.mapTy σ).kind = .funcDecl name := by simp [Node.mapTy_kind, hk, Kind.mapTy]
      simp only [ctorWalk, this, hk]
      exact ih name
    | _ =>
      all_goals
        simp only [ctorWalk, Node.mapTy_kind, hk, Kind.mapTy]
        rw [ih fn]
        have := ctorNode_mapTy σ hσ c fn n
        simp only [ctorNode, Node.mapTy_kind, hk, Kind.mapTy, Node.mapTy_pos] at this ⊢
        try (first | rw [this] | rfl)

theorem checkConstructor_mapTy (cfg : Cfg) (c : WalkCtx) (p : Pkg) :
    checkConstructor cfg c (p.mapTy σ) = checkConstructor cfg c p := by
  unfold checkConstructor
  split
  · rfl
  · rw [filesToScan_mapTy]
    simp only [List.flatMap_map, File.mapTy_decls]
    congr 1; funext f
    congr 1; funext d
    unfold ctorDecl
    simp only [Decl.mapTy_nodes]
    exact ctorWalk_mapTy σ hσ c d.nodes []

/-! testonly / packageonly -/

theorem tonlCall_mapTy (c : WalkCtx) (callee : Callee) : tonlCall c (callee.mapTy σ) = tonlCall c callee := by
  unfold tonlCall
  cases callee with
  | sel pk name xTy =>
    cases pk with
    | some p => rfl
    | none => simp only [Callee.mapTy, typeInfo_map σ hσ]
  | ident name obj => rfl
  | other => rfl

theorem tonlNode_mapTy (c : WalkCtx) (ig : ISet) (s : TonlState) (n : Node) :
    tonlNode c ig s (n.mapTy σ) = tonlNode c ig s n := by
  unfold tonlNode
  simp only [Node.mapTy_kind, Node.mapTy_pos]
  cases n.kind with
  | call callee na a0 => simp only [Kind.mapTy, tonlCall_mapTy σ hσ]; try rfl
  | compLit ty => simp only [Kind.mapTy, tonlTypeUse, typeInfo_map σ hσ]; try rfl
  | valueSpec ty => simp only [Kind.mapTy, tonlTypeUse, typeInfo_map σ hσ]; try rfl
  | field ty => simp only [Kind.mapTy, tonlTypeUse, typeInfo_map σ hσ]; try rfl
  | _ => simp [Kind.mapTy]

theorem tonlWalk_mapTy (c : WalkCtx) (ig : ISet) (prune : Bool) :
    ∀ (ns : List Node) (s : TonlState) (k : Nat),
      tonlWalk c ig prune s k (ns.map (Node.mapTy σ)) = tonlWalk c ig prune s k ns := by
  intro ns
  induction ns with
  | nil => intros; rfl
  | cons n r ih =>
    intro s k
    simp only [List.map_cons]
    cases k with
    | succ k => simp only [tonlWalk]; exact ih s k
    | zero =>
      cases hk : n.kind with
      | funcDecl name =>
        have : (n.mapTy σ).kind = .funcDecl name := by simp [Node.mapTy_kind, hk, Kind.mapTy]
        simp only [tonlWalk, this, hk, Node.mapTy_size]
        split
        · exact ih s n.size
        · exact ih s 0
      | _ =>
        all_goals
          have hk' : (n.mapTy σ).kind = (n.kind).mapTy σ := rfl
          simp only [tonlWalk, hk', hk, Kind.mapTy]
          rw [tonlNode_mapTy σ hσ c ig s n]
          exact ih _ 0

theorem inTestOnlyContext_mapTy (c : WalkCtx) (d : Decl) : inTestOnlyContext c (d.mapTy σ) = inTestOnlyContext c d := by
  unfold inTestOnlyContext
  simp only [Decl.mapTy_info]
  cases d.info with
  | gen tok doc specs => rfl
  | func name doc recv => cases recv <;> rfl

theorem checkTestOnly_mapTy (cfg : Cfg) (c : WalkCtx) (ig : ISet) (p : Pkg) :
    checkTestOnly cfg c ig (p.mapTy σ) = checkTestOnly cfg c ig p := by
  unfold checkTestOnly
  split
  · rfl
  · rw [filesToScan_mapTy]
    simp only [List.flatMap_map]
    congr 1; funext f
    unfold tonlFile
    simp only [File.mapTy_name, File.mapTy_decls]
    congr 1
    have key : ∀ (ds : List Decl) (s : TonlState),
        (ds.map (Decl.mapTy σ)).foldl (fun s d => tonlWalk c ig (inTestOnlyContext c d) s 0 d.nodes) s =
        ds.foldl (fun s d => tonlWalk c ig (inTestOnlyContext c d) s 0 d.nodes) s := by
      intro ds
      induction ds with
      | nil => intro s; rfl
      | cons d r ih =>
        intro s
        simp only [List.map_cons, List.foldl_cons, Decl.mapTy_nodes, inTestOnlyContext_mapTy σ hσ]
        rw [tonlWalk_mapTy σ hσ c ig _ d.nodes s 0]
        exact ih _
    rw [key]

theorem pkgoNode_mapTy (c : WalkCtx) (ig : ISet) (s : PkgoState) (n : Node) :
    pkgoNode c ig s (n.mapTy σ) = pkgoNode c ig s n := by
  unfold pkgoNode
  simp only [Node.mapTy_kind, Node.mapTy_pos]
  cases n.kind with
  | selector obj =>
    simp only [Kind.mapTy]
    cases obj with
    | method pk m recv => cases pk <;> simp only [Obj.mapTy, typeName_map σ hσ] <;> try rfl
    | _ => rfl
  | _ => simp [Kind.mapTy]

theorem checkPackageOnly_mapTy (cfg : Cfg) (c : WalkCtx) (ig : ISet) (p : Pkg) :
    checkPackageOnly cfg c ig (p.mapTy σ) = checkPackageOnly cfg c ig p := by
  unfold checkPackageOnly
  split
  · rfl
  · rw [filesToScan_mapTy]
    simp only [List.flatMap_map]
    congr 1; funext f
    unfold pkgoFile
    simp only [File.mapTy_decls]
    congr 1
    have inner : ∀ (ns : List Node) (s : PkgoState),
        (ns.map (Node.mapTy σ)).foldl (pkgoNode c ig) s = ns.foldl (pkgoNode c ig) s := by
      intro ns
      induction ns with
      | nil => intro s; rfl
      | cons n r ih => intro s; simp only [List.map_cons, List.foldl_cons, pkgoNode_mapTy σ hσ]; exact ih _
    have key : ∀ (ds : List Decl) (s : PkgoState),
        (ds.map (Decl.mapTy σ)).foldl (fun s d => d.nodes.foldl (pkgoNode c ig) s) s =
        ds.foldl (fun s d => d.nodes.foldl (pkgoNode c ig) s) s := by
      intro ds
      induction ds with
      | nil => intro s; rfl
      | cons d r ih => intro s; simp only [List.map_cons, List.foldl_cons, Decl.mapTy_nodes, inner]; exact ih _
    rw [key]

end

/-! annotations and @ignore scopes never look at types -/

theorem readAnnotations_mapTy (σ : Ty → Ty) (cfg : Cfg) (p : Pkg) : readAnnotations cfg (p.mapTy σ) = readAnnotations cfg p := by
  unfold readAnnotations
  rw [filesToScan_mapTy, Pkg.mapTy_path, List.map_map]
  congr 1
  apply List.map_congr_left
  intro f _
  simp only [Function.comp, annOfFile, File.mapTy_decls, List.map_map]
  congr 2
  · apply List.map_congr_left; intro d _
    simp only [Function.comp, annOfDeclTypes, Decl.mapTy_info]
    cases d.info with
    | gen tok doc specs => rfl
    | func name doc recv => cases recv <;> rfl
  · apply List.map_congr_left; intro d _
    simp only [Function.comp, annOfDeclFuncs, Decl.mapTy_info]
    cases d.info with
    | gen tok doc specs => rfl
    | func name doc recv => cases recv <;> rfl

theorem declIndex_mapTy (σ : Ty → Ty) (ds : List Decl) (pos : Int) : declIndex (ds.map (Decl.mapTy σ)) pos = declIndex ds pos := by
  unfold declIndex
  rw [List.findIdx?_map, List.length_map]
  rfl

theorem inlineWalk_mapTy (σ : Ty → Ty) (cpos cline : Int) :
    ∀ (ns : List Node) (found : Bool) (k : Nat), inlineWalk cpos cline found k (ns.map (Node.mapTy σ)) = inlineWalk cpos cline found k ns := by
  intro ns
  induction ns with
  | nil => intros; rfl
  | cons n r ih =>
    intro found k
    cases k with
    | succ k => simp only [List.map_cons, inlineWalk]; exact ih found k
    | zero =>
      simp only [List.map_cons, inlineWalk, Node.mapTy_pos, Node.mapTy_size, Node.mapTy_startLine, Node.mapTy_endLine, ih]
      try rfl

theorem nextWalk_mapTy (σ : Ty → Ty) (cpos : Int) :
    ∀ (ns : List Node) (st : Int × Int) (k : Nat), nextWalk cpos st k (ns.map (Node.mapTy σ)) = nextWalk cpos st k ns := by
  intro ns
  induction ns with
  | nil => intros; rfl
  | cons n r ih =>
    intro st k
    cases k with
    | succ k => simp only [List.map_cons, nextWalk]; exact ih st k
    | zero =>
      simp only [List.map_cons, nextWalk, Node.mapTy_pos, Node.mapTy_size, Node.mapTy_stop, ih]
      try rfl

theorem scopeOf_mapTy (σ : Ty → Ty) (f : File) (cm : Comment) : scopeOf (f.mapTy σ) cm = scopeOf f cm := by
  have hget : ∀ i, (f.decls.map (Decl.mapTy σ))[i]? = (f.decls[i]?).map (Decl.mapTy σ) := fun i => List.getElem?_map
  have hprev : prevEndsOnLine (f.mapTy σ) cm = prevEndsOnLine f cm := by
    unfold prevEndsOnLine
    simp only [File.mapTy_decls, declIndex_mapTy]
    cases declIndex f.decls cm.pos with
    | zero => rfl
    | succ i => simp only [hget]; cases f.decls[i]? <;> rfl
  have hinl : findInline (f.mapTy σ) cm = findInline f cm := by
    unfold findInline
    rw [hprev]
    split
    · rfl
    · simp only [File.mapTy_decls, declIndex_mapTy, hget]
      cases f.decls[declIndex f.decls cm.pos]? with
      | none => rfl
      | some d => simp only [Option.map_some, Decl.mapTy_pos, Decl.mapTy_nodes, inlineWalk_mapTy]
  have hnext : ∀ cpos, findNext (f.mapTy σ) cpos = findNext f cpos := by
    intro cpos
    unfold findNext
    simp only [File.mapTy_decls, declIndex_mapTy, hget]
    cases f.decls[declIndex f.decls cpos]? with
    | none => rfl
    | some d => simp only [Option.map_some, Decl.mapTy_pos, Decl.mapTy_stop, Decl.mapTy_nodes, nextWalk_mapTy]
  unfold scopeOf
  simp only [File.mapTy_packagePos, File.mapTy_fileEnd, hinl, hnext]

theorem markerOf_mapTy (σ : Ty → Ty) (f : File) (cm : Comment) : markerOf (f.mapTy σ) cm = markerOf f cm := by
  unfold markerOf
  simp only [scopeOf_mapTy]

theorem readIgnores_mapTy (σ : Ty → Ty) (cfg : Cfg) (p : Pkg) : readIgnores cfg (p.mapTy σ) = readIgnores cfg p := by
  unfold readIgnores ignoreOps
  rw [filesToScan_mapTy]
  simp only [List.flatMap_map, File.mapTy_comments, markerOf_mapTy]

/-- **re-spelling invariance of the whole analysis**: if `σ` only re-spells the types at the use sites, the
    annotations read and the diagnostics are the same -/
theorem analyze_mapTy (σ : Ty → Ty) (hσ : Respells σ) (cfg : Cfg) (facts : List (Name × Annotations)) (p : Pkg) :
    (analyze cfg facts (p.mapTy σ)).ann = (analyze cfg facts p).ann ∧
    (analyze cfg facts (p.mapTy σ)).diags = (analyze cfg facts p).diags := by
  unfold analyze
  simp only [readAnnotations_mapTy, readIgnores_mapTy, Pkg.mapTy_path, Pkg.mapTy_name,
    checkImmutable_mapTy σ hσ, checkConstructor_mapTy σ hσ, checkTestOnly_mapTy σ hσ, checkPackageOnly_mapTy σ hσ, and_self]

end GGV.Model.Prog
