import GGV.Model.Checkers
/-! Helper lemmas: stateful walks of one declaration = stateless maps with the enclosing function. -/
namespace GGV.Model.Prog
open GGV.Model

def Node.isFuncDecl (n : Node) : Bool :=
  match n.kind with
  | .funcDecl _ => true
  | _ => false

/-- go/ast shape of a top-level declaration as the walks see it: a FuncDecl node occurs only as the
    head of a `func` declaration (FuncDecl is never nested), carrying the declaration's name -/
structure DeclShape (d : Decl) : Prop where
  nonempty : d.nodes ≠ []
  tailNoFunc : ∀ n ∈ d.nodes.tail, n.isFuncDecl = false
  headFunc : ∀ name doc recv, d.info = .func name doc recv → ∃ h, d.nodes.head? = some h ∧ h.kind = .funcDecl name
  headGen : ∀ tok doc specs, d.info = .gen tok doc specs → ∃ h, d.nodes.head? = some h ∧ h.isFuncDecl = false

/-- name of the enclosing top-level function ("" for a non-function declaration) -/
def Decl.enclosingFn (d : Decl) : Name :=
  match d.info with
  | .func name _ _ => name
  | .gen .. => []

/-- receiver context of the enclosing top-level method (none outside methods) -/
def Decl.enclosingRecv (d : Decl) : Option RecvCtx :=
  match d.info with
  | .func _ _ r => recvCtxOf r
  | .gen .. => none

theorem ctorNode_funcDecl (c : WalkCtx) (cur : Name) (n : Node) (h : n.isFuncDecl = true) : ctorNode c cur n = [] := by
  unfold Node.isFuncDecl at h
  unfold ctorNode
  split at h <;> simp_all

theorem immNode_funcDecl (c : WalkCtx) (cur : Name) (r : Option RecvCtx) (n : Node) (h : n.isFuncDecl = true) :
    immNode c cur r n = [] := by
  unfold Node.isFuncDecl at h
  unfold immNode
  split at h <;> simp_all

theorem ctorWalk_noFunc (c : WalkCtx) (cur : Name) (ns : List Node) (h : ∀ n ∈ ns, n.isFuncDecl = false) :
    ctorWalk c cur ns = ns.flatMap (ctorNode c cur) := by
  induction ns with
  | nil => rfl
  | cons n r ih =>
    have hn := h n (by simp)
    have hr := ih (fun m hm => h m (by simp [hm]))
    unfold ctorWalk
    unfold Node.isFuncDecl at hn
    split
    · rename_i name hk; simp [hk] at hn
    · simp [hr]

theorem immWalk_noFunc (c : WalkCtx) (dr : Option RecvInfo) (cur : Name) (rc : Option RecvCtx) (ns : List Node)
    (h : ∀ n ∈ ns, n.isFuncDecl = false) :
    immWalk c dr cur rc ns = ns.flatMap (immNode c cur rc) := by
  induction ns with
  | nil => rfl
  | cons n r ih =>
    have hn := h n (by simp)
    have hr := ih (fun m hm => h m (by simp [hm]))
    unfold immWalk
    unfold Node.isFuncDecl at hn
    split
    · rename_i name hk; simp [hk] at hn
    · simp [hr]

/-- **constructor walk**: the stateful walk of a declaration is a stateless map with the enclosing function's name -/
theorem ctorDecl_eq (c : WalkCtx) (d : Decl) (hs : DeclShape d) :
    ctorDecl c d = d.nodes.flatMap (ctorNode c d.enclosingFn) := by
  unfold ctorDecl Decl.enclosingFn
  cases hn : d.nodes with
  | nil => exact absurd hn hs.nonempty
  | cons h r =>
    have hr : ∀ m ∈ r, m.isFuncDecl = false := by
      intro m hm; have := hs.tailNoFunc m; simp [hn] at this; exact this hm
    cases hi : d.info with
    | func name doc recv =>
      obtain ⟨h', hh, hk⟩ := hs.headFunc name doc recv hi
      simp [hn] at hh; subst hh
      simp only [ctorWalk, hk, List.flatMap_cons]
      rw [ctorWalk_noFunc c name r hr, ctorNode_funcDecl c name h (by simp [Node.isFuncDecl, hk])]
      simp
    | gen tok doc specs =>
      obtain ⟨h', hh, hk⟩ := hs.headGen tok doc specs hi
      simp [hn] at hh; subst hh
      have := ctorWalk_noFunc c [] (h :: r) (by intro m hm; simp at hm; rcases hm with rfl | hm; exact hk; exact hr m hm)
      simpa using this

/-- **immutable walk**: likewise, with the enclosing method's receiver -/
theorem immDecl_eq (c : WalkCtx) (d : Decl) (hs : DeclShape d) :
    immDecl c d = d.nodes.flatMap (immNode c d.enclosingFn d.enclosingRecv) := by
  unfold immDecl Decl.enclosingFn Decl.enclosingRecv declRecv
  cases hn : d.nodes with
  | nil => exact absurd hn hs.nonempty
  | cons h r =>
    have hr : ∀ m ∈ r, m.isFuncDecl = false := by
      intro m hm; have := hs.tailNoFunc m; simp [hn] at this; exact this hm
    cases hi : d.info with
    | func name doc recv =>
      obtain ⟨h', hh, hk⟩ := hs.headFunc name doc recv hi
      simp [hn] at hh; subst hh
      simp only [immWalk, hk, List.flatMap_cons]
      rw [immWalk_noFunc c recv name (recvCtxOf recv) r hr,
        immNode_funcDecl c name (recvCtxOf recv) h (by simp [Node.isFuncDecl, hk])]
      simp
    | gen tok doc specs =>
      obtain ⟨h', hh, hk⟩ := hs.headGen tok doc specs hi
      simp [hn] at hh; subst hh
      have := immWalk_noFunc c none [] none (h :: r) (by intro m hm; simp at hm; rcases hm with rfl | hm; exact hk; exact hr m hm)
      simpa using this

/-- shape of every declaration of the files a configuration selects -/
def PkgShape (p : Pkg) : Prop := ∀ f ∈ p.files, ∀ d ∈ f.decls, DeclShape d

theorem mem_filesToScan {cfg : Cfg} {p : Pkg} {f : File} :
    f ∈ filesToScan cfg p ↔ f ∈ p.files ∧ shouldSkip cfg f.name = false := by
  simp [filesToScan]

/-- an index with no constructor annotation has no constructor names for anything -/
theorem ctorNames_of_noConstructors (e : Env) (h : e.noConstructors = true) (pkg ty : Name) : e.ctorNames pkg ty = [] := by
  unfold Env.noConstructors at h
  unfold Env.ctorNames
  rw [List.all_eq_true] at h
  apply List.flatMap_eq_nil_iff.2
  intro pa hpa
  have h1 := h pa hpa
  rw [List.all_eq_true] at h1
  split
  · apply List.flatMap_eq_nil_iff.2
    intro cc hcc
    have := h1 cc hcc
    split
    · simpa using this
    · rfl
  · rfl

theorem isImmutable_of_noImmutable (e : Env) (h : e.noImmutable = true) (pkg ty : Name) : e.isImmutable pkg ty = false := by
  unfold Env.noImmutable at h
  unfold Env.isImmutable
  rw [List.all_eq_true] at h
  cases hb : (e.any fun pa => pa.1 == pkg && pa.2.immutable.contains ty) with
  | false => rfl
  | true =>
    rw [List.any_eq_true] at hb
    obtain ⟨pa, hpa, hc⟩ := hb
    have := h pa hpa
    simp only [Bool.and_eq_true] at hc
    have hnil : pa.2.immutable = [] := by simpa using this
    rw [hnil] at hc
    simp at hc

end GGV.Model.Prog
