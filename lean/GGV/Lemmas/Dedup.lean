import GGV.Model.Checkers
/-! The once-per-file reporting fold of testonly / packageonly, characterised declaratively:
    a keyed event is reported iff it is the first unsuppressed event with its key. -/
namespace GGV.Model.Prog

/-- what a visited node contributes: a diagnostic reported every time, or one deduplicated per key -/
inductive Ev (K : Type) where
  | plain (d : Diag)
  | keyed (k : K) (d : Diag)

structure DState (K : Type) where
  reported : List K := []
  out : List Diag := []

variable {K : Type} [DecidableEq K]

/-- one step: the suppression test comes BEFORE the "already reported" test (so that a suppressed
    use does not hide later ones) -/
def applyEv (sup : Diag → Bool) (s : DState K) : Ev K → DState K
  | .plain d => if sup d then s else { s with out := s.out ++ [d] }
  | .keyed k d =>
    if sup d then s
    else if s.reported.contains k then s
    else { reported := s.reported ++ [k], out := s.out ++ [d] }

def runEvs (sup : Diag → Bool) (s : DState K) (evs : List (Ev K)) : DState K := evs.foldl (applyEv sup) s

/-- the keyed event `d` with key `k` is the first unsuppressed one with that key in `evs` -/
def FirstUnsuppressed (sup : Diag → Bool) (evs : List (Ev K)) (k : K) (d : Diag) : Prop :=
  ∃ a b, evs = a ++ Ev.keyed k d :: b ∧ sup d = false ∧ ∀ d', Ev.keyed k d' ∈ a → sup d' = true

theorem mem_runEvs (sup : Diag → Bool) (evs : List (Ev K)) (s : DState K) (dg : Diag) :
    dg ∈ (runEvs sup s evs).out ↔
      dg ∈ s.out ∨ (Ev.plain dg ∈ evs ∧ sup dg = false) ∨
      (∃ k, k ∉ s.reported ∧ FirstUnsuppressed sup evs k dg) := by
  induction evs generalizing s with
  | nil =>
    simp only [runEvs, List.foldl_nil, List.not_mem_nil, false_and, false_or]
    constructor
    · intro h; exact Or.inl h
    · rintro (h | ⟨k, _, a, b, e, _⟩)
      · exact h
      · cases a <;> simp at e
  | cons ev rest ih =>
    have hstep : runEvs sup s (ev :: rest) = runEvs sup (applyEv sup s ev) rest := rfl
    rw [hstep, ih]
    cases ev with
    | plain d =>
      by_cases hs : sup d = true
      · simp only [applyEv, hs, if_true]
        constructor
        · rintro (h | ⟨h1, h2⟩ | ⟨k, hk, a, b, e, h2, h3⟩)
          · exact Or.inl h
          · exact Or.inr (Or.inl ⟨List.mem_cons_of_mem _ h1, h2⟩)
          · refine Or.inr (Or.inr ⟨k, hk, Ev.plain d :: a, b, by simp [e], h2, ?_⟩)
            intro d' hd'
            simp only [List.mem_cons, reduceCtorEq, false_or] at hd'
            exact h3 d' hd'
        · rintro (h | ⟨h1, h2⟩ | ⟨k, hk, a, b, e, h2, h3⟩)
          · exact Or.inl h
          · simp only [List.mem_cons, Ev.plain.injEq] at h1
            rcases h1 with rfl | h1
            · rw [hs] at h2; exact absurd h2 (by simp)
            · exact Or.inr (Or.inl ⟨h1, h2⟩)
          · cases a with
            | nil => simp at e
            | cons x a' =>
              simp only [List.cons_append, List.cons.injEq] at e
              obtain ⟨rfl, e⟩ := e
              exact Or.inr (Or.inr ⟨k, hk, a', b, e, h2, fun d' hd' => h3 d' (List.mem_cons_of_mem _ hd')⟩)
      · simp only [Bool.not_eq_true] at hs
        simp only [applyEv, hs, Bool.false_eq_true, if_false, List.mem_append, List.mem_singleton]
        constructor
        · rintro ((h | rfl) | ⟨h1, h2⟩ | ⟨k, hk, a, b, e, h2, h3⟩)
          · exact Or.inl h
          · exact Or.inr (Or.inl ⟨by simp, hs⟩)
          · exact Or.inr (Or.inl ⟨List.mem_cons_of_mem _ h1, h2⟩)
          · refine Or.inr (Or.inr ⟨k, hk, Ev.plain d :: a, b, by simp [e], h2, ?_⟩)
            intro d' hd'
            simp only [List.mem_cons, reduceCtorEq, false_or] at hd'
            exact h3 d' hd'
        · rintro (h | ⟨h1, h2⟩ | ⟨k, hk, a, b, e, h2, h3⟩)
          · exact Or.inl (Or.inl h)
          · simp only [List.mem_cons, Ev.plain.injEq] at h1
            rcases h1 with rfl | h1
            · exact Or.inl (Or.inr rfl)
            · exact Or.inr (Or.inl ⟨h1, h2⟩)
          · cases a with
            | nil => simp at e
            | cons x a' =>
              simp only [List.cons_append, List.cons.injEq] at e
              obtain ⟨rfl, e⟩ := e
              exact Or.inr (Or.inr ⟨k, hk, a', b, e, h2, fun d' hd' => h3 d' (List.mem_cons_of_mem _ hd')⟩)
    | keyed k0 d =>
      by_cases hs : sup d = true
      · -- suppressed: state unchanged
        simp only [applyEv, hs, if_true]
        constructor
        · rintro (h | ⟨h1, h2⟩ | ⟨k, hk, a, b, e, h2, h3⟩)
          · exact Or.inl h
          · exact Or.inr (Or.inl ⟨List.mem_cons_of_mem _ h1, h2⟩)
          · refine Or.inr (Or.inr ⟨k, hk, Ev.keyed k0 d :: a, b, by simp [e], h2, ?_⟩)
            intro d' hd'
            simp only [List.mem_cons, Ev.keyed.injEq] at hd'
            rcases hd' with ⟨_, rfl⟩ | hd'
            · exact hs
            · exact h3 d' hd'
        · rintro (h | ⟨h1, h2⟩ | ⟨k, hk, a, b, e, h2, h3⟩)
          · exact Or.inl h
          · simp only [List.mem_cons, reduceCtorEq, false_or] at h1
            exact Or.inr (Or.inl ⟨h1, h2⟩)
          · cases a with
            | nil =>
              simp only [List.nil_append, List.cons.injEq, Ev.keyed.injEq] at e
              obtain ⟨⟨_, rfl⟩, _⟩ := e
              rw [hs] at h2; exact absurd h2 (by simp)
            | cons x a' =>
              simp only [List.cons_append, List.cons.injEq] at e
              obtain ⟨rfl, e⟩ := e
              exact Or.inr (Or.inr ⟨k, hk, a', b, e, h2, fun d' hd' => h3 d' (List.mem_cons_of_mem _ hd')⟩)
      · simp only [Bool.not_eq_true] at hs
        by_cases hr : s.reported.contains k0 = true
        · -- already reported: state unchanged, and k0 cannot be a fresh key later
          have hk0 : k0 ∈ s.reported := by simpa using hr
          simp only [applyEv, hs, Bool.false_eq_true, if_false, hr, if_true]
          constructor
          · rintro (h | ⟨h1, h2⟩ | ⟨k, hk, a, b, e, h2, h3⟩)
            · exact Or.inl h
            · exact Or.inr (Or.inl ⟨List.mem_cons_of_mem _ h1, h2⟩)
            · refine Or.inr (Or.inr ⟨k, hk, Ev.keyed k0 d :: a, b, by simp [e], h2, ?_⟩)
              intro d' hd'
              simp only [List.mem_cons, Ev.keyed.injEq] at hd'
              rcases hd' with ⟨rfl, _⟩ | hd'
              · exact absurd hk0 hk
              · exact h3 d' hd'
          · rintro (h | ⟨h1, h2⟩ | ⟨k, hk, a, b, e, h2, h3⟩)
            · exact Or.inl h
            · simp only [List.mem_cons, reduceCtorEq, false_or] at h1
              exact Or.inr (Or.inl ⟨h1, h2⟩)
            · cases a with
              | nil =>
                simp only [List.nil_append, List.cons.injEq, Ev.keyed.injEq] at e
                obtain ⟨⟨rfl, _⟩, _⟩ := e
                exact absurd hk0 hk
              | cons x a' =>
                simp only [List.cons_append, List.cons.injEq] at e
                obtain ⟨rfl, e⟩ := e
                exact Or.inr (Or.inr ⟨k, hk, a', b, e, h2, fun d' hd' => h3 d' (List.mem_cons_of_mem _ hd')⟩)
        · -- fresh key: reported now
          have hk0 : k0 ∉ s.reported := by simpa using hr
          simp only [Bool.not_eq_true] at hr
          simp only [applyEv, hs, Bool.false_eq_true, if_false, hr, List.mem_append, List.mem_singleton]
          constructor
          · rintro ((h | rfl) | ⟨h1, h2⟩ | ⟨k, hk, a, b, e, h2, h3⟩)
            · exact Or.inl h
            · exact Or.inr (Or.inr ⟨k0, hk0, [], rest, rfl, hs, by simp⟩)
            · exact Or.inr (Or.inl ⟨List.mem_cons_of_mem _ h1, h2⟩)
            · have hk' : k ∉ s.reported ∧ k ≠ k0 := by
                constructor
                · exact fun h => hk (Or.inl h)
                · exact fun h => hk (Or.inr h)
              refine Or.inr (Or.inr ⟨k, hk'.1, Ev.keyed k0 d :: a, b, by simp [e], h2, ?_⟩)
              intro d' hd'
              simp only [List.mem_cons, Ev.keyed.injEq] at hd'
              rcases hd' with ⟨rfl, _⟩ | hd'
              · exact absurd rfl hk'.2
              · exact h3 d' hd'
          · rintro (h | ⟨h1, h2⟩ | ⟨k, hk, a, b, e, h2, h3⟩)
            · exact Or.inl (Or.inl h)
            · simp only [List.mem_cons, reduceCtorEq, false_or] at h1
              exact Or.inr (Or.inl ⟨h1, h2⟩)
            · cases a with
              | nil =>
                simp only [List.nil_append, List.cons.injEq, Ev.keyed.injEq] at e
                obtain ⟨⟨_, rfl⟩, _⟩ := e
                exact Or.inl (Or.inr rfl)
              | cons x a' =>
                simp only [List.cons_append, List.cons.injEq] at e
                obtain ⟨rfl, e⟩ := e
                have hne : k ≠ k0 := by
                  intro ekk; subst ekk
                  have := h3 d (by simp)
                  rw [hs] at this; exact absurd this (by simp)
                refine Or.inr (Or.inr ⟨k, ?_, a', b, e, h2, fun d' hd' => h3 d' (List.mem_cons_of_mem _ hd')⟩)
                rintro (h | h)
                · exact hk h
                · exact hne h

/-- from the initial state: a diagnostic is reported iff it is an unsuppressed plain event, or the first
    unsuppressed keyed event of its key -/
theorem mem_runEvs_init (sup : Diag → Bool) (evs : List (Ev K)) (dg : Diag) :
    dg ∈ (runEvs sup ({} : DState K) evs).out ↔
      (Ev.plain dg ∈ evs ∧ sup dg = false) ∨ (∃ k, FirstUnsuppressed sup evs k dg) := by
  rw [mem_runEvs]
  simp

end GGV.Model.Prog
