import GGV.Model.Grammar
/-! Helper lemmas for C15 / C09: blanks, prefixes, infixes, identifier spans. -/
namespace GGV.Model.Grammar
open GGV.Model

def AllWs (w : Bytes) : Prop := ∀ b ∈ w, isWs b = true

theorem dropWs_append_of_ws (w s : Bytes) (hw : AllWs w) : dropWs (w ++ s) = dropWs s := by
  induction w with
  | nil => rfl
  | cons b r ih =>
    have hb : isWs b = true := hw b (by simp)
    simp only [List.cons_append, dropWs, hb, if_true]
    exact ih (fun x hx => hw x (by simp [hx]))

theorem dropWs_spec (s : Bytes) : ∃ w, AllWs w ∧ s = w ++ dropWs s ∧
    (∀ b r, dropWs s = b :: r → isWs b = false) := by
  induction s with
  | nil => exact ⟨[], by simp [AllWs], by simp [dropWs], by simp [dropWs]⟩
  | cons b r ih =>
    obtain ⟨w, h1, h2, h3⟩ := ih
    by_cases hb : isWs b = true
    · refine ⟨b :: w, ?_, ?_, ?_⟩
      · intro x hx; simp at hx; rcases hx with rfl | hx; exact hb; exact h1 x hx
      · simp only [dropWs, hb, if_true, List.cons_append]; rw [← h2]
      · simpa [dropWs, hb] using h3
    · refine ⟨[], by simp [AllWs], by simp [dropWs, hb], ?_⟩
      intro b' r' h
      simp [dropWs, hb] at h
      obtain ⟨rfl, _⟩ := h
      simpa using hb

theorem stripPrefix_eq_some (p s t : Bytes) : stripPrefix p s = some t ↔ s = p ++ t := by
  induction p generalizing s with
  | nil => simp [stripPrefix, eq_comm]
  | cons a ps ih =>
    cases s with
    | nil => simp [stripPrefix]
    | cons b s =>
      by_cases h : a = b
      · subst h; simp [stripPrefix, ih]
      · simp only [stripPrefix, h, if_false, List.cons_append, List.cons.injEq, false_iff, reduceCtorEq]
        intro e; exact h e.1.symm

theorem dropWs_of_nonws_head (b : UInt8) (r : Bytes) (h : isWs b = false) : dropWs (b :: r) = b :: r := by
  simp [dropWs, h]

theorem mem_dropWs {s : Bytes} {x : UInt8} (h : x ∈ dropWs s) : x ∈ s := by
  obtain ⟨w, _, h2, _⟩ := dropWs_spec s
  rw [h2]; exact List.mem_append_right _ h

/-- a keyword: starts with a non-blank byte (all seven start with `@`) -/
def IsKw (kw : Bytes) : Prop := ∃ k ks, kw = k :: ks ∧ isWs k = false

theorem lead_iff (kw line t : Bytes) (hkw : IsKw kw) :
    lead kw line = some t ↔
      ∃ w1 w2, AllWs w1 ∧ AllWs w2 ∧ line = w1 ++ slashes ++ w2 ++ kw ++ t := by
  obtain ⟨k, ks, rfl, hk⟩ := hkw
  unfold lead
  constructor
  · intro h
    obtain ⟨w1, hw1, e1, _⟩ := dropWs_spec line
    split at h
    · simp at h
    · rename_i r hr
      rw [stripPrefix_eq_some] at hr
      obtain ⟨w2, hw2, e2, _⟩ := dropWs_spec r
      rw [stripPrefix_eq_some] at h
      refine ⟨w1, w2, hw1, hw2, ?_⟩
      rw [e1, hr, e2, h]; simp [List.append_assoc]
  · rintro ⟨w1, w2, hw1, hw2, rfl⟩
    have e1 : dropWs (w1 ++ slashes ++ w2 ++ (k :: ks) ++ t) = slashes ++ (w2 ++ (k :: ks) ++ t) := by
      simp only [List.append_assoc]
      rw [dropWs_append_of_ws _ _ hw1]
      simp [slashes, dropWs, isWs]
    rw [e1]
    have e2 : stripPrefix slashes (slashes ++ (w2 ++ (k :: ks) ++ t)) = some (w2 ++ (k :: ks) ++ t) := by
      rw [stripPrefix_eq_some]
    rw [e2]
    simp only
    have e3 : dropWs (w2 ++ (k :: ks) ++ t) = (k :: ks) ++ t := by
      rw [List.append_assoc, dropWs_append_of_ws _ _ hw2]
      exact dropWs_of_nonws_head k _ hk
    rw [e3, stripPrefix_eq_some]

/-- documented tail: nothing, or a run of blanks followed by text without a line feed -/
def TailOK (t : Bytes) : Prop :=
  t = [] ∨ ∃ w r, w ≠ [] ∧ AllWs w ∧ t = w ++ r ∧ (10 : UInt8) ∉ r

theorem tailOk_iff (t : Bytes) : tailOk t = true ↔ TailOK t := by
  cases t with
  | nil => simp [tailOk, TailOK]
  | cons b r =>
    simp only [tailOk, Bool.and_eq_true, Bool.not_eq_true', TailOK, reduceCtorEq, false_or]
    constructor
    · rintro ⟨hb, hn⟩
      obtain ⟨w, hw, e, _⟩ := dropWs_spec (b :: r)
      refine ⟨w, dropWs (b :: r), ?_, hw, e, ?_⟩
      · intro hnil; subst hnil
        simp only [List.nil_append] at e
        have : dropWs (b :: r) = dropWs r := by simp [dropWs, hb]
        have hlen := congrArg List.length e
        rw [this] at hlen
        obtain ⟨w', _, e', _⟩ := dropWs_spec r
        have := congrArg List.length e'
        simp at hlen this; omega
      · intro hmem
        have : (dropWs (b :: r)).contains 10 = true := by simpa using hmem
        rw [this] at hn; exact absurd hn (by simp)
    · rintro ⟨w, r', hne, hw, e, hn⟩
      cases w with
      | nil => exact absurd rfl hne
      | cons c w' =>
        simp only [List.cons_append, List.cons.injEq] at e
        obtain ⟨rfl, rfl⟩ := e
        refine ⟨hw b (by simp), ?_⟩
        have : dropWs (b :: (w' ++ r')) = dropWs r' := by
          have := dropWs_append_of_ws (b :: w') r' hw
          simpa using this
        rw [this]
        cases hc : (dropWs r').contains 10 with
        | false => rfl
        | true =>
          exfalso
          have : (10 : UInt8) ∈ dropWs r' := by simpa using hc
          exact hn (mem_dropWs this)

theorem isInfix_append (p a b : Bytes) : isInfix p (a ++ p ++ b) = true := by
  induction a with
  | nil =>
    cases hp : p ++ b with
    | nil =>
      have hp' : p = [] := by cases p <;> simp_all
      have hb : b = [] := by cases b <;> simp_all
      subst hp'; subst hb
      simp [isInfix]
    | cons c r =>
      simp only [List.nil_append, hp, isInfix, Bool.or_eq_true]
      left
      rw [← hp]
      exact List.isPrefixOf_iff_prefix.2 (List.prefix_append p b)
  | cons c r ih =>
    simp only [List.cons_append, isInfix, Bool.or_eq_true]
    right
    simpa [List.append_assoc] using ih

/-- identifier of class `k`: non-empty, first byte in `start`, the others in `rest` -/
def ValidId (k : IdClass) (id : Bytes) : Prop :=
  ∃ b r, id = b :: r ∧ k.start b = true ∧ ∀ c ∈ r, k.rest c = true

theorem spanP_all (p : UInt8 → Bool) (s : Bytes) : ∀ c ∈ (spanP p s).1, p c = true := by
  induction s with
  | nil => simp [spanP]
  | cons b r ih =>
    unfold spanP
    by_cases hb : p b = true
    · simp only [hb, if_true]
      intro c hc
      simp only [List.mem_cons] at hc
      rcases hc with rfl | hc
      · exact hb
      · exact ih c hc
    · simp [hb]

theorem spanP_append (p : UInt8 → Bool) (s : Bytes) : (spanP p s).1 ++ (spanP p s).2 = s := by
  induction s with
  | nil => simp [spanP]
  | cons b r ih =>
    unfold spanP
    by_cases hb : p b = true
    · simp only [hb, if_true, List.cons_append]; rw [ih]
    · simp [hb]

theorem parseId_valid (k : IdClass) (s id rest : Bytes) (h : parseId k s = some (id, rest)) : ValidId k id := by
  cases s with
  | nil => simp [parseId] at h
  | cons b r =>
    unfold parseId at h
    by_cases hb : k.start b = true
    · simp only [hb, if_true, Option.some.injEq, Prod.mk.injEq] at h
      obtain ⟨rfl, _⟩ := h
      exact ⟨b, _, rfl, hb, spanP_all k.rest r⟩
    · simp [hb] at h

theorem parseSep_valid (k : IdClass) (s id rest : Bytes) (h : parseSep k s = some (id, rest)) : ValidId k id := by
  unfold parseSep at h
  split at h
  · exact parseId_valid k _ id rest h
  · simp at h

theorem chain_valid (k : IdClass) (fuel : Nat) (id0 r0 : Bytes) (h0 : ValidId k id0) :
    ∀ p ∈ chain k fuel id0 r0, ValidId k p.1 := by
  induction fuel generalizing id0 r0 with
  | zero => intro p hp; simp [chain] at hp; subst hp; exact h0
  | succ n ih =>
    intro p hp
    unfold chain at hp
    split at hp
    · rename_i id' rest' hs
      simp only [List.mem_cons] at hp
      rcases hp with rfl | hp
      · exact h0
      · exact ih id' rest' (parseSep_valid k _ id' rest' hs) p hp
    · simp at hp; subst hp; exact h0

theorem longestAccepted_sub (l : List (Bytes × Bytes)) (names : List Bytes)
    (h : longestAccepted l = some names) : names ≠ [] ∧ ∀ n ∈ names, ∃ p ∈ l, p.1 = n := by
  induction l generalizing names with
  | nil => simp [longestAccepted] at h
  | cons p more ih =>
    obtain ⟨id, rest⟩ := p
    unfold longestAccepted at h
    split at h
    · rename_i ns hns
      simp only [Option.some.injEq] at h
      subst h
      refine ⟨by simp, ?_⟩
      intro n hn
      simp only [List.mem_cons] at hn
      rcases hn with rfl | hn
      · exact ⟨(n, rest), by simp, rfl⟩
      · obtain ⟨q, hq, e⟩ := (ih ns hns).2 n hn
        exact ⟨q, List.mem_cons_of_mem _ hq, e⟩
    · split at h
      · simp only [Option.some.injEq] at h
        subst h
        exact ⟨by simp, fun n hn => ⟨(id, rest), by simp, (List.mem_singleton.1 hn).symm⟩⟩
      · simp at h

end GGV.Model.Grammar
