import GGV.Model.Checkers
import GGV.Lemmas.Grammar
/-! Where annotations come from: order-free membership characterisations of `readAnnotations`,
    and the emptiness lemma behind C09. -/
namespace GGV.Model.Prog
open GGV.Model GGV.Model.Grammar

theorem ann_append_def (a b : Annotations) : a ++ b = Annotations.append a b := rfl

theorem ann_append_empty (a : Annotations) : a ++ ({} : Annotations) = a := by
  cases a; rw [ann_append_def]; simp [Annotations.append]

theorem ann_empty_append (a : Annotations) : ({} : Annotations) ++ a = a := by
  cases a; rw [ann_append_def]; simp [Annotations.append]

theorem ann_append_assoc (a b c : Annotations) : (a ++ b) ++ c = a ++ (b ++ c) := by
  cases a; cases b; cases c
  simp only [ann_append_def, Annotations.append, List.append_assoc]

theorem concatAnn_foldl (l : List Annotations) (acc : Annotations) :
    l.foldl (· ++ ·) acc = acc ++ concatAnn l := by
  induction l generalizing acc with
  | nil => simp only [List.foldl_nil, concatAnn]; exact (ann_append_empty acc).symm
  | cons a r ih =>
    simp only [List.foldl_cons, concatAnn]
    rw [ih, ih ({} ++ a), ann_empty_append, ann_append_assoc]

theorem concatAnn_cons (a : Annotations) (l : List Annotations) : concatAnn (a :: l) = a ++ concatAnn l := by
  unfold concatAnn
  simp only [List.foldl_cons]
  rw [concatAnn_foldl, ann_empty_append]
  rfl

theorem concatAnn_nil : concatAnn [] = {} := rfl

theorem append_immutable (a b : Annotations) : (a ++ b).immutable = a.immutable ++ b.immutable := rfl
theorem append_constructors (a b : Annotations) : (a ++ b).constructors = a.constructors ++ b.constructors := rfl
theorem append_testonly (a b : Annotations) : (a ++ b).testonly = a.testonly ++ b.testonly := rfl
theorem append_mutable (a b : Annotations) : (a ++ b).mutable = a.mutable ++ b.mutable := rfl
theorem append_packageonly (a b : Annotations) : (a ++ b).packageonly = a.packageonly ++ b.packageonly := rfl

/-- a projection of a concatenation is the concatenation of the projections -/
theorem concatAnn_proj {α} (proj : Annotations → List α)
    (happ : ∀ a b, proj (a ++ b) = proj a ++ proj b) (hnil : proj {} = []) (l : List Annotations) :
    proj (concatAnn l) = l.flatMap proj := by
  induction l with
  | nil => simp [concatAnn_nil, hnil]
  | cons a r ih => rw [concatAnn_cons, happ, ih]; simp

theorem mem_concat_immutable (l : List Annotations) (x : Name) :
    x ∈ (concatAnn l).immutable ↔ ∃ a ∈ l, x ∈ a.immutable := by
  rw [concatAnn_proj (·.immutable) append_immutable rfl]; simp [List.mem_flatMap]

theorem mem_concat_constructors (l : List Annotations) (x : Name × List Name) :
    x ∈ (concatAnn l).constructors ↔ ∃ a ∈ l, x ∈ a.constructors := by
  rw [concatAnn_proj (·.constructors) append_constructors rfl]; simp [List.mem_flatMap]

theorem mem_concat_testonly (l : List Annotations) (x : TestOnlyAnn) :
    x ∈ (concatAnn l).testonly ↔ ∃ a ∈ l, x ∈ a.testonly := by
  rw [concatAnn_proj (·.testonly) append_testonly rfl]; simp [List.mem_flatMap]

theorem mem_concat_mutable (l : List Annotations) (x : Name × Name) :
    x ∈ (concatAnn l).mutable ↔ ∃ a ∈ l, x ∈ a.mutable := by
  rw [concatAnn_proj (·.mutable) append_mutable rfl]; simp [List.mem_flatMap]

theorem mem_concat_packageonly (l : List Annotations) (x : PkgOnlyAnn) :
    x ∈ (concatAnn l).packageonly ↔ ∃ a ∈ l, x ∈ a.packageonly := by
  rw [concatAnn_proj (·.packageonly) append_packageonly rfl]; simp [List.mem_flatMap]

/-- `concatAnn` of empty annotations is empty -/
theorem concatAnn_empty (l : List Annotations) (h : ∀ a ∈ l, a = {}) : concatAnn l = {} := by
  induction l with
  | nil => rfl
  | cons a r ih =>
    rw [concatAnn_cons, h a (by simp), ih (fun x hx => h x (by simp [hx]))]
    exact ann_empty_append _

/-- the line begins (after `//` and blanks) with one of the six annotation keywords -/
def startsWithKeyword (text : Bytes) : Prop :=
  ∃ kw ∈ [kwImplements, kwConstructor, kwImmutable, kwTestonly, kwMutable, kwPackageonly], ∃ t, lead kw text = some t

theorem recogniseBare_lead (kw text : Bytes) (h : recogniseBare kw text = true) : ∃ t, lead kw text = some t := by
  unfold recogniseBare at h
  split at h
  · simp at h
  · rename_i t ht; exact ⟨t, ht⟩

theorem recogniseList_lead (kw : Bytes) (k : IdClass) (text : Bytes) (r : List Bytes)
    (h : recogniseList kw k text = some r) : ∃ t, lead kw text = some t := by
  unfold recogniseList at h
  split at h
  · simp at h
  · rename_i ht; exact ⟨_, ht⟩
  · rename_i b t ht; exact ⟨_, ht⟩

theorem annOfTypeLine_inert (pkgPath : Name) (ts : TypeSpecInfo) (text : Bytes) (h : ¬ startsWithKeyword text) :
    annOfTypeLine pkgPath ts text = {} := by
  unfold annOfTypeLine
  split
  · rfl
  · have himm : recogniseBare kwImmutable text = false := by
      cases hb : recogniseBare kwImmutable text with
      | false => rfl
      | true => exact absurd ⟨kwImmutable, by simp, recogniseBare_lead _ _ hb⟩ h
    have htest : recogniseBare kwTestonly text = false := by
      cases hb : recogniseBare kwTestonly text with
      | false => rfl
      | true => exact absurd ⟨kwTestonly, by simp, recogniseBare_lead _ _ hb⟩ h
    have hctor : parseConstructor text = none := by
      cases hb : parseConstructor text with
      | none => rfl
      | some ns =>
        unfold parseConstructor at hb
        split at hb
        · rename_i n ns' hr
          exact absurd ⟨kwConstructor, by simp, recogniseList_lead _ _ _ _ hr⟩ h
        · simp at hb
    have hpko : parsePackageOnly text = none := by
      cases hb : parsePackageOnly text with
      | none => rfl
      | some ns => exact absurd ⟨kwPackageonly, by simp, recogniseList_lead _ _ _ _ hb⟩ h
    simp [himm, htest, hctor, hpko]

theorem annOfFuncLine_inert (pkgPath name : Name) (kind : AKind) (recv : Name) (text : Bytes) (h : ¬ startsWithKeyword text) :
    annOfFuncLine pkgPath name kind recv text = {} := by
  unfold annOfFuncLine
  split
  · rfl
  · have htest : recogniseBare kwTestonly text = false := by
      cases hb : recogniseBare kwTestonly text with
      | false => rfl
      | true => exact absurd ⟨kwTestonly, by simp, recogniseBare_lead _ _ hb⟩ h
    have hpko : parsePackageOnly text = none := by
      cases hb : parsePackageOnly text with
      | none => rfl
      | some ns => exact absurd ⟨kwPackageonly, by simp, recogniseList_lead _ _ _ _ hb⟩ h
    simp [htest, hpko]

/-- the doc lines `ReadAllAnnotations` looks at in a declaration: the doc of the declaration, of its type specs
    (for type declarations) and nothing else -/
def Decl.docLines (d : Decl) : List Bytes :=
  match d.info with
  | .func _ doc _ => doc.getD []
  | .gen _ genDoc specs => genDoc.getD [] ++ specs.flatMap (fun ts => ts.doc.getD [])

theorem annOfDeclTypes_inert (pkgPath : Name) (d : Decl) (h : ∀ t ∈ d.docLines, ¬ startsWithKeyword t) :
    annOfDeclTypes pkgPath d = {} := by
  unfold annOfDeclTypes
  cases hi : d.info with
  | func n doc r => rfl
  | gen tok genDoc specs =>
    simp only
    split
    · rfl
    · apply concatAnn_empty
      intro a ha
      simp only [List.mem_map] at ha
      obtain ⟨ts, hts, rfl⟩ := ha
      cases hsd : specDoc genDoc ts with
      | none => rfl
      | some lines =>
        simp only
        apply concatAnn_empty
        intro b hb
        simp only [List.mem_map] at hb
        obtain ⟨text, htext, rfl⟩ := hb
        apply annOfTypeLine_inert
        apply h
        simp only [Decl.docLines, hi, List.mem_append, List.mem_flatMap]
        unfold specDoc at hsd
        cases hd : ts.doc with
        | some l =>
          simp only [hd, Option.some.injEq] at hsd
          subst hsd
          exact Or.inr ⟨ts, hts, by simp [hd, htext]⟩
        | none =>
          simp only [hd] at hsd
          exact Or.inl (by simp [hsd, htext])

theorem annOfDeclFuncs_inert (pkgPath : Name) (d : Decl) (h : ∀ t ∈ d.docLines, ¬ startsWithKeyword t) :
    annOfDeclFuncs pkgPath d = {} := by
  unfold annOfDeclFuncs
  cases hi : d.info with
  | gen tok genDoc specs => rfl
  | func n doc r =>
    simp only
    cases hd : doc with
    | none => rfl
    | some lines =>
      simp only
      apply concatAnn_empty
      intro b hb
      simp only [List.mem_map] at hb
      obtain ⟨text, htext, rfl⟩ := hb
      apply annOfFuncLine_inert
      apply h
      simp [Decl.docLines, hi, hd, htext]

/-- **no doc line of a scanned top-level declaration begins with a keyword ⇒ no annotations** -/
theorem readAnnotations_empty (cfg : Cfg) (p : Pkg)
    (h : ∀ f ∈ filesToScan cfg p, ∀ d ∈ f.decls, ∀ t ∈ d.docLines, ¬ startsWithKeyword t) :
    readAnnotations cfg p = {} := by
  unfold readAnnotations
  apply concatAnn_empty
  intro a ha
  simp only [List.mem_map] at ha
  obtain ⟨f, hf, rfl⟩ := ha
  unfold annOfFile
  have h1 : concatAnn (f.decls.map (annOfDeclTypes p.path)) = {} := by
    apply concatAnn_empty
    intro a ha
    simp only [List.mem_map] at ha
    obtain ⟨d, hd, rfl⟩ := ha
    exact annOfDeclTypes_inert p.path d (h f hf d hd)
  have h2 : concatAnn (f.decls.map (annOfDeclFuncs p.path)) = {} := by
    apply concatAnn_empty
    intro a ha
    simp only [List.mem_map] at ha
    obtain ⟨d, hd, rfl⟩ := ha
    exact annOfDeclFuncs_inert p.path d (h f hf d hd)
  rw [h1, h2]; exact ann_empty_append _

end GGV.Model.Prog
