import GGV.Model.IgnoreSet
/-! Helper lemmas for C16/C08/C10: representation invariant of `ISet` along any history. -/
namespace GGV.Model

def markersOf : List Op → List Marker
  | [] => []
  | .add m :: r => m :: markersOf r
  | .addModule _ :: r => markersOf r

def modsOf : List Op → List String
  | [] => []
  | .add _ :: r => modsOf r
  | .addModule cs :: r => cs ++ modsOf r

/-- representation invariant -/
structure RepInv (s : ISet) (ms : List Marker) (mods : List String) : Prop where
  hMarkers : s.markers = ms
  hMods : s.modIgn = mods
  uninit : s.init = false → ms = [] ∧ mods = []
  idx : s.init = true → ∀ c i, i ∈ s.index c ↔ ∃ m, ms[i]? = some m ∧ c ∈ m.codes
  minEmpty : s.init = true → ms = [] → s.minPos = 0
  minLe : s.init = true → ms ≠ [] → 1 ≤ s.minPos ∧ ∀ m ∈ ms, s.minPos ≤ m.start
  maxGe : s.init = true → ∀ m ∈ ms, 1 ≤ m.stop → m.stop ≤ s.maxPos

theorem inv_default : RepInv ({} : ISet) [] [] := by
  constructor <;> simp

theorem inv_ensure {s ms mods} (h : RepInv s ms mods) :
    RepInv s.ensure ms mods ∧ s.ensure.init = true := by
  unfold ISet.ensure
  by_cases hi : s.init = true
  · simp [hi, h]
  · have hi' : s.init = false := by simpa using hi
    obtain ⟨hms, hmods⟩ := h.uninit hi'
    subst hms; subst hmods
    simp only [hi, Bool.false_eq_true, if_false, and_true]
    constructor <;> simp [h.hMods]

theorem inv_addModule {s ms mods} (h : RepInv s ms mods) (cs : List String) :
    RepInv (s.addModule cs) ms (mods ++ cs) := by
  obtain ⟨he, hi⟩ := inv_ensure h
  unfold ISet.addModule
  constructor
  · exact he.hMarkers
  · simp [he.hMods]
  · intro h'; simp [hi] at h'
  · intro _; exact he.idx hi
  · intro _; exact he.minEmpty hi
  · intro _; exact he.minLe hi
  · intro _; exact he.maxGe hi

theorem inv_add {s ms mods} (h : RepInv s ms mods) (m : Marker) (hm : 1 ≤ m.start) :
    RepInv (s.add m) (ms ++ [m]) mods := by
  obtain ⟨he, hi⟩ := inv_ensure h
  have hmk := he.hMarkers
  unfold ISet.add
  constructor
  · simp [hmk]
  · exact he.hMods
  · intro h'; simp [hi] at h'
  · intro _ c i
    simp only
    have hidx := he.idx hi c i
    by_cases hc : c ∈ m.codes
    · simp only [hc, if_true, List.mem_append, List.mem_singleton, hidx, hmk]
      constructor
      · rintro (⟨m', h1, h2⟩ | rfl)
        · refine ⟨m', ?_, h2⟩
          have : i < ms.length := by
            rcases Nat.lt_or_ge i ms.length with h | h
            · exact h
            · simp [List.getElem?_eq_none h] at h1
          simp [List.getElem?_append_left this, h1]
        · exact ⟨m, by simp, hc⟩
      · rintro ⟨m', h1, h2⟩
        rcases Nat.lt_or_ge i ms.length with hlt | hge
        · left; exact ⟨m', by simpa [List.getElem?_append_left hlt] using h1, h2⟩
        · right
          rw [List.getElem?_append_right hge] at h1
          have : i - ms.length = 0 := by
            rcases Nat.eq_zero_or_pos (i - ms.length) with h | h
            · exact h
            · simp [Nat.ne_of_gt h] at h1
          omega
    · simp only [hc, if_false, hidx]
      constructor
      · rintro ⟨m', h1, h2⟩
        have : i < ms.length := by
          rcases Nat.lt_or_ge i ms.length with h | h
          · exact h
          · simp [List.getElem?_eq_none h] at h1
        exact ⟨m', by simp [List.getElem?_append_left this, h1], h2⟩
      · rintro ⟨m', h1, h2⟩
        rcases Nat.lt_or_ge i ms.length with hlt | hge
        · exact ⟨m', by simpa [List.getElem?_append_left hlt] using h1, h2⟩
        · exfalso
          rw [List.getElem?_append_right hge] at h1
          rcases Nat.eq_zero_or_pos (i - ms.length) with h | h
          · simp [h] at h1; subst h1; exact hc h2
          · simp [Nat.ne_of_gt h] at h1
  · intro _ h'; simp at h'
  · intro _ _
    simp only
    by_cases hms : ms = []
    · have h0 := he.minEmpty hi hms
      subst hms
      simp [h0]; omega
    · obtain ⟨h1, h2⟩ := he.minLe hi hms
      constructor
      · split <;> omega
      · intro m' hm'
        simp only [List.mem_append, List.mem_singleton] at hm'
        rcases hm' with hm' | rfl
        · have := h2 m' hm'; split <;> omega
        · split <;> omega
  · intro _ m' hm' hstop
    simp only [List.mem_append, List.mem_singleton] at hm'
    simp only
    rcases hm' with hm' | rfl
    · have := he.maxGe hi m' hm' hstop; split <;> omega
    · split <;> omega

theorem inv_foldl (ops : List Op) (hpos : ∀ m, Op.add m ∈ ops → 1 ≤ m.start) :
    ∀ {s ms mods}, RepInv s ms mods →
      RepInv (ops.foldl step s) (ms ++ markersOf ops) (mods ++ modsOf ops) := by
  induction ops with
  | nil => intro s ms mods h; simpa [markersOf, modsOf] using h
  | cons op r ih =>
    intro s ms mods h
    have hr : ∀ m, Op.add m ∈ r → 1 ≤ m.start := fun m hm => hpos m (List.mem_cons_of_mem _ hm)
    cases op with
    | add m =>
      have := ih hr (inv_add h m (hpos m (by simp)))
      simpa [markersOf, modsOf, step, List.append_assoc] using this
    | addModule cs =>
      have := ih hr (inv_addModule h cs)
      simpa [markersOf, modsOf, step, List.append_assoc] using this

theorem inv_run (ops : List Op) (hpos : ∀ m, Op.add m ∈ ops → 1 ≤ m.start) :
    RepInv (run ops) (markersOf ops) (modsOf ops) := by
  have := inv_foldl ops hpos inv_default
  simpa [run] using this

theorem mem_markersOf {ops : List Op} {m : Marker} : m ∈ markersOf ops ↔ Op.add m ∈ ops := by
  induction ops with
  | nil => simp [markersOf]
  | cons op r ih =>
    cases op with
    | add m' => simp [markersOf, ih]
    | addModule cs => simp [markersOf, ih]

theorem mem_modsOf {ops : List Op} {t : String} : t ∈ modsOf ops ↔ ∃ cs, Op.addModule cs ∈ ops ∧ t ∈ cs := by
  induction ops with
  | nil => simp [modsOf]
  | cons op r ih =>
    cases op with
    | add m' => simp [modsOf, ih]
    | addModule cs =>
      simp only [modsOf, List.mem_append, ih, List.mem_cons, Op.addModule.injEq]
      constructor
      · rintro (h | ⟨cs', h1, h2⟩)
        · exact ⟨cs, Or.inl rfl, h⟩
        · exact ⟨cs', Or.inr h1, h2⟩
      · rintro ⟨cs', (rfl | h1), h2⟩
        · exact Or.inl h2
        · exact Or.inr ⟨cs', h1, h2⟩

variable (hier : String → List String)

theorem contains_iff_of_inv {s ms mods} (h : RepInv s ms mods) (hpos : ∀ m ∈ ms, 1 ≤ m.start)
    (code : String) (pos : Int) :
    s.containsH hier code pos = true ↔
      ∃ t ∈ hier code, t ∈ mods ∨ ∃ m ∈ ms, t ∈ m.codes ∧ m.start ≤ pos ∧ pos ≤ m.stop := by
  unfold ISet.containsH
  by_cases hi : s.init = true
  · simp only [hi, Bool.not_true, Bool.false_eq_true, if_false]
    by_cases hmod : (hier code).any (fun c => s.modIgn.contains c) = true
    · simp only [hmod, if_true, true_iff]
      simp only [List.any_eq_true, List.contains_iff_mem] at hmod
      obtain ⟨t, ht, hc⟩ := hmod
      exact ⟨t, ht, Or.inl (by simpa [h.hMods] using hc)⟩
    · simp only [hmod, Bool.false_eq_true, if_false]
      have hnomod : ∀ t ∈ hier code, t ∉ mods := by
        intro t ht hc
        apply hmod
        simp only [List.any_eq_true, List.contains_iff_mem]
        exact ⟨t, ht, by simpa [h.hMods] using hc⟩
      by_cases hrej : s.minPos = 0 ∨ pos < s.minPos ∨ pos > s.maxPos
      · simp only [hrej, if_true, Bool.false_eq_true, false_iff]
        rintro ⟨t, ht, hc | ⟨m, hm, _, h1, h2⟩⟩
        · exact hnomod t ht hc
        · have hne : ms ≠ [] := by intro e; simp [e] at hm
          obtain ⟨hmin1, hmin⟩ := h.minLe hi hne
          have hmax := h.maxGe hi m hm (by have := hpos m hm; omega)
          have := hmin m hm
          rcases hrej with h0 | h0 | h0 <;> omega
      · simp only [hrej, if_false]
        simp only [List.any_eq_true]
        constructor
        · rintro ⟨t, ht, i, hi', hm⟩
          obtain ⟨m, hgm, hcm⟩ := (h.idx hi t i).1 hi'
          rw [h.hMarkers, hgm] at hm
          simp only [Bool.and_eq_true, decide_eq_true_eq] at hm
          exact ⟨t, ht, Or.inr ⟨m, List.mem_of_getElem? hgm, hcm, hm.1, hm.2⟩⟩
        · rintro ⟨t, ht, hc | ⟨m, hm, hcm, h1, h2⟩⟩
          · exact absurd hc (hnomod t ht)
          · obtain ⟨i, hlt, hget⟩ := List.getElem_of_mem hm
            have hgm : ms[i]? = some m := by simp [List.getElem?_eq_getElem hlt, hget]
            refine ⟨t, ht, i, (h.idx hi t i).2 ⟨m, hgm, hcm⟩, ?_⟩
            rw [h.hMarkers, hgm]
            simp [h1, h2]
  · have hi' : s.init = false := by simpa using hi
    obtain ⟨e1, e2⟩ := h.uninit hi'
    subst e1; subst e2
    simp [hi']

/-- every index stored in the code index is a valid index into `markers` (Go: `s.Markers[idx]` never panics) -/
theorem index_in_range {s ms mods} (h : RepInv s ms mods) (hi : s.init = true) (c : String) (i : Nat)
    (hmem : i ∈ s.index c) : i < s.markers.length := by
  obtain ⟨m, hm, _⟩ := (h.idx hi c i).1 hmem
  rw [h.hMarkers]
  rcases Nat.lt_or_ge i ms.length with hlt | hge
  · exact hlt
  · simp [List.getElem?_eq_none hge] at hm

end GGV.Model
