import GGV.Lemmas.Grammar
/-! Completeness of the list-argument recogniser: every line of the documented shape is recognised with exactly its items. -/
namespace GGV.Model.Grammar
open GGV.Model

/-- neither a blank nor a comma starts or continues an identifier of the class -/
structure SepFree (k : IdClass) : Prop where
  ws_rest : ∀ b, isWs b = true → k.rest b = false
  comma_rest : k.rest 44 = false
  ws_start : ∀ b, isWs b = true → k.start b = false

theorem isWs_cases {b : UInt8} (h : isWs b = true) : b = 9 ∨ b = 10 ∨ b = 12 ∨ b = 13 ∨ b = 32 := by
  simpa [isWs, or_assoc] using h

theorem sepFree_goIdent : SepFree goIdent := by
  refine ⟨?_, by decide, ?_⟩ <;> intro b hb <;> rcases isWs_cases hb with rfl | rfl | rfl | rfl | rfl <;> decide

theorem sepFree_pkgPath : SepFree pkgPath := by
  refine ⟨?_, by decide, ?_⟩ <;> intro b hb <;> rcases isWs_cases hb with rfl | rfl | rfl | rfl | rfl <;> decide

theorem sepFree_codeTok : SepFree codeTok := by
  refine ⟨?_, by decide, ?_⟩ <;> intro b hb <;> rcases isWs_cases hb with rfl | rfl | rfl | rfl | rfl <;> decide

/-- the text cannot continue an identifier: it is empty or starts with a byte outside `rest` -/
def Stops (k : IdClass) (t : Bytes) : Prop := ∀ b r, t = b :: r → k.rest b = false

theorem spanP_stop (p : UInt8 → Bool) (cs t : Bytes) (hcs : ∀ c ∈ cs, p c = true)
    (ht : ∀ b r, t = b :: r → p b = false) : spanP p (cs ++ t) = (cs, t) := by
  induction cs with
  | nil =>
    cases t with
    | nil => rfl
    | cons b r => simp [spanP, ht b r rfl]
  | cons c cs ih =>
    have hc : p c = true := hcs c (by simp)
    simp only [List.cons_append, spanP, hc, if_true]
    rw [ih (fun x hx => hcs x (by simp [hx]))]

theorem parseId_append (k : IdClass) (id t : Bytes) (hid : ValidId k id) (ht : Stops k t) :
    parseId k (id ++ t) = some (id, t) := by
  obtain ⟨b, r, rfl, hb, hr⟩ := hid
  simp only [List.cons_append, parseId, hb, if_true]
  rw [spanP_stop k.rest r t hr ht]

theorem validId_head_nonws (k : IdClass) (hk : SepFree k) (id t : Bytes) (hid : ValidId k id) :
    dropWs (id ++ t) = id ++ t := by
  obtain ⟨b, r, rfl, hb, _⟩ := hid
  have : isWs b = false := by
    cases h : isWs b with
    | false => rfl
    | true => rw [hk.ws_start b h] at hb; exact absurd hb (by simp)
  exact dropWs_of_nonws_head b _ this

theorem parseSep_append (k : IdClass) (hk : SepFree k) (a b id t : Bytes) (ha : AllWs a) (hb : AllWs b)
    (hid : ValidId k id) (ht : Stops k t) :
    parseSep k (a ++ 44 :: (b ++ (id ++ t))) = some (id, t) := by
  unfold parseSep
  rw [dropWs_append_of_ws a _ ha, dropWs_of_nonws_head 44 _ (by decide)]
  simp only
  rw [dropWs_append_of_ws b _ hb, validId_head_nonws k hk id t hid]
  exact parseId_append k id t hid ht

/-- the separators-and-identifiers after the first identifier: `(blanks, blanks, ID)` stands for `blanks , blanks ID` -/
def sepText : List (Bytes × Bytes × Bytes) → Bytes
  | [] => []
  | (a, b, id) :: more => a ++ 44 :: (b ++ (id ++ sepText more))

def WfItems (k : IdClass) (more : List (Bytes × Bytes × Bytes)) : Prop :=
  ∀ x ∈ more, AllWs x.1 ∧ AllWs x.2.1 ∧ ValidId k x.2.2

theorem sepText_append_stops (k : IdClass) (hk : SepFree k) (more : List (Bytes × Bytes × Bytes)) (trail : Bytes)
    (hw : WfItems k more) (ht : Stops k trail) : Stops k (sepText more ++ trail) := by
  cases more with
  | nil => simpa [sepText] using ht
  | cons x more =>
    obtain ⟨a, b, id⟩ := x
    have ha : AllWs a := (hw (a, b, id) (by simp)).1
    intro c r e
    cases a with
    | nil =>
      simp only [sepText, List.nil_append, List.cons_append, List.cons.injEq] at e
      rw [← e.1]; exact hk.comma_rest
    | cons a0 a =>
      simp only [sepText, List.cons_append, List.cons.injEq] at e
      rw [← e.1]; exact hk.ws_rest a0 (ha a0 (by simp))

theorem acceptAfter_stops (k : IdClass) (hk : SepFree k) (t : Bytes) (h : acceptAfter t = true) : Stops k t := by
  intro b r e
  subst e
  unfold acceptAfter at h
  simp only [Bool.or_eq_true] at h
  rcases h with h | h
  · simp only [tailOk, Bool.and_eq_true] at h
    exact hk.ws_rest b h.1
  · by_cases hb : isWs b = true
    · exact hk.ws_rest b hb
    · have hb' : isWs b = false := by simpa using hb
      rw [dropWs_of_nonws_head b r hb'] at h
      split at h
      · rename_i r' e
        simp only [List.cons.injEq] at e
        rw [e.1]; exact hk.comma_rest
      · simp at h

/-- the chain over a documented list yields all of its identifiers, when the text after the last one lets the regex finish
    and does not continue the list -/
theorem longestAccepted_chain (k : IdClass) (hk : SepFree k) (trail : Bytes)
    (hacc : acceptAfter trail = true) (hstop : parseSep k trail = none) :
    ∀ (more : List (Bytes × Bytes × Bytes)) (id0 : Bytes) (fuel : Nat), WfItems k more → more.length ≤ fuel →
      longestAccepted (chain k fuel id0 (sepText more ++ trail)) = some (id0 :: more.map (·.2.2)) := by
  intro more
  induction more with
  | nil =>
    intro id0 fuel _ _
    have : chain k fuel id0 (sepText [] ++ trail) = [(id0, trail)] := by
      cases fuel with
      | zero => rfl
      | succ n => simp [chain, sepText, hstop]
    rw [this]
    simp [longestAccepted, hacc]
  | cons x more ih =>
    intro id0 fuel hw hlen
    obtain ⟨a, b, id⟩ := x
    cases fuel with
    | zero => simp at hlen
    | succ n =>
      have hx := hw (a, b, id) (by simp)
      have hw' : WfItems k more := fun y hy => hw y (by simp [hy])
      have hst : Stops k (sepText more ++ trail) :=
        sepText_append_stops k hk more trail hw' (acceptAfter_stops k hk trail hacc)
      have hps : parseSep k (sepText ((a, b, id) :: more) ++ trail) = some (id, sepText more ++ trail) := by
        have := parseSep_append k hk a b id (sepText more ++ trail) hx.1 hx.2.1 hx.2.2 hst
        simpa [sepText, List.append_assoc] using this
      unfold chain
      rw [hps]
      simp only [longestAccepted, List.map_cons]
      rw [ih id n hw' (by simpa using hlen)]

theorem sepText_length (more : List (Bytes × Bytes × Bytes)) : more.length ≤ (sepText more).length := by
  induction more with
  | nil => simp
  | cons x more ih =>
    obtain ⟨a, b, id⟩ := x
    simp only [sepText, List.length_cons, List.length_append]
    omega

end GGV.Model.Grammar

/-! ## soundness: what the list recogniser returns is a decomposition of the line -/
namespace GGV.Model.Grammar
open GGV.Model

theorem parseId_some (k : IdClass) (s id rest : Bytes) (h : parseId k s = some (id, rest)) :
    s = id ++ rest ∧ ValidId k id := by
  refine ⟨?_, parseId_valid k s id rest h⟩
  cases s with
  | nil => simp [parseId] at h
  | cons b r =>
    unfold parseId at h
    by_cases hb : k.start b = true
    · simp only [hb, if_true, Option.some.injEq, Prod.mk.injEq] at h
      obtain ⟨rfl, rfl⟩ := h
      simp only [List.cons_append, List.cons.injEq, true_and]
      exact (spanP_append k.rest r).symm
    · simp [hb] at h

theorem parseSep_some (k : IdClass) (s id rest : Bytes) (h : parseSep k s = some (id, rest)) :
    ∃ a b, AllWs a ∧ AllWs b ∧ s = a ++ 44 :: (b ++ (id ++ rest)) ∧ ValidId k id := by
  unfold parseSep at h
  split at h
  · rename_i r hr
    obtain ⟨a, ha, hs, _⟩ := dropWs_spec s
    obtain ⟨b, hb, hr2, _⟩ := dropWs_spec r
    obtain ⟨e, hv⟩ := parseId_some k _ id rest h
    refine ⟨a, b, ha, hb, ?_, hv⟩
    rw [hs, hr, hr2, e]
  · simp at h

theorem chain_longest (k : IdClass) : ∀ (fuel : Nat) (id0 r0 : Bytes) (names : List Bytes),
    longestAccepted (chain k fuel id0 r0) = some names →
    ∃ more trail, WfItems k more ∧ acceptAfter trail = true ∧ r0 = sepText more ++ trail ∧
      names = id0 :: more.map (·.2.2) := by
  intro fuel
  induction fuel with
  | zero =>
    intro id0 r0 names h
    simp only [chain, longestAccepted] at h
    split at h
    · rename_i hacc
      simp only [Option.some.injEq] at h
      exact ⟨[], r0, by intro x hx; simp at hx, hacc, by simp [sepText], by simp [h.symm]⟩
    · simp at h
  | succ n ih =>
    intro id0 r0 names h
    unfold chain at h
    split at h
    · rename_i id' r' hs
      simp only [longestAccepted] at h
      split at h
      · rename_i ns hns
        simp only [Option.some.injEq] at h
        obtain ⟨more', trail, hw, hacc, hr, hn⟩ := ih id' r' ns hns
        obtain ⟨a, b, ha, hb, e, hv⟩ := parseSep_some k r0 id' r' hs
        refine ⟨(a, b, id') :: more', trail, ?_, hacc, ?_, ?_⟩
        · intro x hx
          simp only [List.mem_cons] at hx
          rcases hx with rfl | hx
          · exact ⟨ha, hb, hv⟩
          · exact hw x hx
        · rw [e, hr]; simp [sepText, List.append_assoc]
        · rw [← h, hn]; simp
      · split at h
        · rename_i hacc
          simp only [Option.some.injEq] at h
          exact ⟨[], r0, by intro x hx; simp at hx, hacc, by simp [sepText], by simp [h.symm]⟩
        · simp at h
    · simp only [longestAccepted] at h
      split at h
      · rename_i hacc
        simp only [Option.some.injEq] at h
        exact ⟨[], r0, by intro x hx; simp at hx, hacc, by simp [sepText], by simp [h.symm]⟩
      · simp at h

end GGV.Model.Grammar
