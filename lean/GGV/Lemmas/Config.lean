import GGV.Model.Config
/-! Helper lemmas for C18: split / join / trim algebra over code-point lists. -/
namespace GGV.Model.Config

/-- the facts about the case mapping the theorems rely on (validated for Go's tables by the harness) -/
structure UpperOK (upper : Nat → Nat) : Prop where
  idem : ∀ c, upper (upper c) = upper c
  noComma : ∀ c, c ≠ comma → upper c ≠ comma
  noSpace : ∀ c, isSpace c = false → isSpace (upper c) = false

theorem dropSpaces_suffix (s : Str) : ∃ w, s = w ++ dropSpaces s ∧ ∀ c ∈ w, isSpace c = true := by
  induction s with
  | nil => exact ⟨[], by simp [dropSpaces], by simp⟩
  | cons c r ih =>
    by_cases hc : isSpace c = true
    · obtain ⟨w, h1, h2⟩ := ih
      refine ⟨c :: w, ?_, ?_⟩
      · simp only [dropSpaces, hc, if_true, List.cons_append]; rw [← h1]
      · intro x hx; simp at hx; rcases hx with rfl | hx; exact hc; exact h2 x hx
    · exact ⟨[], by simp [dropSpaces, hc], by simp⟩

theorem dropSpaces_head (s : Str) (c : Nat) (r : Str) (h : dropSpaces s = c :: r) : isSpace c = false := by
  induction s with
  | nil => simp [dropSpaces] at h
  | cons d t ih =>
    by_cases hd : isSpace d = true
    · simp only [dropSpaces, hd, if_true] at h; exact ih h
    · simp only [dropSpaces, hd] at h
      simp at h; obtain ⟨rfl, _⟩ := h; simpa using hd

theorem dropSpaces_of_head (c : Nat) (r : Str) (h : isSpace c = false) : dropSpaces (c :: r) = c :: r := by
  simp [dropSpaces, h]

theorem mem_dropSpaces {s : Str} {x : Nat} (h : x ∈ dropSpaces s) : x ∈ s := by
  obtain ⟨w, h1, _⟩ := dropSpaces_suffix s
  rw [h1]; exact List.mem_append_right _ h

theorem mem_trim {s : Str} {x : Nat} (h : x ∈ trim s) : x ∈ s := by
  unfold trim at h
  have h1 : x ∈ dropSpaces (dropSpaces s).reverse := by simpa using h
  have h2 := mem_dropSpaces h1
  exact mem_dropSpaces (by simpa using h2)

/-- no leading and no trailing blank -/
def Trimmed (t : Str) : Prop :=
  (∀ c r, t = c :: r → isSpace c = false) ∧ (∀ c r, t.reverse = c :: r → isSpace c = false)

theorem trim_of_trimmed (t : Str) (h : Trimmed t) : trim t = t := by
  unfold trim
  have h1 : dropSpaces t = t := by
    cases t with
    | nil => rfl
    | cons c r => exact dropSpaces_of_head c r (h.1 c r rfl)
  rw [h1]
  have h2 : dropSpaces t.reverse = t.reverse := by
    cases hr : t.reverse with
    | nil => rfl
    | cons c r => exact dropSpaces_of_head c r (h.2 c r hr)
  rw [h2, List.reverse_reverse]

theorem trimmed_trim (s : Str) : Trimmed (trim s) := by
  unfold trim
  constructor
  · intro c r h
    obtain ⟨w, h1, _⟩ := dropSpaces_suffix (dropSpaces s).reverse
    -- (dropSpaces s).reverse = w ++ b, so dropSpaces s = b.reverse ++ w.reverse
    have h2 : dropSpaces s = (dropSpaces (dropSpaces s).reverse).reverse ++ w.reverse := by
      have := congrArg List.reverse h1
      simpa using this
    rw [h] at h2
    exact dropSpaces_head s c _ (by simpa using h2)
  · intro c r h
    rw [List.reverse_reverse] at h
    exact dropSpaces_head _ c r h

theorem splitComma_ne_nil (s : Str) : splitComma s ≠ [] := by
  induction s with
  | nil => simp [splitComma]
  | cons c r ih =>
    unfold splitComma
    split
    · simp
    · split
      · simp
      · simp

theorem splitComma_nocomma (x : Str) (hx : comma ∉ x) : splitComma x = [x] := by
  induction x with
  | nil => rfl
  | cons c r ih =>
    have hc : (c == comma) = false := by
      simp only [List.mem_cons, not_or] at hx
      have : ¬ c = comma := fun e => hx.1 e.symm
      simpa using this
    have hr : comma ∉ r := fun h => hx (List.mem_cons_of_mem _ h)
    simp [splitComma, hc, ih hr]

theorem splitComma_append_comma (x rest : Str) (hx : comma ∉ x) :
    splitComma (x ++ comma :: rest) = x :: splitComma rest := by
  induction x with
  | nil => simp [splitComma]
  | cons c r ih =>
    have hc : (c == comma) = false := by
      simp only [List.mem_cons, not_or] at hx
      have : ¬ c = comma := fun e => hx.1 e.symm
      simpa using this
    have hr : comma ∉ r := fun h => hx (List.mem_cons_of_mem _ h)
    simp [splitComma, hc, ih hr]

theorem splitComma_join (items : List Str) (hne : items ≠ []) (h : ∀ x ∈ items, comma ∉ x) :
    splitComma (joinComma items) = items := by
  induction items with
  | nil => exact absurd rfl hne
  | cons x r ih =>
    cases r with
    | nil => simpa [joinComma] using splitComma_nocomma x (h x (by simp))
    | cons y r' =>
      simp only [joinComma]
      rw [splitComma_append_comma x _ (h x (by simp))]
      rw [ih (by simp) (fun z hz => h z (List.mem_cons_of_mem _ hz))]

theorem splitComma_parts_nocomma (s : Str) : ∀ p ∈ splitComma s, comma ∉ p := by
  induction s with
  | nil => intro p hp; simp [splitComma] at hp; subst hp; simp
  | cons c r ih =>
    intro p hp
    unfold splitComma at hp
    by_cases hc : (c == comma) = true
    · simp only [hc, if_true, List.mem_cons] at hp
      rcases hp with rfl | hp
      · simp
      · exact ih p hp
    · simp only [hc] at hp
      cases hs : splitComma r with
      | nil => exact absurd hs (splitComma_ne_nil r)
      | cons q qs =>
        rw [hs] at hp
        simp only [Bool.false_eq_true, if_false, List.mem_cons] at hp
        rcases hp with rfl | hp
        · intro hmem
          simp only [List.mem_cons] at hmem
          rcases hmem with h | h
          · exact hc (by simp [h])
          · exact ih q (by simp [hs]) h
        · exact ih p (by simp [hs, hp])

theorem joinComma_ne_nil (items : List Str) (hne : items ≠ []) (h : ∀ x ∈ items, x ≠ []) : joinComma items ≠ [] := by
  cases items with
  | nil => exact absurd rfl hne
  | cons x r =>
    cases r with
    | nil => simpa [joinComma] using h x (by simp)
    | cons y r' =>
      simp only [joinComma]
      have := h x (by simp)
      cases x with
      | nil => exact absurd rfl this
      | cons a b => simp

theorem filterMap_eq_self {α} (g : α → Option α) (l : List α) (h : ∀ x ∈ l, g x = some x) : l.filterMap g = l := by
  induction l with
  | nil => rfl
  | cons x r ih =>
    simp only [List.filterMap_cons, h x (by simp)]
    rw [ih (fun y hy => h y (List.mem_cons_of_mem _ hy))]

/-- the `input == ""` special case of `parseStringList` is redundant -/
theorem parseList_eq (upper : Nat → Nat) (b : Bool) (s : Str) :
    parseList upper b s = (splitComma s).filterMap fun part =>
      if trim part = [] then none else some (if b then (trim part).map upper else trim part) := by
  unfold parseList
  by_cases hs : s = []
  · subst hs; simp [splitComma, trim, dropSpaces]
  · simp [hs]

/-- every item `parseStringList` returns is non-empty, has no surrounding blanks and no comma -/
theorem parseList_item (upper : Nat → Nat) (hu : UpperOK upper) (b : Bool) (s : Str) (x : Str)
    (hx : x ∈ parseList upper b s) : x ≠ [] ∧ Trimmed x ∧ comma ∉ x ∧ (b = true → x.map upper = x) := by
  rw [parseList_eq] at hx
  simp only [List.mem_filterMap] at hx
  obtain ⟨part, hp, hg⟩ := hx
  by_cases ht : trim part = []
  · simp [ht] at hg
  · simp only [ht, if_false, Option.some.injEq] at hg
    have hnc : comma ∉ trim part := fun h => splitComma_parts_nocomma s part hp (mem_trim h)
    have htr := trimmed_trim part
    cases b with
    | false =>
      simp only [Bool.false_eq_true, if_false] at hg
      subst hg
      exact ⟨ht, htr, hnc, by simp⟩
    | true =>
      simp only [if_true] at hg
      subst hg
      refine ⟨by simpa using ht, ?_, ?_, ?_⟩
      · constructor
        · intro c r h
          cases htp : trim part with
          | nil => exact absurd htp ht
          | cons d t =>
            rw [htp] at h
            simp only [List.map_cons, List.cons.injEq] at h
            rw [← h.1]
            exact hu.noSpace d (htr.1 d t htp)
        · intro c r h
          rw [← List.map_reverse] at h
          cases htp : (trim part).reverse with
          | nil => simp [htp] at h
          | cons d t =>
            rw [htp] at h
            simp only [List.map_cons, List.cons.injEq] at h
            rw [← h.1]
            exact hu.noSpace d (htr.2 d t htp)
      · intro hmem
        simp only [List.mem_map] at hmem
        obtain ⟨c, hc, hcc⟩ := hmem
        by_cases hcomma : c = comma
        · exact hnc (hcomma ▸ hc)
        · exact hu.noComma c hcomma hcc
      · intro _
        simp [List.map_map, Function.comp_def, hu.idem]

end GGV.Model.Config
