import GGV.Model.Checkers
/-!
# Re-positioning: the four walks read positions only to hand them on

Inserting blank lines or comments, gofmt and renaming local variables change byte offsets, nothing else the walks
look at. `mapPos φ` applies an arbitrary position map `φ` to every position a walk can report; the theorems say that
each walk commutes with it (given, for the two walks that consult the ignore set while they run, that the ignore
sets agree modulo `φ`).
-/
namespace GGV.Model.Prog
open GGV.Model

def Lhs.mapPos (φ : Int → Int) : Lhs → Lhs
  | .sel t n p => .sel t n (φ p)
  | .idx x p => .idx (x.mapPos φ) (φ p)
  | .star x p => .star (x.mapPos φ) (φ p)
  | .paren x => .paren (x.mapPos φ)
  | .ident n => .ident n
  | .other => .other

def VarSpec.mapPos (φ : Int → Int) (s : VarSpec) : VarSpec :=
  { s with names := s.names.map fun v => { v with pos := φ v.pos } }

def Kind.mapPos (φ : Int → Int) : Kind → Kind
  | .assign tok lhs => .assign tok (lhs.map (Lhs.mapPos φ))
  | .incDec x => .incDec (x.mapPos φ)
  | .genVar specs => .genVar (specs.map (VarSpec.mapPos φ))
  | k => k

/-- a re-layout: where every byte offset and every line number of the original file ends up -/
structure Relay where
  pos : Int → Int
  line : Int → Int

def Node.mapPos (r : Relay) (n : Node) : Node :=
  { n with kind := n.kind.mapPos r.pos, pos := r.pos n.pos, stop := r.pos n.stop,
           startLine := r.line n.startLine, endLine := r.line n.endLine }

def Decl.mapPos (r : Relay) (d : Decl) : Decl :=
  { d with pos := r.pos d.pos, stop := r.pos d.stop, endLine := r.line d.endLine, nodes := d.nodes.map (Node.mapPos r) }

def Comment.mapPos (r : Relay) (c : Comment) : Comment :=
  { c with pos := r.pos c.pos, stop := r.pos c.stop, line := r.line c.line, lineStart := r.pos c.lineStart }

/-- positions inside `Decl.info` (type-spec and field-name positions) are read only by the @implements pipeline and
    are left alone here -/
def File.mapPos (r : Relay) (f : File) : File :=
  { f with packagePos := r.pos f.packagePos, fileEnd := r.pos f.fileEnd,
           comments := f.comments.map (Comment.mapPos r), decls := f.decls.map (Decl.mapPos r) }

def Pkg.mapPos (r : Relay) (p : Pkg) : Pkg := { p with files := p.files.map (File.mapPos r) }

def Diag.mapPos (φ : Int → Int) (d : Diag) : Diag := { d with pos := φ d.pos }

@[simp] theorem Node.mapPos_size (r : Relay) (n : Node) : (n.mapPos r).size = n.size := rfl
@[simp] theorem Node.mapPos_pos (r : Relay) (n : Node) : (n.mapPos r).pos = r.pos n.pos := rfl
@[simp] theorem Node.mapPos_stop (r : Relay) (n : Node) : (n.mapPos r).stop = r.pos n.stop := rfl
@[simp] theorem Node.mapPos_startLine (r : Relay) (n : Node) : (n.mapPos r).startLine = r.line n.startLine := rfl
@[simp] theorem Node.mapPos_endLine (r : Relay) (n : Node) : (n.mapPos r).endLine = r.line n.endLine := rfl
@[simp] theorem Node.mapPos_kind (r : Relay) (n : Node) : (n.mapPos r).kind = n.kind.mapPos r.pos := rfl
@[simp] theorem Decl.mapPos_info (r : Relay) (d : Decl) : (d.mapPos r).info = d.info := rfl
@[simp] theorem Decl.mapPos_nodes (r : Relay) (d : Decl) : (d.mapPos r).nodes = d.nodes.map (Node.mapPos r) := rfl
@[simp] theorem File.mapPos_name (r : Relay) (f : File) : (f.mapPos r).name = f.name := rfl
@[simp] theorem File.mapPos_decls (r : Relay) (f : File) : (f.mapPos r).decls = f.decls.map (Decl.mapPos r) := rfl
@[simp] theorem Pkg.mapPos_path (r : Relay) (p : Pkg) : (p.mapPos r).path = p.path := rfl

theorem Lhs.unparen_mapPos (φ : Int → Int) (l : Lhs) : (l.mapPos φ).unparen = l.unparen.mapPos φ := by
  induction l with
  | paren x ih => simpa [Lhs.mapPos, Lhs.unparen] using ih
  | sel t n p => rfl
  | idx x p _ => rfl
  | star x p _ => rfl
  | ident n => rfl
  | other => rfl

theorem filesToScan_mapPos (ρ : Relay) (cfg : Cfg) (p : Pkg) :
    filesToScan cfg (p.mapPos ρ) = (filesToScan cfg p).map (File.mapPos ρ) := by
  unfold filesToScan Pkg.mapPos
  simp only [List.filter_map]
  congr 1

/-- the annotations do not depend on positions -/
theorem readAnnotations_mapPos (ρ : Relay) (cfg : Cfg) (p : Pkg) :
    readAnnotations cfg (p.mapPos ρ) = readAnnotations cfg p := by
  unfold readAnnotations
  rw [filesToScan_mapPos, Pkg.mapPos_path, List.map_map]
  congr 1
  apply List.map_congr_left
  intro f _
  simp only [Function.comp, annOfFile, File.mapPos_decls, List.map_map]
  congr 2 <;> (apply List.map_congr_left; intro d _; simp [Function.comp, annOfDeclTypes, annOfDeclFuncs])

/-! ## immutable -/

theorem immAssignLhs_mapPos (ρ : Relay) (c : WalkCtx) (fn : Name) (recv : Option RecvCtx) (l : Lhs) :
    immAssignLhs c fn recv (l.mapPos ρ.pos) = (immAssignLhs c fn recv l).map (Diag.mapPos ρ.pos) := by
  unfold immAssignLhs
  rw [Lhs.unparen_mapPos]
  cases h : l.unparen with
  | sel t n p => simp only [Lhs.mapPos]; split <;> simp [Diag.mapPos]
  | idx x p =>
    simp only [Lhs.mapPos]
    rw [Lhs.unparen_mapPos]
    cases hx : x.unparen with
    | sel t n q => simp only [Lhs.mapPos]; split <;> simp [Diag.mapPos]
    | _ => simp [Lhs.mapPos]
  | star x p =>
    simp only [Lhs.mapPos]
    have : immRecvHit c fn recv (x.mapPos ρ.pos) = immRecvHit c fn recv x := by
      unfold immRecvHit
      cases x <;> simp [Lhs.mapPos]
    rw [this]
    split <;> simp [Diag.mapPos]
  | _ => simp [Lhs.mapPos]

theorem immCompoundLhs_mapPos (ρ : Relay) (c : WalkCtx) (fn : Name) (l : Lhs) :
    immCompoundLhs c fn (l.mapPos ρ.pos) = (immCompoundLhs c fn l).map (Diag.mapPos ρ.pos) := by
  unfold immCompoundLhs
  rw [Lhs.unparen_mapPos]
  cases h : l.unparen with
  | sel t n p => simp only [Lhs.mapPos]; split <;> simp [Diag.mapPos]
  | _ => simp [Lhs.mapPos]

theorem immIncDec_mapPos (ρ : Relay) (c : WalkCtx) (fn : Name) (recv : Option RecvCtx) (np : Int) (x : Lhs) :
    immIncDec c fn recv (ρ.pos np) (x.mapPos ρ.pos) = (immIncDec c fn recv np x).map (Diag.mapPos ρ.pos) := by
  unfold immIncDec
  rw [Lhs.unparen_mapPos]
  cases h : x.unparen with
  | sel t n p => simp only [Lhs.mapPos]; split <;> simp [Diag.mapPos]
  | star y p =>
    simp only [Lhs.mapPos]
    have : immRecvHit c fn recv (y.mapPos ρ.pos) = immRecvHit c fn recv y := by
      unfold immRecvHit
      cases y <;> simp [Lhs.mapPos]
    rw [this]
    split <;> simp [Diag.mapPos]
  | _ => simp [Lhs.mapPos]

theorem immNode_mapPos (ρ : Relay) (c : WalkCtx) (fn : Name) (recv : Option RecvCtx) (n : Node) :
    immNode c fn recv (n.mapPos ρ) = (immNode c fn recv n).map (Diag.mapPos ρ.pos) := by
  unfold immNode
  simp only [Node.mapPos_kind, Node.mapPos_pos]
  cases n.kind with
  | assign tok lhs =>
    simp only [Kind.mapPos]
    split
    · simp only [List.flatMap_map, List.map_flatMap]
      congr 1; funext l; exact immAssignLhs_mapPos ρ c fn recv l
    · simp only [List.flatMap_map, List.map_flatMap]
      congr 1; funext l; exact immCompoundLhs_mapPos ρ c fn l
  | incDec x => simp only [Kind.mapPos]; exact immIncDec_mapPos ρ c fn recv n.pos x
  | _ => simp [Kind.mapPos]

theorem immWalk_mapPos (ρ : Relay) (c : WalkCtx) (dr : Option RecvInfo) :
    ∀ (ns : List Node) (fn : Name) (recv : Option RecvCtx),
      immWalk c dr fn recv (ns.map (Node.mapPos ρ)) = (immWalk c dr fn recv ns).map (Diag.mapPos ρ.pos) := by
  intro ns
  induction ns with
  | nil => intros; rfl
  | cons n r ih =>
    intro fn recv
    simp only [List.map_cons]
    cases hk : n.kind with
    | funcDecl name =>
      have : (n.mapPos ρ).kind = .funcDecl name := by simp [Node.mapPos_kind, hk, Kind.mapPos]
      simp only [immWalk, this, hk]
      exact ih name _
    | _ =>
      all_goals
        simp only [immWalk, Node.mapPos_kind, hk, Kind.mapPos, List.map_append]
        rw [ih fn recv, ← immNode_mapPos]

theorem immDecl_mapPos (ρ : Relay) (c : WalkCtx) (d : Decl) :
    immDecl c (d.mapPos ρ) = (immDecl c d).map (Diag.mapPos ρ.pos) := by
  unfold immDecl declRecv
  simp only [Decl.mapPos_info, Decl.mapPos_nodes]
  exact immWalk_mapPos ρ c _ d.nodes [] none

theorem checkImmutable_mapPos (ρ : Relay) (cfg : Cfg) (c : WalkCtx) (p : Pkg) :
    checkImmutable cfg c (p.mapPos ρ) = (checkImmutable cfg c p).map (Diag.mapPos ρ.pos) := by
  unfold checkImmutable
  split
  · rfl
  · rw [filesToScan_mapPos]
    simp only [List.flatMap_map, List.map_flatMap, File.mapPos_decls]
    congr 1; funext f
    congr 1; funext d
    exact immDecl_mapPos ρ c d

/-! ## constructor -/

theorem ctorVarSpec_mapPos (ρ : Relay) (c : WalkCtx) (fn : Name) (s : VarSpec) :
    ctorVarSpec c fn (s.mapPos ρ.pos) = (ctorVarSpec c fn s).map (Diag.mapPos ρ.pos) := by
  unfold ctorVarSpec VarSpec.mapPos
  simp only
  split
  · rfl
  · simp only [List.flatMap_map, List.map_flatMap]
    congr 1; funext v
    split
    · rfl
    · split <;> simp [Diag.mapPos]

theorem ctorNode_mapPos (ρ : Relay) (c : WalkCtx) (fn : Name) (n : Node) :
    ctorNode c fn (n.mapPos ρ) = (ctorNode c fn n).map (Diag.mapPos ρ.pos) := by
  unfold ctorNode
  simp only [Node.mapPos_kind, Node.mapPos_pos]
  cases n.kind with
  | compLit ty => simp only [Kind.mapPos]; split <;> simp [Diag.mapPos]
  | call callee nargs arg0 =>
    simp only [Kind.mapPos]
    cases callee with
    | ident name obj => simp only; split <;> simp [Diag.mapPos]
    | _ => simp
  | genVar specs =>
    simp only [Kind.mapPos, List.flatMap_map, List.map_flatMap]
    congr 1; funext s; exact ctorVarSpec_mapPos ρ c fn s
  | _ => simp [Kind.mapPos]

theorem ctorWalk_mapPos (ρ : Relay) (c : WalkCtx) :
    ∀ (ns : List Node) (fn : Name),
      ctorWalk c fn (ns.map (Node.mapPos ρ)) = (ctorWalk c fn ns).map (Diag.mapPos ρ.pos) := by
  intro ns
  induction ns with
  | nil => intros; rfl
  | cons n r ih =>
    intro fn
    simp only [List.map_cons]
    cases hk : n.kind with
    | funcDecl name =>
      have : (n.mapPos ρ).kind = .funcDecl name := by simp [Node.mapPos_kind, hk, Kind.mapPos]
      simp only [ctorWalk, this, hk]
      exact ih name
    | _ =>
      all_goals
        simp only [ctorWalk, Node.mapPos_kind, hk, Kind.mapPos, List.map_append]
        rw [ih fn, ← ctorNode_mapPos]

theorem checkConstructor_mapPos (ρ : Relay) (cfg : Cfg) (c : WalkCtx) (p : Pkg) :
    checkConstructor cfg c (p.mapPos ρ) = (checkConstructor cfg c p).map (Diag.mapPos ρ.pos) := by
  unfold checkConstructor
  split
  · rfl
  · rw [filesToScan_mapPos]
    simp only [List.flatMap_map, List.map_flatMap, File.mapPos_decls]
    congr 1; funext f
    congr 1; funext d
    unfold ctorDecl
    simp only [Decl.mapPos_nodes]
    exact ctorWalk_mapPos ρ c d.nodes []

/-! ## testonly and packageonly: the walks consult the ignore set at each candidate -/

/-- the two ignore sets give the same answers at corresponding positions -/
def IgnAgree (φ : Int → Int) (ig ig' : ISet) : Prop := ∀ code pos, ig'.contains code (φ pos) = ig.contains code pos

def TonlState.mapPos (φ : Int → Int) (s : TonlState) : TonlState := { s with out := s.out.map (Diag.mapPos φ) }
def PkgoState.mapPos (φ : Int → Int) (s : PkgoState) : PkgoState := { s with out := s.out.map (Diag.mapPos φ) }

theorem tonlNode_mapPos (ρ : Relay) (c : WalkCtx) (ig ig' : ISet) (h : IgnAgree ρ.pos ig ig') (s : TonlState) (n : Node) :
    tonlNode c ig' (s.mapPos ρ.pos) (n.mapPos ρ) = (tonlNode c ig s n).mapPos ρ.pos := by
  have typeUse : ∀ ty : Option Ty,
      (match tonlTypeUse c ty with
        | none => s.mapPos ρ.pos
        | some key =>
          if ig'.contains "TONL01" (n.mapPos ρ).pos then s.mapPos ρ.pos
          else if (s.mapPos ρ.pos).reported.contains key then s.mapPos ρ.pos
          else { reported := (s.mapPos ρ.pos).reported ++ [key], out := (s.mapPos ρ.pos).out ++ [⟨(n.mapPos ρ).pos, "TONL01"⟩] }) =
      TonlState.mapPos ρ.pos (match tonlTypeUse c ty with
        | none => s
        | some key =>
          if ig.contains "TONL01" n.pos then s
          else if s.reported.contains key then s
          else { reported := s.reported ++ [key], out := s.out ++ [⟨n.pos, "TONL01"⟩] }) := by
    intro ty
    cases tonlTypeUse c ty with
    | none => rfl
    | some key =>
      simp only [Node.mapPos_pos, h "TONL01" n.pos]
      by_cases hi : ig.contains "TONL01" n.pos = true
      · simp only [hi, if_true]
      · by_cases hr : key ∈ s.reported
        · simp [hi, hr, TonlState.mapPos]
        · simp [hi, hr, TonlState.mapPos, Diag.mapPos]
  unfold tonlNode
  simp only [Node.mapPos_kind]
  cases hk : n.kind with
  | call callee na a0 =>
    simp only [Kind.mapPos]
    cases tonlCall c callee with
    | none => rfl
    | some code =>
      simp only [Node.mapPos_pos, h code n.pos]
      split
      · rfl
      · simp [TonlState.mapPos, Diag.mapPos]
  | compLit ty => simp only [Kind.mapPos]; exact typeUse ty
  | valueSpec ty => simp only [Kind.mapPos]; exact typeUse ty
  | field ty => simp only [Kind.mapPos]; exact typeUse ty
  | _ => simp [Kind.mapPos]

theorem tonlWalk_mapPos (ρ : Relay) (c : WalkCtx) (ig ig' : ISet) (h : IgnAgree ρ.pos ig ig') (prune : Bool) :
    ∀ (ns : List Node) (s : TonlState) (k : Nat),
      tonlWalk c ig' prune (s.mapPos ρ.pos) k (ns.map (Node.mapPos ρ)) = (tonlWalk c ig prune s k ns).mapPos ρ.pos := by
  intro ns
  induction ns with
  | nil => intros; rfl
  | cons n r ih =>
    intro s k
    simp only [List.map_cons]
    cases k with
    | succ k => simp only [tonlWalk]; exact ih s k
    | zero =>
      cases hk : n.kind with
      | funcDecl name =>
        have : (n.mapPos ρ).kind = .funcDecl name := by simp [Node.mapPos_kind, hk, Kind.mapPos]
        simp only [tonlWalk, this, hk, Node.mapPos_size]
        split
        · exact ih s n.size
        · exact ih s 0
      | _ =>
        all_goals
          have hk' : (n.mapPos ρ).kind = (n.kind).mapPos ρ.pos := rfl
          simp only [tonlWalk, hk', hk, Kind.mapPos]
          rw [tonlNode_mapPos ρ c ig ig' h s n]
          exact ih _ 0

theorem tonlFile_mapPos (ρ : Relay) (c : WalkCtx) (ig ig' : ISet) (h : IgnAgree ρ.pos ig ig') (f : File) :
    tonlFile c ig' (f.mapPos ρ) = (tonlFile c ig f).map (Diag.mapPos ρ.pos) := by
  unfold tonlFile
  simp only [File.mapPos_name, File.mapPos_decls]
  by_cases ht : testSuffix.isSuffixOf f.name = true
  · simp only [ht, if_true, List.map_nil]
  · simp only [ht, if_false]
    have key : ∀ (ds : List Decl) (s : TonlState),
        (ds.map (Decl.mapPos ρ)).foldl (fun s d => tonlWalk c ig' (inTestOnlyContext c d) s 0 d.nodes) (s.mapPos ρ.pos) =
        TonlState.mapPos ρ.pos (ds.foldl (fun s d => tonlWalk c ig (inTestOnlyContext c d) s 0 d.nodes) s) := by
      intro ds
      induction ds with
      | nil => intro s; rfl
      | cons d r ih =>
        intro s
        simp only [List.map_cons, List.foldl_cons, Decl.mapPos_nodes]
        have hctx : inTestOnlyContext c (d.mapPos ρ) = inTestOnlyContext c d := by
          unfold inTestOnlyContext; simp
        rw [hctx, tonlWalk_mapPos ρ c ig ig' h _ d.nodes s 0]
        exact ih _
    have := key f.decls {}
    simp only [TonlState.mapPos, List.map_nil] at this
    rw [this]
    simp

theorem checkTestOnly_mapPos (ρ : Relay) (cfg : Cfg) (c : WalkCtx) (ig ig' : ISet) (h : IgnAgree ρ.pos ig ig') (p : Pkg) :
    checkTestOnly cfg c ig' (p.mapPos ρ) = (checkTestOnly cfg c ig p).map (Diag.mapPos ρ.pos) := by
  unfold checkTestOnly
  split
  · rfl
  · rw [filesToScan_mapPos]
    simp only [List.flatMap_map, List.map_flatMap]
    congr 1; funext f
    exact tonlFile_mapPos ρ c ig ig' h f

theorem pkgoNode_mapPos (ρ : Relay) (c : WalkCtx) (ig ig' : ISet) (h : IgnAgree ρ.pos ig ig') (s : PkgoState) (n : Node) :
    pkgoNode c ig' (s.mapPos ρ.pos) (n.mapPos ρ) = (pkgoNode c ig s n).mapPos ρ.pos := by
  unfold pkgoNode
  simp only [Node.mapPos_kind]
  cases hk : n.kind with
  | selector obj =>
    simp only [Kind.mapPos]
    cases obj with
    | typeName pk t =>
      cases pk with
      | none => rfl
      | some pk =>
        simp only [Node.mapPos_pos, h "PKGO01" n.pos]
        split
        · rfl
        · split
          · rfl
          · split
            · rfl
            · by_cases hr : (pk, t) ∈ s.reported
              · simp [hr, PkgoState.mapPos]
              · simp [hr, PkgoState.mapPos, Diag.mapPos]
    | func pk f =>
      cases pk with
      | none => rfl
      | some pk =>
        simp only [Node.mapPos_pos, h "PKGO02" n.pos]
        split
        · rfl
        · split
          · rfl
          · split
            · rfl
            · simp [PkgoState.mapPos, Diag.mapPos]
    | method pk m recv =>
      cases pk with
      | none => rfl
      | some pk =>
        simp only [Node.mapPos_pos, h "PKGO03" n.pos]
        split
        · rfl
        · split
          · rfl
          · split
            · rfl
            · simp [PkgoState.mapPos, Diag.mapPos]
    | _ => rfl
  | _ => simp [Kind.mapPos]

theorem pkgoFile_mapPos (ρ : Relay) (c : WalkCtx) (ig ig' : ISet) (h : IgnAgree ρ.pos ig ig') (f : File) :
    pkgoFile c ig' (f.mapPos ρ) = (pkgoFile c ig f).map (Diag.mapPos ρ.pos) := by
  unfold pkgoFile
  simp only [File.mapPos_decls]
  have inner : ∀ (ns : List Node) (s : PkgoState),
      (ns.map (Node.mapPos ρ)).foldl (pkgoNode c ig') (s.mapPos ρ.pos) = PkgoState.mapPos ρ.pos (ns.foldl (pkgoNode c ig) s) := by
    intro ns
    induction ns with
    | nil => intro s; rfl
    | cons n r ih =>
      intro s
      simp only [List.map_cons, List.foldl_cons]
      rw [pkgoNode_mapPos ρ c ig ig' h s n]
      exact ih _
  have key : ∀ (ds : List Decl) (s : PkgoState),
      (ds.map (Decl.mapPos ρ)).foldl (fun s d => d.nodes.foldl (pkgoNode c ig') s) (s.mapPos ρ.pos) =
      PkgoState.mapPos ρ.pos (ds.foldl (fun s d => d.nodes.foldl (pkgoNode c ig) s) s) := by
    intro ds
    induction ds with
    | nil => intro s; rfl
    | cons d r ih =>
      intro s
      simp only [List.map_cons, List.foldl_cons, Decl.mapPos_nodes]
      rw [inner d.nodes s]
      exact ih _
  have := key f.decls {}
  simp only [PkgoState.mapPos, List.map_nil] at this
  rw [this]

theorem checkPackageOnly_mapPos (ρ : Relay) (cfg : Cfg) (c : WalkCtx) (ig ig' : ISet) (h : IgnAgree ρ.pos ig ig') (p : Pkg) :
    checkPackageOnly cfg c ig' (p.mapPos ρ) = (checkPackageOnly cfg c ig p).map (Diag.mapPos ρ.pos) := by
  unfold checkPackageOnly
  split
  · rfl
  · rw [filesToScan_mapPos]
    simp only [List.flatMap_map, List.map_flatMap]
    congr 1; funext f
    exact pkgoFile_mapPos ρ c ig ig' h f

/-- the report-time filter of the immutable / constructor checkers -/
theorem report_mapPos (ρ : Relay) (ig ig' : ISet) (h : IgnAgree ρ.pos ig ig') (ds : List Diag) :
    (ds.map (Diag.mapPos ρ.pos)).filter (fun d => !ig'.contains d.code d.pos) =
      (ds.filter (fun d => !ig.contains d.code d.pos)).map (Diag.mapPos ρ.pos) := by
  induction ds with
  | nil => rfl
  | cons d r ih =>
    simp only [List.map_cons, List.filter_cons]
    have : ig'.contains (Diag.mapPos ρ.pos d).code (Diag.mapPos ρ.pos d).pos = ig.contains d.code d.pos := h d.code d.pos
    rw [this]
    split
    · simp [ih]
    · exact ih

end GGV.Model.Prog
