import GGV.Lemmas.Reposition
import GGV.Lemmas.IgnoreSet
/-!
# Re-positioning and the @ignore reader

For a re-layout whose position map is strictly increasing and fixes the "no position" sentinel 0, and whose line
map is injective, the markers read from the re-laid-out file are the images of the markers read from the original.
-/
namespace GGV.Model.Prog
open GGV.Model

/-- blank lines, comments, re-formatting: tokens keep their order, lines stay distinct -/
structure Relay.Monotone (ρ : Relay) : Prop where
  strict : ∀ a b : Int, a < b → ρ.pos a < ρ.pos b
  zero : ρ.pos 0 = 0
  lineInj : ∀ a b : Int, ρ.line a = ρ.line b → a = b

theorem Relay.Monotone.lt_iff {ρ : Relay} (h : ρ.Monotone) (a b : Int) : ρ.pos a < ρ.pos b ↔ a < b := by
  constructor
  · intro hlt
    rcases Int.lt_trichotomy a b with h1 | h1 | h1
    · exact h1
    · subst h1; omega
    · have := h.strict b a h1; omega
  · exact h.strict a b

theorem Relay.Monotone.le_iff {ρ : Relay} (h : ρ.Monotone) (a b : Int) : ρ.pos a ≤ ρ.pos b ↔ a ≤ b := by
  have := h.lt_iff b a
  constructor
  · intro hle
    by_cases h1 : b < a
    · have := this.2 h1; omega
    · omega
  · intro hle
    by_cases h1 : ρ.pos b < ρ.pos a
    · have := this.1 h1; omega
    · omega

theorem Relay.Monotone.eq_iff {ρ : Relay} (h : ρ.Monotone) (a b : Int) : ρ.pos a = ρ.pos b ↔ a = b := by
  constructor
  · intro he
    have h1 := (h.le_iff a b).1 (by omega)
    have h2 := (h.le_iff b a).1 (by omega)
    omega
  · intro he; rw [he]

theorem Relay.Monotone.eq_zero_iff {ρ : Relay} (h : ρ.Monotone) (a : Int) : ρ.pos a = 0 ↔ a = 0 := by
  have := h.eq_iff a 0
  rw [h.zero] at this
  exact this

theorem Relay.Monotone.line_iff {ρ : Relay} (h : ρ.Monotone) (a b : Int) : ρ.line a = ρ.line b ↔ a = b :=
  ⟨h.lineInj a b, fun e => by rw [e]⟩

theorem Relay.Monotone.line_beq {ρ : Relay} (h : ρ.Monotone) (a b : Int) : (ρ.line a == ρ.line b) = (a == b) := by
  rw [Bool.eq_iff_iff]; simp only [beq_iff_eq]; exact h.line_iff a b

theorem Relay.Monotone.next_cond {ρ : Relay} (h : ρ.Monotone) (a s : Int) :
    ((ρ.pos s == 0) || decide (ρ.pos a < ρ.pos s)) = ((s == 0) || decide (a < s)) := by
  have h1 : (ρ.pos s == 0) = (s == 0) := by
    rw [Bool.eq_iff_iff]; simp only [beq_iff_eq]; exact h.eq_zero_iff s
  have h2 : decide (ρ.pos a < ρ.pos s) = decide (a < s) := decide_eq_decide.2 (h.lt_iff a s)
  rw [h1, h2]

theorem Relay.Monotone.zero_beq {ρ : Relay} (h : ρ.Monotone) (a : Int) : (ρ.pos a == 0) = (a == 0) := by
  rw [Bool.eq_iff_iff]; simp only [beq_iff_eq]; exact h.eq_zero_iff a

@[simp] theorem Decl.mapPos_stop (ρ : Relay) (d : Decl) : (d.mapPos ρ).stop = ρ.pos d.stop := rfl
@[simp] theorem Decl.mapPos_pos (ρ : Relay) (d : Decl) : (d.mapPos ρ).pos = ρ.pos d.pos := rfl
@[simp] theorem Decl.mapPos_endLine (ρ : Relay) (d : Decl) : (d.mapPos ρ).endLine = ρ.line d.endLine := rfl

theorem declIndex_mapPos (ρ : Relay) (h : ρ.Monotone) (ds : List Decl) (pos : Int) :
    declIndex (ds.map (Decl.mapPos ρ)) (ρ.pos pos) = declIndex ds pos := by
  unfold declIndex
  rw [List.findIdx?_map, List.length_map]
  have : ((fun d : Decl => decide (d.stop > ρ.pos pos)) ∘ Decl.mapPos ρ) = (fun d : Decl => decide (d.stop > pos)) := by
    funext d
    simp only [Function.comp, Decl.mapPos_stop, gt_iff_lt, h.lt_iff]
  rw [this]

theorem inlineWalk_mapPos (ρ : Relay) (h : ρ.Monotone) (cpos cline : Int) :
    ∀ (ns : List Node) (found : Bool) (k : Nat),
      inlineWalk (ρ.pos cpos) (ρ.line cline) found k (ns.map (Node.mapPos ρ)) = inlineWalk cpos cline found k ns := by
  intro ns
  induction ns with
  | nil => intros; rfl
  | cons n r ih =>
    intro found k
    simp only [List.map_cons]
    cases k with
    | succ k => simp only [inlineWalk]; exact ih found k
    | zero =>
      simp only [inlineWalk, Node.mapPos_pos, Node.mapPos_size, Node.mapPos_startLine, Node.mapPos_endLine, ge_iff_le,
        h.le_iff, h.line_beq]
      split
      · exact ih found n.size
      · split
        · exact ih true n.size
        · exact ih found 0

theorem getElem?_mapPos (ρ : Relay) (ds : List Decl) (i : Nat) :
    (ds.map (Decl.mapPos ρ))[i]? = (ds[i]?).map (Decl.mapPos ρ) := List.getElem?_map

@[simp] theorem Comment.mapPos_pos (ρ : Relay) (c : Comment) : (c.mapPos ρ).pos = ρ.pos c.pos := rfl
@[simp] theorem Comment.mapPos_stop (ρ : Relay) (c : Comment) : (c.mapPos ρ).stop = ρ.pos c.stop := rfl
@[simp] theorem Comment.mapPos_line (ρ : Relay) (c : Comment) : (c.mapPos ρ).line = ρ.line c.line := rfl
@[simp] theorem Comment.mapPos_lineStart (ρ : Relay) (c : Comment) : (c.mapPos ρ).lineStart = ρ.pos c.lineStart := rfl
@[simp] theorem Comment.mapPos_text (ρ : Relay) (c : Comment) : (c.mapPos ρ).text = c.text := rfl
@[simp] theorem File.mapPos_packagePos (ρ : Relay) (f : File) : (f.mapPos ρ).packagePos = ρ.pos f.packagePos := rfl
@[simp] theorem File.mapPos_fileEnd (ρ : Relay) (f : File) : (f.mapPos ρ).fileEnd = ρ.pos f.fileEnd := rfl
@[simp] theorem File.mapPos_comments (ρ : Relay) (f : File) : (f.mapPos ρ).comments = f.comments.map (Comment.mapPos ρ) := rfl

theorem prevEndsOnLine_mapPos (ρ : Relay) (h : ρ.Monotone) (f : File) (cm : Comment) :
    prevEndsOnLine (f.mapPos ρ) (cm.mapPos ρ) = prevEndsOnLine f cm := by
  unfold prevEndsOnLine
  simp only [File.mapPos_decls, Comment.mapPos_pos, declIndex_mapPos ρ h]
  cases declIndex f.decls cm.pos with
  | zero => rfl
  | succ i =>
    simp only [getElem?_mapPos]
    cases f.decls[i]? with
    | none => rfl
    | some d => simp [h.line_beq]

def mapRange (φ : Int → Int) (r : Int × Int) : Int × Int := (φ r.1, φ r.2)

theorem findInline_mapPos (ρ : Relay) (h : ρ.Monotone) (f : File) (cm : Comment) :
    findInline (f.mapPos ρ) (cm.mapPos ρ) = (findInline f cm).map (mapRange ρ.pos) := by
  unfold findInline
  rw [prevEndsOnLine_mapPos ρ h]
  split
  · rfl
  · simp only [File.mapPos_decls, Comment.mapPos_pos, declIndex_mapPos ρ h, getElem?_mapPos]
    cases f.decls[declIndex f.decls cm.pos]? with
    | none => rfl
    | some d =>
      simp only [Option.map_some, Decl.mapPos_pos, h.lt_iff, Decl.mapPos_nodes, Comment.mapPos_line,
        inlineWalk_mapPos ρ h]
      split
      · rfl
      · split <;> rfl

theorem nextWalk_mapPos (ρ : Relay) (h : ρ.Monotone) (cpos : Int) :
    ∀ (ns : List Node) (st : Int × Int) (k : Nat),
      nextWalk (ρ.pos cpos) (mapRange ρ.pos st) k (ns.map (Node.mapPos ρ)) = mapRange ρ.pos (nextWalk cpos st k ns) := by
  intro ns
  induction ns with
  | nil => intros; rfl
  | cons n r ih =>
    intro st k
    simp only [List.map_cons]
    cases k with
    | succ k => simp only [nextWalk]; exact ih st k
    | zero =>
      simp only [nextWalk]
      split
      · rename_i hle
        have h1 : n.pos ≤ cpos := (h.le_iff _ _).1 hle
        rw [if_pos h1]; exact ih st 0
      · rename_i hle
        have h1 : ¬ n.pos ≤ cpos := fun a => hle ((h.le_iff _ _).2 a)
        rw [if_neg h1]
        split
        · rename_i hc
          simp only [Bool.or_eq_true, beq_iff_eq, decide_eq_true_eq] at hc
          have c1 : (st.1 == 0 || decide (n.pos < st.1)) = true := by
            simp only [Bool.or_eq_true, beq_iff_eq, decide_eq_true_eq]
            rcases hc with a | a
            · exact Or.inl ((h.eq_zero_iff _).1 a)
            · exact Or.inr ((h.lt_iff _ _).1 a)
          rw [if_pos c1]; exact ih (n.pos, n.stop) n.size
        · rename_i hc
          simp only [Bool.or_eq_true, beq_iff_eq, decide_eq_true_eq] at hc
          have c1 : ¬ (st.1 == 0 || decide (n.pos < st.1)) = true := by
            simp only [Bool.or_eq_true, beq_iff_eq, decide_eq_true_eq]
            intro a
            apply hc
            rcases a with a | a
            · exact Or.inl ((h.eq_zero_iff _).2 a)
            · exact Or.inr ((h.lt_iff _ _).2 a)
          rw [if_neg c1]; exact ih st 0

theorem findNext_mapPos (ρ : Relay) (h : ρ.Monotone) (f : File) (cpos : Int) :
    findNext (f.mapPos ρ) (ρ.pos cpos) = ρ.pos (findNext f cpos) := by
  unfold findNext
  simp only [File.mapPos_decls, declIndex_mapPos ρ h, getElem?_mapPos]
  cases f.decls[declIndex f.decls cpos]? with
  | none => exact h.zero.symm
  | some d =>
    simp only [Option.map_some, Decl.mapPos_pos, h.lt_iff, Decl.mapPos_stop, Decl.mapPos_nodes]
    split
    · rfl
    · have := nextWalk_mapPos ρ h cpos d.nodes (0, 0) 0
      simp only [mapRange, h.zero] at this
      rw [this]

theorem scopeOf_mapPos (ρ : Relay) (h : ρ.Monotone) (f : File) (cm : Comment) :
    scopeOf (f.mapPos ρ) (cm.mapPos ρ) = mapRange ρ.pos (scopeOf f cm) := by
  unfold scopeOf
  simp only [Comment.mapPos_pos, File.mapPos_packagePos, h.lt_iff, File.mapPos_fileEnd, findInline_mapPos ρ h,
    findNext_mapPos ρ h, Comment.mapPos_stop]
  split
  · rfl
  · cases findInline f cm with
    | some r => rfl
    | none =>
      simp only [Option.map_none, h.zero_beq, mapRange]
      split <;> rfl

def Marker.mapPos (φ : Int → Int) (m : Marker) : Marker := { m with start := φ m.start, stop := φ m.stop }

def Op.mapPos (φ : Int → Int) : Op → Op
  | .add m => .add (Marker.mapPos φ m)
  | .addModule cs => .addModule cs

theorem markerOf_mapPos (ρ : Relay) (h : ρ.Monotone) (f : File) (cm : Comment) :
    markerOf (f.mapPos ρ) (cm.mapPos ρ) = (markerOf f cm).map (Marker.mapPos ρ.pos) := by
  unfold markerOf
  simp only [Comment.mapPos_text, scopeOf_mapPos ρ h]
  split
  · rfl
  · cases Grammar.parseIgnore cm.text with
    | none => rfl
    | some codes => rfl

theorem ignoreOps_mapPos (ρ : Relay) (h : ρ.Monotone) (cfg : Cfg) (p : Pkg) :
    ignoreOps cfg (p.mapPos ρ) = (ignoreOps cfg p).map (Op.mapPos ρ.pos) := by
  unfold ignoreOps
  rw [filesToScan_mapPos, List.map_append]
  congr 1
  · split <;> rfl
  · simp only [List.flatMap_map, List.map_flatMap]
    congr 1; funext f
    simp only [File.mapPos_comments, List.filterMap_map, List.map_filterMap]
    congr 1; funext cm
    simp only [Function.comp, markerOf_mapPos ρ h]
    cases markerOf f cm <;> simp [Op.mapPos]

end GGV.Model.Prog
