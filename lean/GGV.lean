import GGV.Gen.Tables
import GGV.Model.Codes
import GGV.Model.IgnoreSet
